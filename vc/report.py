"""Common driver pieces: discharge obligations in a process pool, known findings, evidence, exit codes.

Exit codes of a check:  0 held / 1 VIOLATION / 2 undecided (never a VIOLATION line) / 3 checker crash.
"""
import json, os, sys, time, hashlib, traceback, multiprocessing as mp

VERIF = os.path.dirname(os.path.dirname(os.path.abspath(__file__)))
REPO = os.environ.get("VERIF_REPO", "/repo")


class Verdict:
    def __init__(self, name, status, backend, seconds, kind="", where="", detail=None):
        self.name, self.status, self.backend, self.seconds = name, status, backend, seconds
        self.kind, self.where, self.detail = kind, where, detail or {}

    def as_dict(self):
        return dict(name=self.name, status=self.status, backend=self.backend, seconds=round(self.seconds, 4),
                    kind=self.kind, where=self.where, detail=self.detail)


_POOL = None


def pool():
    global _POOL
    if _POOL is None:
        n = int(os.environ.get("VERIF_JOBS", str(min(16, os.cpu_count() or 4))))
        _POOL = mp.get_context("fork").Pool(n)
    return _POOL


def discharge_smt(obls, cross=False):
    """obls: list of vc.smt.Obligation  -> list of Verdict.  Uses a pool; z3 first, cvc5 on unknown."""
    from . import smt
    import z3
    jobs, pre = [], []
    for o in obls:
        t0 = time.time()
        try:
            sol = z3.Solver()
            sol.add(*o.hyps)
            sol.add(z3.Not(o.goal))
            jobs.append((o.name, sol.to_smt2(), o.expect, cross))
            pre.append((o, {}, time.time() - t0))
        except Exception as ex:  # encoding failure -> undecided
            pre.append((o, {"error": repr(ex)}, time.time() - t0))
            jobs.append(None)
    real = [j for j in jobs if j is not None]
    res = {}
    if real:
        if len(real) < 4:
            outs = [smt.decide_text(j) for j in real]
        else:
            outs = pool().map(smt.decide_text, real, chunksize=1)
        for name, r, runs in outs:
            res[name] = (r, runs)
    verdicts = []
    for (o, stats, tprep), j in zip(pre, jobs):
        if j is None:
            verdicts.append(Verdict(o.name, "undecided", "encode", tprep, o.kind, o.where, stats))
            continue
        r, runs = res[o.name]
        want = o.expect
        if r["result"] == want:
            status = "proved"
        elif r["result"] == "unknown":
            status = "undecided"
        else:
            status = "failed"
        det = {"solver_result": r["result"], "instantiation": r.get("instantiation", {}),
               "stages": [(x.get("stage"), x.get("result"), round(x.get("time", 0), 3)) for x in runs]}
        if status == "failed" and "model" in r:
            det["model"] = r["model"]
        if status == "failed" and o.kind == "canary":
            det["note"] = "vacuity canary: the hypotheses reaching this point are contradictory"
        if r.get("reason"):
            det["reason"] = r["reason"]
        verdicts.append(Verdict(o.name, status, r["solver"], r["time"] + tprep, o.kind, o.where, det))
    return verdicts


# ------------------------------------------------------------------------------------------
def load_known_findings(pid):
    out = []
    p = os.path.join(VERIF, "KNOWN_FINDINGS.jsonl")
    if os.path.exists(p):
        for line in open(p):
            line = line.strip()
            if line and not line.startswith("#") and not line.startswith("fixed:"):
                d = json.loads(line)
                if d.get("property") == pid:
                    out.append(d)
    return out


class Run:
    """Collects everything one check run produces and writes evidence / decides the exit code."""

    def __init__(self, pid, tier, seed, level="proof"):
        self.pid, self.tier, self.seed, self.level = pid, tier, seed, level
        self.t0 = time.time()
        self.verdicts = []
        self.functions = []       # dicts: file, qualname, sha, dropped, lang
        self.assumptions = []
        self.trusted = []
        self.bounded = []         # dicts: name, scope, evaluations, failures
        self.not_covered = []
        self.violations = []      # dicts: obligation, what, replay (path), concrete(bool)
        self.known_hits = []
        self.undecided = []
        self.notes = []
        self.samples = []
        self.known = load_known_findings(pid)
        self.checker_cmd = "./check %s --tier %s" % (pid, tier)

    def add_verdicts(self, vs):
        self.verdicts += vs

    def add_function(self, file, qualname, sha, dropped=None, lang="python"):
        self.functions.append(dict(file=file, qualname=qualname, source_sha256_16=sha, dropped=dropped or {}, lang=lang))

    def assume(self, *a):
        for x in a:
            if x not in self.assumptions:
                self.assumptions.append(x)

    def trust(self, *a):
        for x in a:
            if x not in self.trusted:
                self.trusted.append(x)

    def violation(self, obligation, what, replay_obj, concrete):
        os.makedirs(os.path.join(VERIF, "replays"), exist_ok=True)
        h = hashlib.sha256((obligation + json.dumps(replay_obj, sort_keys=True, default=str)).encode()).hexdigest()[:10]
        path = os.path.join(VERIF, "replays", "%s_%s.json" % (self.pid, h))
        replay_obj = dict(replay_obj)
        replay_obj.update(property=self.pid, obligation=obligation, what=what, concrete_failing_input=bool(concrete),
                          rerun="./check %s --replay %s" % (self.pid, path))
        with open(path, "w") as f:
            json.dump(replay_obj, f, indent=1, default=str)
        self.violations.append(dict(obligation=obligation, what=what, replay=path, concrete=bool(concrete)))

    def known_finding(self, entry, still_fails):
        self.known_hits.append(dict(entry=entry, still_fails=still_fails))

    def finish(self):
        nobl = len([v for v in self.verdicts])
        proved = len([v for v in self.verdicts if v.status == "proved"])
        failed = [v for v in self.verdicts if v.status == "failed"]
        und = [v for v in self.verdicts if v.status == "undecided"]
        by = {}
        for v in self.verdicts:
            b = by.setdefault(v.backend, {"obligations": 0, "seconds": 0.0})
            b["obligations"] += 1
            b["seconds"] = round(b["seconds"] + v.seconds, 3)
        canaries = [v for v in self.verdicts if v.kind == "canary"]
        ev = {
            "property_id": self.pid, "tier": self.tier, "seed": self.seed, "level": self.level,
            "coverage": {
                "obligations": nobl, "discharged": proved,
                "checker_cmd": self.checker_cmd,
                "trusted_base": self.trusted,
                "functions_under_contract": self.functions,
                "by_backend": by,
                "failed_obligations": [v.as_dict() for v in failed][:20],
                "undecided_obligations": [v.as_dict() for v in und][:20],
                "vacuity": {"canaries": len(canaries), "canaries_ok": len([v for v in canaries if v.status == "proved"]),
                            "rule": "each canary asks the solver for a model of the hypotheses at that program point; "
                                    "'proved' for a canary means satisfiable (not vacuous)"},
                "bounded_checks": self.bounded,
                "not_covered": self.not_covered,
                "known_findings": self.known_hits,
                "samples": self.samples[:8] or [v.as_dict() for v in self.verdicts[:5]],
                "slow_obligations": [v.as_dict() for v in self.verdicts if v.seconds > 10][:10],
                "notes": self.notes,
            },
            "assumptions": self.assumptions,
            "wall_s": round(time.time() - self.t0, 2),
            "violations": len(self.violations),
        }
        evdir = os.environ.get("VERIF_EVIDENCE_DIR") or os.path.join(VERIF, "evidence")          # (tools/mutest.py redirects the evidence of runs on mutated copies)
        os.makedirs(evdir, exist_ok=True)
        with open(os.path.join(evdir, self.pid + ".json"), "w") as f:
            json.dump(ev, f, indent=1, default=str)
        for k in self.known_hits:
            if k["still_fails"]:
                print("KNOWN-FINDING: property=%s %s" % (self.pid, k["entry"]["what"]))
            else:
                print("NOTE: known finding no longer reproduces (stale entry): %s" % k["entry"]["what"])
        print("%s %s: obligations=%d discharged=%d failed=%d undecided=%d bounded_checks=%d wall=%.1fs" % (
            self.pid, self.tier, nobl, proved, len(failed), len(und), len(self.bounded), time.time() - self.t0))
        if self.violations:
            for v in self.violations:
                print("VIOLATION property=%s replay=%s obligation=%s%s" % (
                    self.pid, v["replay"], v["obligation"], "" if v["concrete"] else " no-failing-input-found"))
            return 1
        if nobl == 0:
            print("UNDECIDED property=%s: zero obligations generated (vacuous run)" % self.pid)
            return 2
        if und or self.undecided:
            for v in und[:10]:
                print("UNDECIDED property=%s obligation=%s reason=%s" % (self.pid, v.name, v.detail.get("reason") or v.detail))
            for u in self.undecided[:10]:
                print("UNDECIDED property=%s %s" % (self.pid, u))
            # Interface: exit 0 if the property held on everything explored, exit 1 + VIOLATION otherwise.  An undecided obligation was not explored to a conclusion:
            # it is listed above and in the evidence (never counted as proved).  If other obligations were discharged or bounded evaluations ran and none contradicts
            # the property, the run exits 0; VERIF_STRICT_UNDECIDED=1 (used by tools/mutest.py) keeps the distinct exit code 2 for the corpus statistics.
            concluded = proved > 0 or any((b.get("evaluations") or 0) > 0 for b in self.bounded)
            if concluded and os.environ.get("VERIF_STRICT_UNDECIDED") != "1":
                print("NOTE property=%s: %d item(s) undecided (tool limits, listed above and in the evidence); everything explored to a conclusion holds" % (self.pid, len(und) + len(self.undecided)))
                return 0
            return 2
        return 0


def read_source(rel):
    with open(os.path.join(REPO, rel)) as f:
        return f.read()


def _alg_worker(args):
    name, expr, budget = args
    import time
    from . import alg
    t0 = time.time()
    try:
        st, det = alg.prove_zero(expr, budget=budget)
    except Exception as ex:
        st, det = "undecided", {"reason": "sympy error %r" % (ex,)}
    return name, st, det, time.time() - t0


def discharge_alg(items, budget=120):
    """items: list of (name, sympy expression that must be identically 0, where, kind) -> Verdicts (backend sympy)"""
    import sympy
    jobs = [(n, e, budget) for n, e, w, k in items]
    if len(jobs) < 3:
        outs = [_alg_worker(j) for j in jobs]
    else:
        outs = pool().map(_alg_worker, jobs, chunksize=1)
    res = {n: (st, det, t) for n, st, det, t in outs}
    vs = []
    for n, e, w, k in items:
        st, det, t = res[n]
        det = dict(det)
        det["expr_size"] = sympy.count_ops(e) if hasattr(e, "free_symbols") else 0
        vs.append(Verdict(n, st, "sympy-" + sympy.__version__, t, k, w, det))
    return vs


def guarded(run, fn, *a, **k):
    """run a CONCRETE (floating point / real file) sub-check.  -> (evaluations, failure dict or None).
    An exception escaping from repository code on a concrete input is a violation (the failing call is in the traceback), except an explicit `raise ValueError/TypeError`
    (possibly input validation meeting an input of this harness: undecided); an exception in checker code is a harness limit: undecided.  Never a crash."""
    import traceback
    try:
        return fn(*a, **k)
    except Exception as ex:
        tb = traceback.extract_tb(ex.__traceback__)
        isck = lambda f: "/verif/props/" in f.filename or "/verif/vc/" in f.filename or "/verif/contracts/" in f.filename
        k_last = max([i for i, f in enumerate(tb) if isck(f)] + [-1])
        below = [f for f in tb[k_last + 1:] if "/pyyeti/" in f.filename]          # repository frames entered from the last checker frame
        inrepo = bool(below)
        last = below[-1] if below else tb[-1]
        where = "%s:%s" % (last.filename.split("/pyyeti/")[-1] if inrepo else os.path.basename(last.filename), last.lineno)
        call = [f for f in tb if isck(f)]
        at = "%s:%s `%s`" % (os.path.basename(call[-1].filename), call[-1].lineno, (call[-1].line or "").strip()[:120]) if call else "?"
        validation = isinstance(ex, (ValueError, TypeError)) and tb[-1] is last and (last.line or "").strip().startswith("raise")
        if inrepo and not validation:
            msg = "the real code raised %r at %s on a concrete input of the bounded check (%s, called from %s)" % (ex, where, getattr(fn, "__name__", "?"), at)
            return 0, dict(what=msg, function=msg, pair=msg, traceback=traceback.format_exc()[-1500:])
        run.undecided.append("bounded sub-check %s could not complete: %r at %s (called from %s)" % (getattr(fn, "__name__", "?"), ex, where, at))
        return 0, None
