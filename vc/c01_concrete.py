"""Concrete side of C01/C08/C17: the REAL solvers (float) against an independent exact reference
(first-order-hold discretisation from scipy.linalg.expm of the augmented matrix).  Bounded stand-in for the
conditioning clauses and the parts not under contract (coupled path, SolveExp2), and the replay engine."""
import sys, os, json
import numpy as np
import scipy.linalg as la


def reference(M, B, K, h, F, d0, v0, order=1):
    n = M.shape[0]
    Mi = np.linalg.inv(M)
    A = np.block([[np.zeros((n, n)), np.eye(n)], [-Mi @ K, -Mi @ B]])
    Bu = np.vstack([np.zeros((n, n)), Mi])
    N = 2 * n
    aug = np.zeros((N + 2 * n, N + 2 * n))
    aug[:N, :N] = A
    aug[:N, N:N + n] = Bu
    aug[N:N + n, N + n:] = np.eye(n)
    E = la.expm(aug * h)
    Phi, G1, G2 = E[:N, :N], E[:N, N:N + n], E[:N, N + n:]
    nt = F.shape[1]
    x = np.zeros((N, nt))
    x[:n, 0], x[n:, 0] = d0, v0
    for i in range(nt - 1):
        ud = (F[:, i + 1] - F[:, i]) / h if order == 1 else 0 * F[:, i]
        x[:, i + 1] = Phi @ x[:, i] + G1 @ F[:, i] + G2 @ ud
    return x[:n], x[n:]


def systems(seed):
    rng = np.random.RandomState(seed)
    out = []
    for h in (1e-3, 1e-2):
        lo, hi = 1e-5 / np.sqrt(h), 10 * (1e-10 / h) ** (1 / 3)
        band = [np.sqrt(lo * hi), 2 * lo, hi / 3]
        m = np.array([1.0, 2.0, 1.5, 0.7, 1.0, 3.0, 2.0, 1.0])
        c = np.array([0.0, band[0], band[1], band[2], 5.0, 0.02 * 30, 2 * 30.0, 3 * 30.0])   # c = b/(2m)
        k = np.array([0.0, 0.0, 0.0, 0.0, 0.0, 900.0, 900.0, 900.0]) * m
        b = 2 * m * c
        out.append(dict(name="diag h=%g [rb, 3 lightly damped rb in the cut-off band, damped rb, under, critical, over]" % h,
                        m=m, b=b, k=k, h=h, nt=600, tol=[1e-6, 2e-3, 2e-3, 2e-3, 1e-6, 1e-6, 1e-5, 1e-6]))
    # coupled, non-proportional damping, with a slow (heavily overdamped) root and a small step
    M = np.array([[2.0, 0.3, 0.0], [0.3, 1.5, 0.1], [0.0, 0.1, 1.0]])
    K = np.array([[50.0, -20.0, 0.0], [-20.0, 45.0, -0.01], [0.0, -0.01, 0.02]])
    B = np.array([[0.4, -0.1, 0.0], [-0.1, 0.6, 0.05], [0.0, 0.05, 1.0]])
    out.append(dict(name="coupled 3-DOF with slow root lam ~ -0.02, h=1e-3, 20 s", m=M, b=B, k=K, h=1e-3, nt=20001, tol=1e-5))
    # widely scaled modal damping: three light modes (m = 1, zeta = 0.4 percent) weakly coupled to each other (5e-4) next to one heavy, heavily damped mode:
    # the coupling is ~1e-8 of the largest damping entry but 2 percent of the light modes' own damping - it must not be dropped
    wl = np.array([9.0, 11.0, 14.0])
    mW = np.array([1.0, 1.0, 1.0, 2.0e4])
    kW = np.array([wl[0] ** 2, wl[1] ** 2, wl[2] ** 2, 2.0e4 * 6.0 ** 2])
    bW = np.diag([2 * 0.004 * wl[0], 2 * 0.004 * wl[1], 2 * 0.004 * wl[2], 2 * 0.3 * 6.0 * 2.0e4])
    bW[0, 1] = bW[1, 0] = 5e-4; bW[1, 2] = bW[2, 1] = 5e-4; bW[0, 2] = bW[2, 0] = -5e-4
    out.append(dict(name="widely scaled damping with weak coupling among the light modes (1-D mass and stiffness, 2-D damping), h=5e-3, 30 s", m=mW, b=bW, k=kW, h=5e-3, nt=6001, tol=1e-6))
    K2 = np.array([[50.0, -20.0, 0.0], [-20.0, 45.0, -5.0], [0.0, -5.0, 30.0]])
    out.append(dict(name="coupled 3-DOF, h=1e-2", m=M, b=B, k=K2 * 10, h=1e-2, nt=800, tol=1e-6))
    return out


def run(repo, seed, which=("SolveUnc", "SolveExp2")):
    sys.path.insert(0, repo)
    from pyyeti import ode
    assert os.path.abspath(ode.__file__).startswith(os.path.abspath(repo)), ode.__file__
    res = dict(evaluations=0, failure=None, cases=[])
    rng = np.random.RandomState(seed + 1)
    for s in systems(seed):
        m, b, k, h, nt = s["m"], s["b"], s["k"], s["h"], s["nt"]
        n = len(m)
        t = np.arange(nt) * h
        F = np.vstack([np.interp(t, np.linspace(0, t[-1], 40), rng.randn(40)) for _ in range(n)])
        d0, v0 = rng.randn(n), rng.randn(n)
        Mm = np.diag(m) if np.ndim(m) == 1 else m
        Bm = np.diag(b) if np.ndim(b) == 1 else b
        Km = np.diag(k) if np.ndim(k) == 1 else k
        for order in (1, 0):
            dr, vr = reference(Mm, Bm, Km, h, F, d0, v0, order)
            for cls in which:
                ts = getattr(ode, cls)(m, b, k, h, order=order)
                sol = ts.tsolve(F, d0=d0, v0=v0)
                res["evaluations"] += 1
                tol = np.asarray(s["tol"]) if np.ndim(s["tol"]) else s["tol"]
                scale = np.maximum(abs(dr).max(axis=1), 1e-12)
                err = abs(sol.d - dr).max(axis=1) / scale
                resid = abs(Mm @ sol.a + Bm @ sol.v + Km @ sol.d - F).max() / max(abs(F).max(), 1e-12)
                bad = err > tol
                res["cases"].append(dict(system=s["name"], solver=cls, order=order, max_rel_err=float(err.max()), eom_residual=float(resid)))
                if (bad.any() or resid > 1e-7) and res["failure"] is None:
                    res["failure"] = dict(system=s["name"], solver=cls, order=order, h=h, rel_err_per_dof=err.tolist(),
                                          tolerance=np.broadcast_to(tol, err.shape).tolist(), eom_residual=float(resid),
                                          m=np.asarray(m).tolist(), b=np.asarray(b).tolist(), k=np.asarray(k).tolist(),
                                          what="displacement differs from the exact first-order-hold solution (expm reference)"
                                          if bad.any() else "returned acceleration violates the equation of motion")
    # pre_eig with residual-flexibility modes (zero initial conditions): the solver must equal the same solver run on the explicitly reduced modal system
    #   phi from the generalized eigenproblem K phi = M phi w^2, modal m = I, b = phi^T B phi, k = w^2, force phi^T F, d = phi q
    Mp = np.array([[2.0, 0.3, 0.0, 0.0], [0.3, 1.5, 0.2, 0.0], [0.0, 0.2, 3.0, 0.1], [0.0, 0.0, 0.1, 1.0]])
    Kp = np.array([[90.0, -30.0, 0.0, 0.0], [-30.0, 60.0, -20.0, 0.0], [0.0, -20.0, 45.0, -5.0], [0.0, 0.0, -5.0, 4000.0]])
    w2, phi = la.eigh(Kp, Mp)
    zet = np.array([0.02, 0.03, 0.01, 0.05])
    Bp = Mp @ phi @ np.diag(2 * zet * np.sqrt(w2)) @ phi.T @ Mp            # modal damping in physical coordinates
    hp, ntp = 0.002, 300
    tp = np.arange(ntp) * hp
    Fp = np.vstack([np.interp(tp, np.linspace(0, tp[-1], 25), rng.randn(25)) for _ in range(4)])
    for cls in which:
        for order in (1, 0):
            for rfm in ([3], [2, 3]):
                try:
                    sp_ = getattr(ode, cls)(Mp, Bp, Kp, hp, order=order, pre_eig=True, rf=rfm).tsolve(Fp)
                    sm_ = getattr(ode, cls)(np.ones(4), phi.T @ Bp @ phi if cls == "SolveExp2" else np.diag(phi.T @ Bp @ phi).copy(), w2.copy(), hp, order=order, rf=rfm).tsolve(phi.T @ Fp)
                except Exception as ex:
                    continue                                         # configuration not supported by this solver class: nothing to compare
                res["evaluations"] += 1
                dm = phi @ sm_.d
                e_ = abs(sp_.d - dm).max() / max(abs(dm).max(), 1e-12)
                res["cases"].append(dict(system="pre_eig + rf %s vs explicit modal reduction" % rfm, solver=cls, order=order, max_rel_err=float(e_)))
                if e_ > 1e-8 and res["failure"] is None:
                    res["failure"] = dict(system="4-DOF coupled, pre_eig=True, rf=%s" % rfm, solver=cls, order=order, rel_err=float(e_),
                                          what="with pre_eig=True and residual-flexibility modes the displacement differs from the explicitly reduced modal system (d = phi q)")
    # options that do not change the mathematical problem: mass given as a vector / as the diagonal matrix / (uniform) as None, with and without pre_eig (zero initial
    # conditions: the pre_eig initial-condition defect D6 is a recorded finding of its own); element type of the arrays (integer-typed m, b, k == their float copies)
    Kc = np.array([[70.0, -30.0, 0.0, 0.0], [-30.0, 65.0, -25.0, 0.0], [0.0, -25.0, 55.0, -20.0], [0.0, 0.0, -20.0, 20.0]])
    hc, ntc = 0.004, 250
    tc = np.arange(ntc) * hc
    Fc = np.vstack([np.interp(tc, np.linspace(0, tc[-1], 30), rng.randn(30)) for _ in range(4)])
    for mvec in (np.array([1.0, 2.5, 0.6, 4.0]), np.ones(4)):
        Mc = np.diag(mvec)
        Bc = 0.3 * Mc + 0.002 * Kc
        for order in (1, 0):
            dr, vr = reference(Mc, Bc, Kc, hc, Fc, np.zeros(4), np.zeros(4), order)
            forms = [("vector", mvec), ("matrix", Mc)] + ([("None", None)] if np.all(mvec == 1.0) else [])
            for cls in which:
                for mname, marg in forms:
                    for pe in (True, False):
                        try:
                            sol = getattr(ode, cls)(marg, Bc, Kc, hc, order=order, pre_eig=pe).tsolve(Fc)
                        except (ValueError, TypeError, NotImplementedError):
                            continue
                        res["evaluations"] += 1
                        e_ = abs(sol.d - dr).max() / abs(dr).max()
                        ev_ = abs(sol.v - vr).max() / abs(vr).max()
                        r_ = abs(Mc @ sol.a + Bc @ sol.v + Kc @ sol.d - Fc).max() / abs(Fc).max()
                        res["cases"].append(dict(system="4-DOF chain, mass as %s, pre_eig=%s" % (mname, pe), solver=cls, order=order, max_rel_err=float(max(e_, ev_)), eom_residual=float(r_)))
                        if (e_ > 1e-7 or ev_ > 1e-7 or r_ > 1e-7) and res["failure"] is None:
                            res["failure"] = dict(system="4-DOF chain K, diagonal mass %s given as %s, Rayleigh damping, pre_eig=%s, zero initial conditions" % (mvec.tolist(), mname, pe), solver=cls,
                                                  order=order, h=hc, rel_err_d=float(e_), rel_err_v=float(ev_), eom_residual=float(r_), m=mvec.tolist(), k=Kc.tolist(),
                                                  what="solution differs from the exact first-order-hold solution (expm reference) / violates the equation of motion")
    mi, bi_, ki = np.array([2, 3, 1, 4]), np.array([0, 1, 30, 2]), np.array([0, 18, 48, 4000])
    Fi = Fc.copy()
    for cls in which:
        for order in (1, 0):
            for rfm in (None, [3]):
                for what_, (ma, ba, ka) in (("m, b, k", (mi, bi_, ki)), ("m", (mi, bi_.astype(float), ki.astype(float))), ("k", (mi.astype(float), bi_.astype(float), ki)),
                                             ("2-D diagonal m", (np.diag(mi), bi_.astype(float), ki.astype(float)))):
                    try:
                        si = getattr(ode, cls)(ma, ba, ka, hc, order=order, rf=rfm).tsolve(Fi)
                        sf = getattr(ode, cls)(np.asarray(ma, float), np.asarray(ba, float), np.asarray(ka, float), hc, order=order, rf=rfm).tsolve(Fi)
                    except (ValueError, TypeError, NotImplementedError):
                        continue
                    res["evaluations"] += 1
                    e_ = max(abs(getattr(si, q_) - getattr(sf, q_)).max() / max(abs(getattr(sf, q_)).max(), 1e-12) for q_ in "dva")
                    res["cases"].append(dict(system="diagonal system, integer-typed %s, rf=%s" % (what_, rfm), solver=cls, order=order, max_rel_err=float(e_)))
                    if e_ > 1e-9 and res["failure"] is None:
                        res["failure"] = dict(system="diagonal 4-mode system (rigid-body, under-, overdamped, stiff), rf=%s" % rfm, solver=cls, order=order, h=hc, rel_err=float(e_),
                                              m=np.asarray(ma).tolist(), b=np.asarray(ba).tolist(), k=np.asarray(ka).tolist(),
                                              what="integer-typed %s gives a different answer than the same numbers as floats" % what_)
    return res


if __name__ == "__main__":
    r = run(sys.argv[1], int(sys.argv[2]))
    print("RESULT " + json.dumps(r))
