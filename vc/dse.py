"""Dynamic symbolic execution of REAL function objects over z3 values with complete path exploration.

The function under contract is called for real (imported from the working tree); its array arguments are ordinary
NumPy object arrays whose elements are `Z` values (a z3 Real plus a z3 Bool "is NaN"), so NumPy's own indexing, masks,
broadcasting and `nonzero` run unmodified.  Every comparison between symbolic values asks the explorer for a truth
value: the explorer keeps a decision schedule, checks with z3 which outcomes are feasible under the path condition,
and re-runs the function until every feasible decision sequence has been executed (all paths, for the given array
shapes; the VALUES stay fully symbolic, so each path is verified for all reals and NaN).  On every path the contract's
postconditions become obligations   path-condition  =>  post   discharged by z3.

Floating-point model: mathematical reals plus NaN (NaN compares false with everything, propagates through
arithmetic and abs).  Infinities and rounding are not modelled.
"""
import itertools, time
import numpy as _np
import z3

_EX = None


class Infeasible(Exception):
    pass


class Z:
    """symbolic float: (val: z3 Real, nan: z3 Bool)"""
    __slots__ = ("val", "nan")

    def __init__(self, val, nan=None):
        self.val = val if z3.is_expr(val) else z3.RealVal(val)
        self.nan = nan if nan is not None else z3.BoolVal(False)

    @staticmethod
    def lift(o):
        if isinstance(o, _np.ndarray) and o.ndim == 0:
            o = o.item()
        if isinstance(o, Z):
            return o
        if isinstance(o, (bool, _np.bool_)):
            return Z(z3.RealVal(int(o)))
        if isinstance(o, (int, _np.integer)):
            return Z(z3.RealVal(int(o)))
        if isinstance(o, (float, _np.floating)):
            if o != o:
                return Z(z3.RealVal(0), z3.BoolVal(True))
            from fractions import Fraction
            return Z(z3.RealVal(str(Fraction(float(o)))))
        return None

    def _bin(self, o, f, rev=False):
        if isinstance(o, _np.ndarray):
            return NotImplemented
        b = Z.lift(o)
        if b is None:
            return NotImplemented
        x, y = (b, self) if rev else (self, b)
        return Z(f(x.val, y.val), z3.Or(x.nan, y.nan))

    def __add__(self, o): return self._bin(o, lambda a, b: a + b)
    def __radd__(self, o): return self._bin(o, lambda a, b: a + b, True)
    def __sub__(self, o): return self._bin(o, lambda a, b: a - b)
    def __rsub__(self, o): return self._bin(o, lambda a, b: a - b, True)
    def __mul__(self, o): return self._bin(o, lambda a, b: a * b)
    def __rmul__(self, o): return self._bin(o, lambda a, b: a * b, True)
    def __truediv__(self, o): return self._bin(o, lambda a, b: a / b)
    def __rtruediv__(self, o): return self._bin(o, lambda a, b: a / b, True)
    def __neg__(self): return Z(-self.val, self.nan)
    def __pos__(self): return self
    def __abs__(self): return Z(z3.If(self.val >= 0, self.val, -self.val), self.nan)

    def _cmp(self, o, f):
        b = Z.lift(o)
        if b is None:
            return NotImplemented
        return _EX.decide(z3.And(z3.Not(self.nan), z3.Not(b.nan), f(self.val, b.val)))

    def __lt__(self, o): return self._cmp(o, lambda a, b: a < b)
    def __le__(self, o): return self._cmp(o, lambda a, b: a <= b)
    def __gt__(self, o): return self._cmp(o, lambda a, b: a > b)
    def __ge__(self, o): return self._cmp(o, lambda a, b: a >= b)
    def __eq__(self, o): return self._cmp(o, lambda a, b: a == b)

    def __ne__(self, o):
        r = self.__eq__(o)
        return r if r is NotImplemented else not r

    def __hash__(self):
        return hash((self.val.get_id(), self.nan.get_id()))

    def isnan(self):
        return _EX.decide(self.nan)

    def __bool__(self):
        return _EX.decide(z3.Or(self.nan, self.val != 0))

    def __float__(self):
        raise TypeError("symbolic value forced to a machine float")

    def __repr__(self):
        return "Z(%s, nan=%s)" % (self.val, self.nan)

    def copy(self):
        return self


def same(a, b):
    """IEEE-agnostic identity of two symbolic floats: both NaN, or both numbers with equal value"""
    a, b = Z.lift(a), Z.lift(b)
    return z3.Or(z3.And(a.nan, b.nan), z3.And(z3.Not(a.nan), z3.Not(b.nan), a.val == b.val))


def zarray(names, shape=None, nan=True):
    """object array of fresh symbolic floats named names[i]"""
    els = []
    for n in names:
        els.append(Z(z3.Real(n), z3.Bool(n + "_isnan") if nan else z3.BoolVal(False)))
    a = _np.empty(len(els), dtype=object)
    for i, e in enumerate(els):
        a[i] = e
    return a.reshape(shape) if shape else a


class NumpyProxyZ:
    def __getattr__(self, name):
        return getattr(_np, name)

    def isnan(self, x):
        if isinstance(x, Z):
            return x.isnan()
        if isinstance(x, _np.ndarray) and x.dtype == object:
            out = _np.empty(x.shape, dtype=bool)
            fo, fx = out.reshape(-1), x.reshape(-1)
            for i in range(fx.size):
                e = fx[i]
                fo[i] = e.isnan() if isinstance(e, Z) else (e != e)
            return out
        return _np.isnan(x)

    def _nanarg(self, a, axis, greater):
        a = _np.asarray(a)
        if a.dtype != object:
            return (_np.nanargmax if greater else _np.nanargmin)(a, axis=axis)
        if a.ndim != 2 or axis != 1:
            raise TypeError("nanarg shim: only 2-D, axis=1")
        out = _np.empty(a.shape[0], dtype=int)
        for r in range(a.shape[0]):
            best = None
            for c in range(a.shape[1]):
                e = Z.lift(a[r, c])
                if e.isnan():
                    continue
                if best is None or ((e > Z.lift(a[r, best])) if greater else (e < Z.lift(a[r, best]))):
                    best = c
            if best is None:
                raise ValueError("All-NaN slice encountered")
            out[r] = best
        return out

    def nanargmax(self, a, axis=None):
        """assumed contract of np.nanargmax: first index of the maximum ignoring NaN; ValueError on an all-NaN row"""
        return self._nanarg(a, axis, True)

    def nanargmin(self, a, axis=None):
        return self._nanarg(a, axis, False)


class Explorer:
    def __init__(self, max_paths=5000, timeout_ms=20000):
        self.max_paths, self.timeout_ms = max_paths, timeout_ms
        self.solver_calls = 0

    def decide(self, f):
        f = z3.simplify(f)
        if z3.is_true(f):
            return True
        if z3.is_false(f):
            return False
        if self.pos < len(self.schedule):
            t = self.schedule[self.pos]
        else:
            can_t = self._sat(f)
            can_f = self._sat(z3.Not(f))
            if can_t and can_f:
                t = True
                self.work.append(self.schedule[:self.pos] + [False])
            elif can_t:
                t = True
            elif can_f:
                t = False
            else:
                raise Infeasible()
            self.schedule.append(t)
        self.pos += 1
        self.pc.append(f if t else z3.Not(f))
        return t

    def _sat(self, f):
        s = z3.Solver()
        s.set("timeout", self.timeout_ms)
        s.add(*self.pc)
        s.add(f)
        self.solver_calls += 1
        r = s.check()
        return r != z3.unsat

    def explore(self, body, assumptions=()):
        """body() -> value (runs the real code with symbolic inputs; must build the same inputs every time).
        yields (path_condition list, value or exception)"""
        global _EX
        self.work = [[]]
        npaths = 0
        while self.work:
            self.schedule = list(self.work.pop())
            self.pos = 0
            self.pc = list(assumptions)
            prev, _EX = _EX, self
            try:
                try:
                    val = body()
                    exc = None
                except Infeasible:
                    continue
                except Exception as ex:
                    val, exc = None, ex
            finally:
                _EX = prev
            npaths += 1
            if npaths > self.max_paths:
                raise RuntimeError("path budget exceeded")
            yield list(self.pc), val, exc


def check(pc, goal, timeout_ms=30000):
    """pc => goal ?   -> ('proved'|'failed'|'undecided', model-or-reason)"""
    s = z3.Solver()
    s.set("timeout", timeout_ms)
    s.add(*pc)
    s.add(z3.Not(goal))
    r = s.check()
    if r == z3.unsat:
        return "proved", None
    if r == z3.sat:
        m = s.model()
        return "failed", {d.name(): str(m[d]) for d in m.decls()}
    return "undecided", s.reason_unknown()


class ShimZ:
    """install NumpyProxyZ as `np` in a module for the duration of a symbolic call"""

    def __init__(self, *mods):
        self.mods, self.saved = mods, []

    def __enter__(self):
        for m in self.mods:
            for k, v in list(m.__dict__.items()):
                if v is _np:
                    self.saved.append((m, k, v))
                    m.__dict__[k] = NumpyProxyZ()
        return self

    def __exit__(self, *a):
        for m, k, v in self.saved:
            m.__dict__[k] = v


# ------------------------------------------------------------------------------------------------------------------
TOKENS = []          # symbolic values that were formatted into text: token k stands for TOKENS[k]


def token(k, width):
    body = str(k)
    if width and width >= len(body) + 2:
        return "\u00a7" + body.rjust(width - 2, "0") + "\u00a7"
    return "\u00a7" + body + "\u00a7"


class I(int):
    """symbolic integer (z3 Int).  Subclasses int so that isinstance(x, int) checks in the code under test succeed.
    Indexable through bounded enumeration (`__index__` decides value by value); formatting into text yields a token
    (a placeholder of the requested width) that the contract's own parser maps back to the symbolic value."""

    def __new__(cls, v, lo=None, hi=None):
        o = int.__new__(cls, 0)
        o.v = v if z3.is_expr(v) else z3.IntVal(int(v))
        o.lo, o.hi = lo, hi
        return o

    def __init__(self, v, lo=None, hi=None):
        pass

    def __format__(self, spec):
        s = z3.simplify(self.v)
        if z3.is_int_value(s):
            return format(s.as_long(), spec)
        width = 0
        digits = "".join(ch for ch in spec if ch.isdigit())
        if digits:
            width = int(digits)
        TOKENS.append(self)
        return token(len(TOKENS) - 1, width)

    def __str__(self):
        return self.__format__("d")

    @staticmethod
    def lift(o):
        if isinstance(o, _np.ndarray) and o.ndim == 0:
            o = o.item()
        if isinstance(o, I):
            return o
        if isinstance(o, (bool, _np.bool_, int, _np.integer)):
            return I(z3.IntVal(int(o)))
        return None

    def _bin(self, o, f, rev=False):
        if isinstance(o, _np.ndarray):
            return NotImplemented
        b = I.lift(o)
        if b is None:
            return NotImplemented
        x, y = (b, self) if rev else (self, b)
        return I(f(x.v, y.v))

    def __add__(self, o): return self._bin(o, lambda a, b: a + b)
    def __radd__(self, o): return self._bin(o, lambda a, b: a + b, True)
    def __sub__(self, o): return self._bin(o, lambda a, b: a - b)
    def __rsub__(self, o): return self._bin(o, lambda a, b: a - b, True)
    def __mul__(self, o): return self._bin(o, lambda a, b: a * b)
    def __rmul__(self, o): return self._bin(o, lambda a, b: a * b, True)
    def __neg__(self): return I(-self.v)
    def __abs__(self): return I(z3.If(self.v >= 0, self.v, -self.v))

    def _cmp(self, o, f):
        b = I.lift(o)
        if b is None:
            return NotImplemented
        return _EX.decide(f(self.v, b.v))

    def __lt__(self, o): return self._cmp(o, lambda a, b: a < b)
    def __le__(self, o): return self._cmp(o, lambda a, b: a <= b)
    def __gt__(self, o): return self._cmp(o, lambda a, b: a > b)
    def __ge__(self, o): return self._cmp(o, lambda a, b: a >= b)
    def __eq__(self, o): return self._cmp(o, lambda a, b: a == b)

    def __ne__(self, o):
        r = self.__eq__(o)
        return r if r is NotImplemented else not r

    def __hash__(self):
        return hash(self.v.get_id())

    def __bool__(self):
        return _EX.decide(self.v != 0)

    def __index__(self):
        s = z3.simplify(self.v)
        if z3.is_int_value(s):
            return s.as_long()
        lo = self.lo if self.lo is not None else -8
        hi = self.hi if self.hi is not None else 64
        for c in range(lo, hi + 1):
            if _EX.decide(self.v == c):
                return c
        raise Infeasible()

    __int__ = __index__

    def __repr__(self):
        return "I(%s)" % self.v


class B:
    """symbolic machine word (z3 BitVec) for the USET bit masks"""
    __slots__ = ("v",)
    W = 32

    def __init__(self, v):
        self.v = v if z3.is_expr(v) else z3.BitVecVal(int(v), B.W)

    @staticmethod
    def lift(o):
        if isinstance(o, B):
            return o
        if isinstance(o, (int, _np.integer)):
            return B(z3.BitVecVal(int(o), B.W))
        return None

    def _bin(self, o, f):
        if isinstance(o, _np.ndarray):
            return NotImplemented
        b = B.lift(o)
        return NotImplemented if b is None else B(f(self.v, b.v))

    def __and__(self, o): return self._bin(o, lambda a, b: a & b)
    __rand__ = __and__
    def __or__(self, o): return self._bin(o, lambda a, b: a | b)
    __ror__ = __or__

    def __eq__(self, o):
        b = B.lift(o)
        return NotImplemented if b is None else _EX.decide(self.v == b.v)

    def __ne__(self, o):
        b = B.lift(o)
        return NotImplemented if b is None else _EX.decide(self.v != b.v)

    def __hash__(self):
        return hash(self.v.get_id())

    def __bool__(self):
        return _EX.decide(self.v != 0)


class ZArr(_np.ndarray):
    """object-array subclass: astype(<numeric>) keeps the symbolic elements"""

    def astype(self, dtype, *a, **k):
        if self.dtype == object:
            return self.copy()
        return _np.ndarray.astype(self, dtype, *a, **k)


def objarray(elems, shape=None):
    a = _np.empty(len(elems), dtype=object)
    for i, e in enumerate(elems):
        a[i] = e
    if shape:
        a = a.reshape(shape)
    return a.view(ZArr)


def genuine_exception(exc):
    """True iff the exception was raised by an explicit `raise` statement of the code under test (innermost frame inside a
    pyyeti source file, on a `raise` line).  Anything else (TypeError from NumPy on object arrays, ...) is a limitation of the
    symbolic shim and must be reported as undecided, never as a violation."""
    import traceback, linecache
    tb = traceback.extract_tb(exc.__traceback__)
    if not tb:
        return False
    last = tb[-1]
    if "/pyyeti/" not in last.filename or "/verif/" in last.filename:
        return False
    line = (last.line or linecache.getline(last.filename, last.lineno)).strip()
    return line.startswith("raise")
