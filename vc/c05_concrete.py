"""Concrete side of C05: runs the REAL implementations (py_rain from the working tree, c_rain.c compiled
from the working tree into a scratch directory) against an independent reference of the ASTM E1049 procedure.
Used (a) to replay counter-models / search for a failing input when an obligation fails or is undecided and
(b) as the labelled *bounded* stand-in for the clauses not proved (largest range, negate/shift/scale).
Runs as a subprocess of the check (a mutated C file may crash):   python -m vc.c05_concrete <repo> <mode> <seed>
"""
import sys, os, json, itertools, random, importlib.util, importlib.machinery, subprocess, tempfile, shutil


def astm_reference(peaks):
    """ASTM E1049-85 5.4.4 on a list of (value, position) pairs; independent of the code under test."""
    pts, out = [], []
    def emit(p, q, count):
        out.append((abs(p[0] - q[0]) / 2, (p[0] + q[0]) / 2, count, p[1], q[1]))
    for pos, v in enumerate(peaks):
        pts.append((v, pos))                                   # rule 1
        while len(pts) >= 3:                                   # rule 2
            x = abs(pts[-2][0] - pts[-1][0])
            y = abs(pts[-3][0] - pts[-2][0])
            if x < y:                                          # rule 3
                break
            if len(pts) == 3:                                  # Y contains the starting point: rule 5
                emit(pts[0], pts[1], 0.5)
                pts.pop(0)
            else:                                              # rule 4
                emit(pts[-3], pts[-2], 1.0)
                last = pts.pop()
                pts.pop(); pts.pop()
                pts.append(last)
    for a, b in zip(pts, pts[1:]):                             # rule 6
        emit(a, b, 0.5)
    return out


def load_py(repo):
    path = os.path.join(repo, "pyyeti/rainflow/py_rain.py")
    spec = importlib.util.spec_from_file_location("py_rain_under_test", path)
    m = importlib.util.module_from_spec(spec)
    spec.loader.exec_module(m)
    return m


def build_c(repo, scratch):
    import sysconfig, numpy
    src = os.path.join(repo, "pyyeti/rainflow/c_rain.c")
    so = os.path.join(scratch, "c_rain" + sysconfig.get_config_var("EXT_SUFFIX"))
    cmd = ["gcc", "-shared", "-fPIC", "-O1", "-I" + sysconfig.get_paths()["include"], "-I" + numpy.get_include(), src, "-o", so]
    p = subprocess.run(cmd, capture_output=True, text=True)
    if p.returncode != 0:
        raise RuntimeError("C build failed: " + p.stderr[-500:])
    loader = importlib.machinery.ExtensionFileLoader("c_rain", so)
    spec = importlib.util.spec_from_loader("c_rain", loader)
    m = importlib.util.module_from_spec(spec)
    loader.exec_module(m)
    return m


def check_one(peaks, impls, storage=False):
    """returns None or a dict describing the first discrepancy"""
    import numpy as np
    ref = astm_reference(list(peaks))
    rrf = np.array([r[:3] for r in ref], float).reshape(-1, 3)
    ros = np.array([r[3:] for r in ref], np.int64).reshape(-1, 2)
    for name, fn in impls:
        try:
            rf, os_ = fn(np.array(peaks, float), True)
            rf1 = fn(np.array(peaks, float), False)
        except Exception as ex:
            return dict(impl=name, peaks=list(peaks), what="exception %r" % (ex,))
        rf, os_, rf1 = np.asarray(rf), np.asarray(os_), np.asarray(rf1)
        if rf.shape != rrf.shape or not np.array_equal(rf, rrf):
            return dict(impl=name + "(getoffsets=True)", peaks=list(peaks), what="cycle table differs from ASTM reference",
                        got=rf.tolist(), want=rrf.tolist())
        if os_.shape != ros.shape or not np.array_equal(os_, ros):
            return dict(impl=name + "(getoffsets=True)", peaks=list(peaks), what="offsets differ from ASTM reference",
                        got=os_.tolist(), want=ros.tolist())
        if rf1.shape != rrf.shape or not np.array_equal(rf1, rrf):
            return dict(impl=name + "(getoffsets=False)", peaks=list(peaks), what="cycle table differs from ASTM reference",
                        got=rf1.tolist(), want=rrf.tolist())
        # identities of the property, on the implementation's own output
        if 2 * rf[:, 2].sum() != len(peaks) - 1:
            return dict(impl=name, peaks=list(peaks), what="2*sum(count) != reversals-1", got=float(2 * rf[:, 2].sum()))
        p = np.array(peaks, float)
        if not (np.array_equal(rf[:, 0], abs(p[os_[:, 0]] - p[os_[:, 1]]) / 2) and np.array_equal(rf[:, 1], (p[os_[:, 0]] + p[os_[:, 1]]) / 2)):
            return dict(impl=name, peaks=list(peaks), what="amplitude/mean are not those of the named reversal points")
        alt = all((p[i + 1] - p[i]) * (p[i + 2] - p[i + 1]) < 0 for i in range(len(p) - 2)) and all(p[i + 1] != p[i] for i in range(len(p) - 1))
        if alt and rf[:, 0].max() != (p.max() - p.min()) / 2:
            return dict(impl=name, peaks=list(peaks), what="largest range not counted", got=float(rf[:, 0].max()))
        # negate / shift / positive scale (integers and powers of two: exact in floating point)
        dyadic = all(float(x_ * 64).is_integer() for x_ in peaks)          # a shift is exact only for such inputs; negation and powers of two always are
        for a, b in ((-1.0, 0.0), (1.0, 3.0), (2.0, 0.0), (-4.0, 1.0)):
            if b and not dyadic:
                continue
            r2, o2 = fn(a * p + b, True)
            r2, o2 = np.asarray(r2), np.asarray(o2)
            if not (np.array_equal(o2, os_) and np.array_equal(r2[:, 0], abs(a) * rf[:, 0]) and np.array_equal(r2[:, 1], a * rf[:, 1] + b)
                    and np.array_equal(r2[:, 2], rf[:, 2])):
                return dict(impl=name, peaks=list(peaks), what="table of %g*x+%g is not the transformed table" % (a, b))
        # the same sequence in other storage: integer / unsigned / narrow float element types (when the values are exactly representable), Python list, and
        # non-contiguous views (every second element of a longer array, a reversed view, a column of a C-ordered and a row of a Fortran-ordered 2-D array)
        if storage:
            variants = [("list", list(float(x) for x in peaks))]
            isint = all(float(x).is_integer() for x in peaks)
            lo, hi = min(peaks), max(peaks)
            if isint:
                for dt, a_, b_ in (("int64", -2 ** 62, 2 ** 62), ("int32", -2 ** 31, 2 ** 31 - 1), ("int16", -2 ** 15, 2 ** 15 - 1), ("int8", -128, 127)):
                    if a_ <= lo and hi <= b_:
                        variants.append((dt, np.array(peaks, float).astype(dt)))
                sh = -int(lo) if lo < 0 else 0
                for dt, top in (("uint8", 255), ("uint16", 65535), ("uint64", 2 ** 63)):
                    if hi + sh <= top:
                        variants.append((dt + " (shifted by %d)" % sh, (np.array(peaks, float) + sh).astype(dt)))
                        break
            if all(float(np.float32(x)) == float(x) for x in peaks):
                variants.append(("float32", np.array(peaks, np.float32)))
            big = np.zeros(2 * len(peaks)); big[::2] = peaks
            variants.append(("strided view x[::2]", big[::2]))
            variants.append(("reversed view x[::-1]", np.array(peaks[::-1], float)[::-1]))
            m2 = np.zeros((len(peaks), 3)); m2[:, 1] = peaks
            variants.append(("column of a C-ordered matrix", m2[:, 1]))
            m3 = np.zeros((3, len(peaks)), order="F"); m3[1, :] = peaks
            variants.append(("row of a Fortran-ordered matrix", m3[1, :]))
            for vname, arr in variants:
                shift = 0.0
                if "shifted by" in vname:
                    shift = float(vname.split("shifted by ")[1].rstrip(")"))
                for go in (True, False):
                    try:
                        out = fn(arr, go)
                    except Exception as ex:
                        return dict(impl=name, peaks=list(peaks), storage=vname, what="exception %r for input stored as %s" % (ex, vname))
                    r3 = np.asarray(out[0] if go else out)
                    want3 = rrf.copy(); want3[:, 1] += shift
                    if r3.shape != want3.shape or not np.array_equal(r3, want3) or (go and not np.array_equal(np.asarray(out[1]), ros)):
                        return dict(impl=name + "(getoffsets=%s)" % go, peaks=list(peaks), storage=vname,
                                    what="the same sequence stored as %s gives a different table / offsets than the ASTM reference" % vname, got=r3.tolist(), want=want3.tolist())
    return None


def inputs(mode, seed):
    rnd = random.Random(seed)
    maxlen = {"quick": 6, "thorough": 8, "replay": 7}[mode]
    for n in range(2, maxlen + 1):
        for t in itertools.product(range(4), repeat=n):
            yield t
    nrand = {"quick": 1500, "thorough": 20000, "replay": 3000}[mode]
    for _ in range(nrand):
        n = rnd.randint(2, 40)
        kind = rnd.random()
        if kind < 0.4:
            yield tuple(rnd.randint(-6, 6) for _ in range(n))
        elif kind < 0.7:    # alternating
            v, s, out = 0, 1, []
            for _ in range(n):
                v = v + s * rnd.randint(1, 9); s = -s; out.append(v)
            yield tuple(out)
        else:
            yield tuple(rnd.randint(-1000, 1000) / 8 for _ in range(n))
    # near ties: adjacent ranges that differ by a relative 1e-9 .. 1e-12 (far below single precision, far above double): the comparison X < Y must be made in double
    for _ in range(nrand // 5):
        n = rnd.randint(4, 14)
        v, s, out = 0.0, 1, [0.0]
        rng_prev = None
        for _k in range(n):
            if rng_prev is not None and rnd.random() < 0.6:
                step = rng_prev * (1 + rnd.choice((-1, 1)) * 10.0 ** (-rnd.randint(9, 12)))
            else:
                step = rnd.randint(1, 9) + rnd.random()
            v = v + s * step; s = -s; out.append(v); rng_prev = step
        yield tuple(out)


def main():
    repo, mode, seed = sys.argv[1], sys.argv[2], int(sys.argv[3])
    extra = json.loads(sys.argv[4]) if len(sys.argv) > 4 else []
    scratch = tempfile.mkdtemp(prefix="verif_c05_")
    res = dict(evaluations=0, distinct=0, failure=None, impls=[], build_error=None)
    try:
        impls = []
        try:
            pm = load_py(repo)
            impls.append(("py_rain.rainflow", pm.rainflow))
        except Exception as ex:
            res["build_error"] = "py_rain import: %r" % (ex,)
        try:
            cm = build_c(repo, scratch)
            impls.append(("c_rain.rainflow", cm.rainflow))
        except Exception as ex:
            res["build_error"] = (res["build_error"] or "") + " c_rain build: %r" % (ex,)
        res["impls"] = [n for n, _ in impls]
        seen = set()
        for p in itertools.chain([tuple(x) for x in extra], inputs(mode, seed)):
            res["evaluations"] += 1
            if p in seen:
                continue
            seen.add(p)
            f = check_one(p, impls, storage=(len(seen) % 7 == 0))
            if f:
                res["failure"] = f
                break
        res["distinct"] = len(seen)
        # long records (the implementations may switch strategy with the length): table without offsets == table with offsets == the other implementation,
        # every point is used exactly once (2 * sum(count) == L - 1), amplitude / mean are those of the points the offsets name
        if res["failure"] is None:
            import numpy as np
            rs = np.random.RandomState(seed + 5)
            for L in {"quick": (70001, 1000003), "thorough": (70001, 1000003, 1048577, 4200001), "replay": (70001, 1000003, 1048577)}[mode]:
                steps = rs.randint(1, 1000, size=L) / 8.0
                x = np.cumsum(steps * np.where(np.arange(L) % 2, -1.0, 1.0))
                tabs = {}
                for name, fn in impls:
                    if name.startswith("py_") and L > 100000:
                        continue                      # pure Python: too slow for the long records; covered through the short ones and the proof
                    res["evaluations"] += 1
                    rf0 = np.asarray(fn(x, False))
                    rf1, os1 = fn(x, True)
                    rf1, os1 = np.asarray(rf1), np.asarray(os1)
                    prob = None
                    if rf0.shape != rf1.shape or not np.array_equal(rf0, rf1):
                        prob = "table without offsets (%d rows) differs from the table with offsets (%d rows)" % (rf0.shape[0], rf1.shape[0])
                    elif abs(2 * rf0[:, 2].sum() - (L - 1)) > 1e-6:
                        prob = "2 * sum(count) = %g, not L - 1 = %d" % (2 * rf0[:, 2].sum(), L - 1)
                    else:
                        a_, b_ = x[os1[:, 0].astype(int)], x[os1[:, 1].astype(int)]
                        if not (np.allclose(abs(a_ - b_) / 2, rf1[:, 0]) and np.allclose((a_ + b_) / 2, rf1[:, 1])):
                            prob = "amplitude / mean are not those of the points the offsets name"
                    if prob:
                        res["failure"] = dict(what="long record (L = %d, alternating random walk, seed %d): %s: %s" % (L, seed + 5, name, prob), impl=name, L=L)
                        break
                    tabs[name] = rf0
                if res["failure"] is None and len(tabs) == 2:
                    t1, t2 = list(tabs.values())
                    if t1.shape != t2.shape or not np.allclose(t1, t2):
                        res["failure"] = dict(what="long record (L = %d): the two implementations give different tables" % L, L=L)
                if res["failure"]:
                    break
    finally:
        shutil.rmtree(scratch, ignore_errors=True)
    print("RESULT " + json.dumps(res))


if __name__ == "__main__":
    main()
