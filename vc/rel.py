"""Relational back end: two code fragments (taken from the real source by AST) are executed over OPAQUE TERMS.

Every library call, method call, arithmetic operation and comparison is an uninterpreted function of its argument
terms, so two fragments that produce structurally equal terms compute the same floating-point values bit for bit, for
any (deterministic) semantics of the operations.  Shared arrays are maps  index-key -> term  with read-own-write.
A few rewrite axioms model the shared-memory helpers (they are the assumed contracts, listed in evidence):
    frombuffer(copyToSharedArray(x)).reshape(x.shape)  ==  x          (exact copy of the input)
    frombuffer(createSharedArray(dims)).reshape(dims)  ==  zeros(dims) (zero-initialised shared memory)
The interpreter handles straight-line code, `if` on concretely known conditions, `for ... in range(<concrete>)`,
tuple (un)packing, subscripts, attribute calls.  Anything else raises Unsupported (-> undecided, never a violation).
"""
import ast


class Unsupported(Exception):
    pass


def T(op, *args):
    return (op,) + tuple(args)


class ArrayModel:
    """shared / local array: stores  key -> term ; unread-before-write entries are  ('init', name, key)"""

    def __init__(self, name, init=None):
        self.name, self.store, self.init = name, {}, init or (lambda key: T("init", name, key))
        self.writes, self.reads = [], []

    def get(self, key):
        self.reads.append(key)
        return self.store[key] if key in self.store else self.init(key)

    def set(self, key, val):
        self.writes.append(key)
        self.store[key] = val


class Interp:
    def __init__(self, env, arrays, concrete=None):
        self.env = dict(env)                 # name -> term or python constant
        self.arrays = arrays                 # name -> ArrayModel
        self.concrete = concrete or {}

    def key(self, node):
        """index expression -> hashable key of terms"""
        if isinstance(node, ast.Tuple):
            return tuple(self.key(e) for e in node.elts)
        if isinstance(node, ast.Slice):
            return ("slice", self.ev(node.lower) if node.lower else None, self.ev(node.upper) if node.upper else None,
                    self.ev(node.step) if node.step else None)
        return self.ev(node)

    def ev(self, n):
        if isinstance(n, ast.Constant):
            return n.value
        if isinstance(n, ast.Name):
            if n.id in self.arrays:
                return T("array", n.id)
            if n.id in self.env:
                return self.env[n.id]
            return T("global", n.id)
        if isinstance(n, ast.Tuple):
            return tuple(self.ev(e) for e in n.elts)
        if isinstance(n, ast.BinOp):
            a, b = self.ev(n.left), self.ev(n.right)
            if isinstance(a, (int, float)) and isinstance(b, (int, float)) and not isinstance(n.op, ast.Div):
                return {ast.Add: a + b, ast.Sub: a - b, ast.Mult: a * b}.get(type(n.op), T(type(n.op).__name__, a, b))
            return T(type(n.op).__name__, a, b)
        if isinstance(n, ast.UnaryOp):
            return T(type(n.op).__name__, self.ev(n.operand))
        if isinstance(n, ast.Compare):
            if len(n.ops) != 1:
                raise Unsupported("chained compare")
            a, b = self.ev(n.left), self.ev(n.comparators[0])
            if isinstance(n.ops[0], (ast.Is, ast.IsNot)) and b is None and isinstance(a, tuple):
                return isinstance(n.ops[0], ast.IsNot)        # a term denotes an object, never None
            if isinstance(a, (str, int, float, type(None))) and isinstance(b, (str, int, float, type(None))) and not (isinstance(a, tuple) or isinstance(b, tuple)):
                return {ast.Eq: a == b, ast.NotEq: a != b, ast.Is: a is b, ast.IsNot: a is not b}.get(type(n.ops[0]), T(type(n.ops[0]).__name__, a, b))
            return T(type(n.ops[0]).__name__, a, b)
        if isinstance(n, ast.BoolOp):
            vals = [self.ev(v) for v in n.values]
            if all(isinstance(v, bool) for v in vals):
                return all(vals) if isinstance(n.op, ast.And) else any(vals)
            return T(type(n.op).__name__, *vals)
        if isinstance(n, ast.IfExp):
            c = self.ev(n.test)
            if isinstance(c, bool):
                return self.ev(n.body if c else n.orelse)
            return T("IfExp", c, self.ev(n.body), self.ev(n.orelse))
        if isinstance(n, ast.Subscript):
            if isinstance(n.value, ast.Name) and n.value.id in self.arrays:
                return self.arrays[n.value.id].get(self.key(n.slice))
            base = self.ev(n.value)
            k = self.key(n.slice)
            if isinstance(base, tuple) and base and base[0] not in OPS and isinstance(k, int):
                return base[k]
            return T("getitem", base, k)
        if isinstance(n, ast.Attribute):
            return T("attr", self.ev(n.value), n.attr)
        if isinstance(n, ast.Call):
            f = n.func
            args = tuple(self.ev(a) for a in n.args) + tuple(("kw", k.arg, self.ev(k.value)) for k in n.keywords)
            if isinstance(f, ast.Attribute):
                return simplify(T("call", T("attr", self.ev(f.value), f.attr)) + args)
            return simplify(T("call", self.ev(f)) + args)
        if isinstance(n, ast.JoinedStr):
            return T("fstring")
        raise Unsupported("expression %s" % type(n).__name__)

    def assign(self, target, val):
        if isinstance(target, ast.Name):
            if target.id in self.arrays:
                raise Unsupported("rebinding of shared array %s" % target.id)
            self.env[target.id] = val
        elif isinstance(target, (ast.Tuple, ast.List)):
            if not isinstance(val, tuple) or (val and val[0] in OPS) or len(val) != len(target.elts):
                # opaque tuple: unpack as getitem terms
                for i, t in enumerate(target.elts):
                    self.assign(t, T("getitem", val, i))
                return
            for t, v in zip(target.elts, val):
                self.assign(t, v)
        elif isinstance(target, ast.Subscript):
            if isinstance(target.value, ast.Name) and target.value.id in self.arrays:
                self.arrays[target.value.id].set(self.key(target.slice), val)
            elif isinstance(target.value, ast.Subscript) and isinstance(target.value.value, ast.Name):
                # resp["hist"][:, :, j] = ...   -> array named  resp["hist"]
                nm = ast.unparse(target.value)
                if nm in self.arrays:
                    self.arrays[nm].set(self.key(target.slice), val)
                else:
                    raise Unsupported("store into %s" % nm)
            else:
                raise Unsupported("store target %s" % ast.unparse(target))
        else:
            raise Unsupported("target %s" % type(target).__name__)

    def run(self, stmts):
        for s in stmts:
            if isinstance(s, ast.Expr):
                if isinstance(s.value, ast.Constant):
                    continue
                if isinstance(s.value, ast.Call) and ast.unparse(s.value.func) == "print":
                    continue
                raise Unsupported("expression statement %s" % ast.unparse(s)[:40])
            elif isinstance(s, ast.Assign):
                v = self.ev(s.value)
                for t in s.targets:
                    self.assign(t, v)
            elif isinstance(s, ast.AugAssign):
                cur = self.ev(s.target)
                self.assign(s.target, T("i" + type(s.op).__name__, cur, self.ev(s.value)))
            elif isinstance(s, ast.If):
                c = self.ev(s.test)
                if c is True or c is False:
                    self.run(s.body if c else s.orelse)
                elif isinstance(c, tuple) and c[:1] == ("global",) and c[1] in self.concrete:
                    self.run(s.body if self.concrete[c[1]] else s.orelse)
                else:
                    raise Unsupported("branch on an opaque condition: %s" % ast.unparse(s.test))
            elif isinstance(s, ast.For):
                it = s.iter
                if isinstance(it, ast.Call) and ast.unparse(it.func) == "range" and len(it.args) == 1:
                    n = self.ev(it.args[0])
                    if isinstance(n, tuple):
                        n = self.concrete.get(n, self.concrete.get(ast.unparse(it.args[0])))
                    if not isinstance(n, int):
                        raise Unsupported("range bound %s not concrete" % ast.unparse(it.args[0]))
                    for i in range(n):
                        self.assign(s.target, i)
                        self.run(s.body)
                else:
                    raise Unsupported("for over %s" % ast.unparse(it))
            elif isinstance(s, ast.Global):
                continue
            elif isinstance(s, ast.Pass):
                continue
            else:
                raise Unsupported("statement %s" % type(s).__name__)


OPS = {"call", "attr", "getitem", "global", "array", "init", "Add", "Sub", "Mult", "Div", "Pow", "USub", "Not", "iAdd", "iSub", "iMult", "iDiv",
       "Lt", "LtE", "Gt", "GtE", "Eq", "NotEq", "IfExp", "And", "Or", "fstring", "kw", "zeros", "FloorDiv", "Mod", "slice"}


def simplify(t):
    """rewrite axioms of the shared-memory helpers (assumed contracts)"""
    # frombuffer(X).reshape(S):
    #   ('call', ('attr', ('call', ('attr', ('global','np'), 'frombuffer'), BUF), 'reshape'), SHAPE)
    try:
        if t[0] == "call" and t[1][0] == "attr" and t[1][2] == "reshape":
            inner = t[1][1]
            if inner[0] == "call" and inner[1] == ("attr", ("global", "np"), "frombuffer"):
                buf = inner[2]
                if buf[0] == "call" and buf[1][-1] in ("copyToSharedArray",) or (buf[0] == "call" and buf[1] in (("global", "copyToSharedArray"), ("attr", ("global", "srs"), "copyToSharedArray"))):
                    return buf[2]
                if buf[0] == "call" and (buf[1] in (("global", "createSharedArray"), ("attr", ("global", "srs"), "createSharedArray"))):
                    return T("zeros", buf[2])
        if t[0] == "call" and t[1] == ("global", "_to_np_array"):
            pair = t[2]
            if isinstance(pair, tuple) and len(pair) == 2 and pair[0] not in OPS:
                return simplify(T("call", T("attr", T("call", T("attr", T("global", "np"), "frombuffer"), pair[0]), "reshape"), pair[1]))
    except (IndexError, TypeError):
        pass
    return t


def find_function(tree, name):
    for n in ast.walk(tree):
        if isinstance(n, ast.FunctionDef) and n.name == name:
            return n
    raise Unsupported("function %s not found" % name)


def show(t, depth=0):
    if not isinstance(t, tuple):
        return repr(t)
    if depth > 6:
        return "..."
    if t and t[0] == "global":
        return t[1]
    if t and t[0] == "call":
        return "%s(%s)" % (show(t[1], depth + 1), ", ".join(show(a, depth + 1) for a in t[2:]))
    if t and t[0] == "attr":
        return "%s.%s" % (show(t[1], depth + 1), t[2])
    if t and t[0] == "getitem":
        return "%s[%s]" % (show(t[1], depth + 1), show(t[2], depth + 1))
    return "(" + " ".join(show(a, depth + 1) for a in t) + ")"
