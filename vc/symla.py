"""Symbolic stand-ins (assumed contracts) for the scipy.linalg / numpy.linalg calls made by the code under contract.

Every function here is the *contract* of the library routine, stated over exact arithmetic:
  solve(A, B)            == the X with A X == B              (A invertible as a matrix of rational functions)
  inv(A)                 == A^-1
  lu_factor / lu_solve   == opaque token carrying A; lu_solve(tok, B, trans) solves A X = B (trans=0) or A^T X = B (trans=1)
  solve_triangular(A, B) == X with triu(A) X == B            (the strictly lower triangle is IGNORED, as LAPACK trtrs does)
They run on object ndarrays of vc.alg.S scalars and return the same.  A singular matrix raises the error the library raises
(LinAlgError), or warns (lu_factor: RuntimeWarning category LinAlgWarning is what scipy emits for an exactly singular factor).
"""
import warnings
import numpy as _np
import sympy as sp
from . import alg


def tomat(a):
    a = _np.asarray(a, dtype=object)
    if a.ndim == 1:
        a = a.reshape(-1, 1)
    return sp.Matrix(a.shape[0], a.shape[1], lambda i, j: alg.expr_of(a[i, j]))


def toarr(M, shape=None, expand=False):
    out = _np.empty((M.rows, M.cols), dtype=object)
    for i in range(M.rows):
        for j in range(M.cols):
            e = M[i, j]
            out[i, j] = alg.S(sp.expand(e) if expand else e)
    out = out.view(alg.SymArr)
    if shape is not None:
        out = out.reshape(shape)
    return out


def _light(e):
    """cheap normalisation (keeps expressions from nesting deeply); full cancel only for small expressions"""
    return sp.cancel(e) if sp.count_ops(e) < 400 else sp.together(e)


def _singular(A):
    """is det(A) identically zero?  decided cheaply: non-zero at the regime's witness point => not identically zero"""
    d = A.det(method="berkowitz") if A.rows > 3 else A.det()
    if d == 0:
        return True
    ctx = alg._CTX
    if ctx is not None:
        try:
            v = sp.N(d.xreplace(ctx.witness), 30)
            if v.is_number and abs(v) > 1e-20:
                return False
        except Exception:
            pass
    return sp.simplify(d) == 0


class SingularMatrix(_np.linalg.LinAlgError):
    pass


def _isnum(a):
    a = _np.asarray(a)
    return a.dtype != object


def solve(a, b, **kw):
    if _isnum(a) and _isnum(b):
        import scipy.linalg as _la
        return _la.solve(a, b, **kw)
    A, B = tomat(a), tomat(b)
    # LAPACK's symmetric/hermitian/positive-definite drivers read ONE triangle only (scipy: `lower=False` -> the upper one)
    asm = kw.get("assume_a", "gen")
    if asm in ("sym", "symmetric", "her", "hermitian", "pos", "positive definite"):
        low = bool(kw.get("lower", False))
        herm = asm in ("her", "hermitian", "pos", "positive definite")
        A2 = A.copy()
        for i in range(A.rows):
            for j in range(A.cols):
                src = (max(i, j), min(i, j)) if low else (min(i, j), max(i, j))
                v = A[src]
                A2[i, j] = v if (i, j) == src or not herm else sp.conjugate(v)
        A = A2
    if _singular(A):
        raise SingularMatrix("Matrix is singular.")
    if A.rows <= 3:
        # Cramer: adj(A) b / det(A), left unsimplified (cancel over many complex symbols is far more expensive than the final numerator test)
        X = (A.adjugate() * B) / A.det()
    else:
        X = A.LUsolve(B)
        X = X.applyfunc(_light)
    return toarr(X, _np.asarray(b).shape)


def inv(a):
    if _isnum(a):
        return _np.linalg.inv(a)
    A = tomat(a)
    if _singular(A):
        raise SingularMatrix("Singular matrix")
    return toarr(A.inv().applyfunc(sp.cancel))


def solve_triangular(a, b, lower=False, **kw):
    A = tomat(a)
    A = A.lower_triangular() if lower else A.upper_triangular()
    return toarr(A.LUsolve(tomat(b)).applyfunc(sp.cancel), _np.asarray(b).shape)


KNOWN_INVERSES = []      # (A, W, iszero): matrices registered by a property with A W == I (re-verified on every lookup with `iszero`)


class LU:
    def __init__(self, a):
        self.A = tomat(a)
        self.W = None
        for A0, W, iszero in KNOWN_INVERSES:
            if A0.shape == self.A.shape and all(iszero(x) for x in (self.A - A0)) and all(iszero(x) for x in (A0 * W - sp.eye(A0.rows))):
                self.W = W
                break


def lu_factor(a, **kw):
    if _isnum(a):
        import scipy.linalg as _la
        return _la.lu_factor(a, **kw)
    f = LU(a)
    if f.W is None and _singular(f.A):
        from scipy.linalg import LinAlgWarning
        warnings.warn("Diagonal number 1 is exactly zero. Singular matrix.", LinAlgWarning, stacklevel=2)
    return f


def lu_solve(lup, b, trans=0, **kw):
    if not isinstance(lup, LU):
        import scipy.linalg as _la
        if _isnum(b):
            return _la.lu_solve(lup, b, trans=trans, **kw)
        raise TypeError("numeric LU factor applied to a symbolic right-hand side")
    if lup.W is not None:
        W = lup.W.T if trans else lup.W
        return toarr((W * tomat(b)).applyfunc(sp.expand), _np.asarray(b).shape)
    A = lup.A.T if trans else lup.A
    X = A.LUsolve(tomat(b))
    return toarr(X.applyfunc(_light), _np.asarray(b).shape)


# ---------------------------------------------------------------------------------------------------------
# truncated power-series arithmetic in one variable (used where rational functions would blow up)
def series_solve(Q, P, h, N):
    """X with Q X == P  mod h^N, for matrices of polynomials in h whose Q(0) is invertible (exact)"""
    Q, P = tomat(Q), tomat(P)
    n, m = Q.rows, P.cols
    Qc = [Q.applyfunc(lambda e, k=k: sp.Poly(sp.expand(e), h).coeff_monomial(h ** k)) for k in range(N)]
    Pc = [P.applyfunc(lambda e, k=k: sp.Poly(sp.expand(e), h).coeff_monomial(h ** k)) for k in range(N)]
    Q0i = Qc[0].inv()
    X = []
    for k in range(N):
        rhs = Pc[k]
        for j in range(1, k + 1):
            rhs = rhs - Qc[j] * X[k - j]
        X.append((Q0i * rhs).applyfunc(sp.expand))
    out = sp.zeros(n, m)
    for k in range(N):
        out += X[k] * h ** k
    return out


def valuation(expr, h, upto):
    """lowest power of h with a non-zero coefficient in the polynomial/Laurent expression `expr` (>= upto means 'zero mod h^upto')"""
    e = sp.expand(expr)
    if e == 0:
        return upto
    lo = None
    for t in sp.Add.make_args(e):
        c, p = t.as_coeff_exponent(h)
        if c.has(h):
            raise ValueError("not a Laurent polynomial in %s: %s" % (h, t))
        p = int(p)
        lo = p if lo is None else min(lo, p)
    # coefficients may cancel between terms of equal power: collect
    coeffs = {}
    for t in sp.Add.make_args(e):
        c, p = t.as_coeff_exponent(h)
        coeffs[int(p)] = coeffs.get(int(p), 0) + c
    for p in sorted(coeffs):
        if sp.expand(coeffs[p]) != 0:
            return min(p, upto)
    return upto
