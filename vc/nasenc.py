"""Independent encoders for Nastran OUTPUT4 (binary and ASCII) and OUTPUT2 files.  Shares no code with pyYeti.

Written from the record layouts of the Nastran DMAP OUTPUT2/OUTPUT4 module descriptions and checked against the key/record
sequence of the Nastran-written sample files shipped with the repository's tests (structure only; see props/C11.py).
Everything is built from `struct.pack`; the caller chooses every free physical parameter (byte order, integer width,
precision, layout, how the non-zero runs of a column are split into strings, how a table record is split into parts,
ASCII field width / exponent letter / values per line).
"""
import struct


def _runs(rows):
    """maximal runs of consecutive integers in an ascending list -> [(start, length)]"""
    out = []
    for r in rows:
        if out and out[-1][0] + out[-1][1] == r:
            out[-1][1] += 1
        else:
            out.append([r, 1])
    return [tuple(x) for x in out]


def split_strings(col, rng, mode):
    """choose strings (start_row, values) covering every non-zero of the column; `mode`: 'runs' (maximal runs), 'split' (runs cut at random
    places), 'merge' (neighbouring runs joined, zeros written explicitly), 'single' (one string from first to last non-zero)"""
    nz = [i for i, v in enumerate(col) if v != 0]
    if not nz:
        return []
    if mode == "single":
        return [(nz[0], list(col[nz[0]:nz[-1] + 1]))]
    runs = _runs(nz)
    if mode == "merge":
        merged = [list(runs[0])]
        for s, l in runs[1:]:
            if s - (merged[-1][0] + merged[-1][1]) <= 2 and rng.rand() < 0.7:
                merged[-1][1] = s + l - merged[-1][0]
            else:
                merged.append([s, l])
        runs = [tuple(x) for x in merged]
    out = []
    for s, l in runs:
        if mode == "split" and l > 1:
            cuts = sorted(set(int(x) for x in rng.randint(1, l, size=rng.randint(0, 3))))
            prev = 0
            for c in cuts + [l]:
                if c > prev:
                    out.append((s + prev, list(col[s + prev:s + c])))
                prev = c
        else:
            out.append((s, list(col[s:s + l])))
    return out


# ------------------------------------------------------------------------------------------------------------------
class Op4Binary:
    """OUTPUT4 binary.  mtype: 1 real single, 2 real double, 3 complex single, 4 complex double.  bit64: integers and single-precision words are 8 bytes"""

    def __init__(self, endian="<", bit64=False):
        self.e, self.bit64 = endian, bit64
        self.i = "q" if bit64 else "i"
        self.buf = bytearray()

    def _rec(self, payload):
        m = struct.pack(self.e + "i", len(payload))
        self.buf += m + payload + m

    def _vals(self, vals, mtype):
        flat = []
        for v in vals:
            if mtype > 2:
                flat += [complex(v).real, complex(v).imag]
            else:
                flat.append(float(v))
        if mtype in (1, 3) and not self.bit64:
            return struct.pack(self.e + "%df" % len(flat), *flat), len(flat)            # 1 word each
        if self.bit64:
            return struct.pack(self.e + "%dd" % len(flat), *flat), len(flat)            # 1 (8-byte) word each
        return struct.pack(self.e + "%dd" % len(flat), *flat), 2 * len(flat)            # double on a 32-bit file: 2 words each

    def matrix(self, name, M, mtype, form, layout, strings_of, nrow=None):
        """M: list of columns (each a list of values, length nrow); layout 'dense' | 'bigmat' | 'nonbigmat'; strings_of(col) -> [(start, values)]"""
        ncol = len(M)
        if nrow is None:
            nrow = len(M[0]) if M else 0
        nm = name.upper().ljust(16 if self.bit64 else 8).encode()
        self._rec(struct.pack(self.e + "4" + self.i, ncol, -nrow if layout == "bigmat" else nrow, form, mtype) + nm)
        for c, col in enumerate(M):
            strs = strings_of(col)
            if not strs:
                continue
            if layout == "dense":
                s0 = strs[0][0]
                s1 = strs[-1][0] + len(strs[-1][1])
                data, nw = self._vals(col[s0:s1], mtype)
                self._rec(struct.pack(self.e + "3" + self.i, c + 1, s0 + 1, nw) + data)
            else:
                body = bytearray()
                total = 0
                for s, vals in strs:
                    data, nw = self._vals(vals, mtype)
                    if layout == "bigmat":
                        body += struct.pack(self.e + "2" + self.i, nw + 1, s + 1) + data
                        total += nw + 2
                    else:
                        body += struct.pack(self.e + self.i, (s + 1) + 65536 * (nw + 1)) + data
                        total += nw + 1
                self._rec(struct.pack(self.e + "3" + self.i, c + 1, 0, total) + bytes(body))
        data, nw = self._vals([1.0], 1 if mtype in (1, 3) else 2)
        self._rec(struct.pack(self.e + "3" + self.i, ncol + 1, 1, nw) + data)

    def bytes(self):
        return bytes(self.buf)


class Op4Ascii:
    def __init__(self, width=23, digits=16, perline=3, expchar="E", prefix=True):
        self.w, self.d, self.per, self.x = width, digits, perline, expchar
        self.pfx = "1P," if prefix else ""
        self.lines = []

    def _num(self, v):
        s = "%*.*E" % (self.w, self.d, v)
        if len(s) != self.w:
            raise ValueError("value %r does not fit the announced width" % (v,))
        return s.replace("E", self.x)

    def _block(self, flat):
        for i in range(0, len(flat), self.per):
            self.lines.append("".join(self._num(v) for v in flat[i:i + self.per]))

    @staticmethod
    def _flat(vals, mtype):
        out = []
        for v in vals:
            if mtype > 2:
                out += [complex(v).real, complex(v).imag]
            else:
                out.append(float(v))
        return out

    def matrix(self, name, M, mtype, form, layout, strings_of, wide=False, nrow=None):
        """wide: header written as 2I16,2I8,A8,format followed by the marker |I16 (the form used when a dimension needs more than 8 characters);
        nrow: announce more rows than the columns given hold (the rows beyond are zero)"""
        ncol = len(M)
        if nrow is None:
            nrow = len(M[0]) if M else 0
        wper = 1 if mtype in (1, 3) else 2
        iw = 16 if wide else 8
        self.lines.append("%*d%*d%8d%8d%-8s%s%d%s%d.%d%s" % (iw, ncol, iw, -nrow if layout == "bigmat" else nrow, form, mtype, name.upper(), self.pfx, self.per, self.x, self.w, self.d, "|I16" if wide else ""))
        for c, col in enumerate(M):
            strs = strings_of(col)
            if not strs:
                continue
            if layout == "dense":
                s0, s1 = strs[0][0], strs[-1][0] + len(strs[-1][1])
                flat = self._flat(col[s0:s1], mtype)
                self.lines.append("%8d%8d%8d" % (c + 1, s0 + 1, len(flat)))
                self._block(flat)
            else:
                flats = [(s, self._flat(vals, mtype)) for s, vals in strs]
                if layout == "bigmat":
                    total = sum(len(f) * wper + 2 for s, f in flats)
                else:
                    total = sum(len(f) * wper + 1 for s, f in flats)
                self.lines.append("%8d%8d%8d" % (c + 1, 0, total))
                for s, f in flats:
                    nw = len(f) * wper
                    if layout == "bigmat":
                        self.lines.append("%8d%8d" % (nw + 1, s + 1))
                    else:
                        self.lines.append("%12d" % ((s + 1) + 65536 * (nw + 1)))
                    self._block(f)
        self.lines.append("%8d%8d%8d" % (ncol + 1, 1, 1))
        self._block([1.0])

    def text(self):
        return "\n".join(self.lines) + "\n"


# ------------------------------------------------------------------------------------------------------------------
class Op2:
    """OUTPUT2 binary: every item is [len][payload][len] with 4-byte len; keys are single integers of `ib` bytes"""

    def __init__(self, endian="<", ib=4):
        self.e, self.ib = endian, ib
        self.i = "q" if ib == 8 else "i"
        self.buf = bytearray()
        self.marks = []          # (name, start, stop, kind)

    def _rec(self, payload):
        m = struct.pack(self.e + "i", len(payload))
        self.buf += m + payload + m

    def key(self, k):
        self._rec(struct.pack(self.e + self.i, k))

    def ints(self, vals):
        self._rec(struct.pack(self.e + "%d%s" % (len(vals), self.i), *vals))

    def header(self, date=(9, 24, 15), label="XXXXXXXX"):
        self.key(3)
        self.ints(list(date))
        self.key(7)
        self._rec(b"NASTRAN FORT TAPE ID CODE - ".ljust(7 * self.ib))
        self.key(2)
        self._rec(label.ljust(2 * self.ib).encode())
        self.key(-1)
        self.key(0)

    def _dbhead(self, name, trailer, rectype):
        self.key(2)
        self._rec(name.upper().ljust(2 * self.ib).encode())
        self.key(-1)
        self.key(7)
        self.ints(trailer)
        self.key(-2)
        self.key(1)
        self.key(0)
        self.key(2)
        self._rec(name.upper().ljust(2 * self.ib).encode())
        self.key(-3)
        self.key(1)
        self.key(rectype)

    def matrix(self, name, M, mtype, form, strings_of):
        ncol, nrow = len(M), len(M[0]) if M else 0
        start = len(self.buf)
        self._dbhead(name, [101, ncol, nrow, form, mtype, 0, 0], 1)
        single = mtype in (1, 3)
        for c, col in enumerate(M):
            for s, vals in strings_of(col):
                flat = []
                for v in vals:
                    if mtype > 2:
                        flat += [complex(v).real, complex(v).imag]
                    else:
                        flat.append(float(v))
                if single and self.ib == 4:
                    data = struct.pack(self.e + "%df" % len(flat), *flat)
                    nw = len(flat)
                else:
                    data = struct.pack(self.e + "%dd" % len(flat), *flat)
                    nw = len(flat) * (2 if self.ib == 4 else 1)
                self.key(nw)
                self._rec(struct.pack(self.e + self.i, s + 1) + data)
            self.key(-(c + 4))
            self.key(1)
            self.key(1 if c < ncol - 1 else 0)
        if ncol == 0:
            pass
        self.key(0)
        self.marks.append((name.upper(), start, len(self.buf), 1))

    def table(self, name, records, split=None):
        """records: list of lists of integers (each >= 3 long); split(k, n) -> list of part lengths summing to n (multi-part record)"""
        start = len(self.buf)
        self._dbhead(name, [102, len(records), 0, 0, 0, 0, 0], 0)
        for k, rec in enumerate(records):
            parts = split(k, len(rec)) if split else [len(rec)]
            pos = 0
            for pl in parts:
                self.key(pl)
                self.ints(rec[pos:pos + pl])
                pos += pl
            self.key(-(k + 4))
            self.key(1)
            self.key(0)
        self.key(0)
        self.marks.append((name.upper(), start, len(self.buf), 0))

    def end(self):
        self.key(0)

    def bytes(self):
        return bytes(self.buf)
