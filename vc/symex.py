"""Verification-condition generator: symbolic execution of real Python source (ast) over z3 terms.

The function body is parsed from the file in /repo on every run; nothing is transcribed.
Loops are cut by the invariants given in the sidecar contract; every array access yields a
bounds obligation; `assert`/ensures/invariants yield named obligations (vc.smt.Obligation).

Python semantics assumed by the encoding (stated in evidence):
  * int is unbounded (z3 Int); // and % have floor semantics (encoded exactly);
  * float: mode "real" (mathematical reals) or "uf" (uninterpreted sort F with uninterpreted
    +,-,*,/,abs,< : equalities proved hold for any deterministic float semantics, bit for bit);
  * ndarray/list variables do not alias (aliasing assignments between array names are rejected);
  * negative indices are NOT accepted silently: every access must prove 0 <= i < len
    (a function that relies on wrap-around must say so in its contract: wrap=True).
"""
import ast, copy, hashlib, itertools, textwrap
import z3
from .smt import Obligation


class Unsupported(Exception):
    pass


class BindError(Exception):
    """contract could not be bound to the source (function/loop/hook anchor not found)"""


F = z3.DeclareSort("F")
_fadd = z3.Function("fadd", F, F, F)
_fsub = z3.Function("fsub", F, F, F)
_fmul = z3.Function("fmul", F, F, F)
_fdiv = z3.Function("fdiv", F, F, F)
_fabs = z3.Function("fabs", F, F)
_fneg = z3.Function("fneg", F, F)
_flt = z3.Function("flt", F, F, z3.BoolSort())
_fle = z3.Function("fle", F, F, z3.BoolSort())
_i2f = z3.Function("i2f", z3.IntSort(), F)


class Arr:
    """An array value: z3 array term (nested for 2-D), shape (tuple of Int terms), element kind,
    first-axis offset."""

    def __init__(self, term, shape, elem, off=None):
        self.term, self.shape, self.elem = term, tuple(shape), elem
        self.off = off if off is not None else z3.IntVal(0)

    @property
    def ndim(self):
        return len(self.shape)

    def with_(self, **kw):
        a = Arr(self.term, self.shape, self.elem, self.off)
        for k, v in kw.items():
            setattr(a, k, v)
        return a


class PyList:
    """A Python list of scalars modelled as (array term, length)."""

    def __init__(self, term, length, elem):
        self.term, self.length, self.elem = term, length, elem


class Ghost:
    pass


class PyObj:
    """An opaque Python object whose behaviour is given by the contract, not by code: `attrs` (name -> value) are what attribute access yields,
    `methods` (name -> f(engine, call_node, state, spec)) what a method call does, `call` what calling the object itself does."""

    def __init__(self, kind, attrs=None, methods=None, call=None, binop=None, setitem=None, getitem=None, setattr=None):
        self.kind, self.attrs, self.methods, self.call = kind, attrs or {}, methods or {}, call
        self.binop, self.setitem = binop, setitem        # binop(engine, op, other, self_is_left) ; setitem(engine, target_node, value, state)
        self.getitem, self.setattr = getitem, setattr    # getitem(engine, subscript_node, state, spec) ; setattr(engine, target_node, value, state)

    def __repr__(self):
        return "<PyObj %s>" % self.kind


class State:
    def __init__(self, env=None, pc=None):
        self.env = env if env is not None else {}
        self.pc = pc if pc is not None else []

    def copy(self):
        return State(dict(self.env), list(self.pc))

    def assume(self, f):
        if isinstance(f, bool):
            if not f:
                self.pc.append(z3.BoolVal(False))
            return
        self.pc.append(f)


def floor_div(a, b):
    return z3.If(b > 0, a / b, (-a) / (-b))


def py_mod(a, b):
    return a - b * floor_div(a, b)


class Contract:
    def __init__(self, file, qualname, floats="real", strict_index=True):
        self.file, self.qualname, self.floats = file, qualname, floats
        self.param_types = {}
        self.requires_, self.ensures_, self.raises_ = [], [], []
        self.loops = {}        # loop id -> dict(invariant=[...], decreases=str|None)
        self.ghosts = []       # (name, type, init expr)
        self.hooks = []        # (pattern, [stmt src], expected count or None)
        self.store_hooks = []  # (array name, [stmt src])  with idx0, idx1, value bound
        self.lemmas = []
        self.strict_index = strict_index
        self.assumes_ = []
        self.result_names = None
        self.refines_ = {}
        self.shadows = {}

    def types(self, **kw):
        self.param_types.update(kw)
        return self

    def requires(self, *e):
        self.requires_ += e
        return self

    def ensures(self, *e):
        self.ensures_ += e
        return self

    def raises(self, exc, when):
        self.raises_.append((exc, when))
        return self

    def loop(self, lid, invariant=(), decreases=None, unfold=()):
        """unfold: instances of DEFINITIONS (one-step unfoldings of recursive specification predicates) made available at the loop head - assumed, never checked"""
        self.loops[lid] = dict(invariant=list(invariant), decreases=decreases, unfold=list(unfold))
        return self

    def ghost(self, name, typ, init):
        self.ghosts.append((name, typ, init))
        return self

    def after_stmt(self, pattern, code, occurrence=None):
        """ghost code executed after every statement whose source text equals `pattern`
        (or only after its occurrence-th appearance, counted in source order inside the function)"""
        self.hooks.append((_norm_src(pattern), list(code), occurrence))
        return self

    def shadow(self, arr, ghost, source):
        """provenance ghost: `ghost[i]` is the index in `source` that `arr[i]` was copied from.
        Every store  arr[e1] = arr[e2]  also does ghost[e1] = ghost[e2];  arr[e1] = source[e2] does ghost[e1] = e2;
        any other store into arr is rejected (binding error)."""
        self.shadows[arr] = (ghost, source)
        return self

    def on_store(self, arrname, code):
        self.store_hooks.append((arrname, list(code)))
        return self

    def assume(self, *e):
        self.assumes_ += e
        return self

    def refines(self, lid, spec_src, coupling, prefix_only=False, cite=""):
        """The body of loop `lid` (or, prefix_only, its statements before the first nested loop) must be
        observationally equal to the specification block `spec_src` (Python text over the same names):
        same exit kind (fall-through / break) and every `coupling` expression true, where a name with
        suffix `_s` denotes the value after the specification block."""
        self.refines_[lid] = dict(spec=textwrap.dedent(spec_src), coupling=list(coupling), prefix_only=prefix_only, cite=cite)
        return self


def _norm_src(s):
    return ast.unparse(ast.parse(textwrap.dedent(s).strip()))


def find_function(tree, qualname):
    parts = qualname.split(".")
    node = tree
    for p in parts:
        for ch in ast.walk(node) if node is tree else ast.iter_child_nodes(node):
            if isinstance(ch, (ast.FunctionDef, ast.ClassDef)) and ch.name == p:
                node = ch
                break
        else:
            # nested function anywhere below
            for ch in ast.walk(node):
                if isinstance(ch, (ast.FunctionDef, ast.ClassDef)) and ch.name == p and ch is not node:
                    node = ch
                    break
            else:
                raise BindError("function %s not found" % qualname)
    return node


def number_loops(fn):
    """Assign ids '0', '1', '0.0', ... to loops by nesting and source order."""
    ids = {}

    def visit(stmts, prefix):
        cnt = [0]

        def walk(ss):
            for s in ss:
                if isinstance(s, (ast.For, ast.While)):
                    lid = prefix + str(cnt[0])
                    cnt[0] += 1
                    ids[id(s)] = lid
                    visit(s.body, lid + ".")
                    if s.orelse:
                        walk(s.orelse)
                elif isinstance(s, ast.If):
                    walk(s.body)
                    walk(s.orelse)
                elif isinstance(s, (ast.With,)):
                    walk(s.body)
                elif isinstance(s, ast.Try):
                    walk(s.body)
                    for h in s.handlers:
                        walk(h.body)
                    walk(s.orelse)
                    walk(s.finalbody)

        walk(stmts)

    visit(fn.body, "")
    return ids


def assigned_names(stmts):
    out = set()
    for s in stmts:
        for n in ast.walk(s):
            if isinstance(n, (ast.Assign, ast.AugAssign, ast.AnnAssign)):
                tgts = n.targets if isinstance(n, ast.Assign) else [n.target]
                for t in tgts:
                    for b in _target_bases(t):
                        out.add(b)
            elif isinstance(n, ast.For):
                for b in _target_bases(n.target):
                    out.add(b)
                    out.add("nx_" + b)
            elif isinstance(n, ast.Call) and isinstance(n.func, ast.Attribute) and isinstance(n.func.value, ast.Name) \
                    and n.func.attr in ("append", "extend", "insert", "pop", "write", "sort", "reverse"):
                out.add(n.func.value.id)
    return out


def _target_bases(t):
    if isinstance(t, ast.Name):
        return [t.id]
    if isinstance(t, (ast.Tuple, ast.List)):
        return [b for e in t.elts for b in _target_bases(e)]
    if isinstance(t, ast.Subscript):
        return _target_bases(t.value)
    if isinstance(t, ast.Attribute):
        return _target_bases(t.value)
    if isinstance(t, ast.Starred):
        return _target_bases(t.value)
    return []


def _has_quant(f):
    todo, seen = [f], set()
    while todo:
        e = todo.pop()
        if e.get_id() in seen:
            continue
        seen.add(e.get_id())
        if z3.is_quantifier(e):
            return True
        todo.extend(e.children())
    return False


class Engine:
    def __init__(self, source_text, contract, filename="<src>", callees=None, fn_node=None, extra_builtins=None):
        self.c = contract
        self.filename = filename
        self.tree = ast.parse(source_text) if fn_node is None else None
        self.fn = fn_node if fn_node is not None else find_function(self.tree, contract.qualname)
        self.loop_ids = number_loops(self.fn)
        self.inline_fns = {}
        for cname, (qn, pref) in getattr(contract, "inline", {}).items():
            if self.tree is None:
                raise BindError("inlining needs the module source")
            fnode = find_function(self.tree, qn)
            for k_, v_ in number_loops(fnode).items():
                self.loop_ids[k_] = pref + "." + v_
            self.inline_fns[cname] = fnode
        self.obls = []
        self.fresh_n = itertools.count()
        self.fconsts = {}
        self.callees = callees or {}
        self.dropped = {}
        self.hook_hits = {}
        self.extra_builtins = extra_builtins or {}
        self.span_hash = hashlib.sha256(ast.unparse(self.fn).encode()).hexdigest()[:16]
        self.entry = None
        self.paths_done = 0
        self.quiet = 0
        self.pruned = 0
        self.stmt_occ = {}
        seen = {}
        for n in ast.walk(self.fn):
            pass
        def _order(stmts):
            for st in stmts:
                if not isinstance(st, (ast.If, ast.For, ast.While, ast.With, ast.Try, ast.FunctionDef)):
                    src = ast.unparse(st)
                    self.stmt_occ[id(st)] = seen.get(src, 0)
                    seen[src] = seen.get(src, 0) + 1
                for fld in ("body", "orelse", "finalbody"):
                    sub = getattr(st, fld, None)
                    if sub and not isinstance(st, ast.FunctionDef):
                        _order(sub)
        _order(self.fn.body)
        for fnode in self.inline_fns.values():
            _order(fnode.body)
        self.stored_names = set()
        for n in ast.walk(self.fn):
            if isinstance(n, (ast.Assign, ast.AugAssign)):
                for t in (n.targets if isinstance(n, ast.Assign) else [n.target]):
                    if isinstance(t, ast.Subscript):
                        self.stored_names |= set(_target_bases(t))

    # ------------------------------------------------------------------ helpers
    def fresh(self, base, sort):
        return z3.Const("%s!%d" % (base, next(self.fresh_n)), sort)

    def fsort(self):
        return F if self.c.floats == "uf" else z3.RealSort()

    def elem_sort(self, kind):
        return {"int": z3.IntSort(), "float": self.fsort(), "bool": z3.BoolSort()}[kind]

    def fresh_arr(self, base, shape, elem):
        s = self.elem_sort(elem)
        for _ in shape[1:]:
            s = z3.ArraySort(z3.IntSort(), s)
        return Arr(self.fresh(base, z3.ArraySort(z3.IntSort(), s)), shape, elem)

    def fconst(self, v):
        if self.c.floats == "real":
            from fractions import Fraction
            fr = Fraction(v)
            return z3.RealVal(str(fr))
        key = repr(float(v))
        if key not in self.fconsts:
            self.fconsts[key] = z3.Const("fc_" + key.replace("-", "m").replace(".", "p"), F)
        return self.fconsts[key]

    def global_axioms(self):
        ax = []
        if self.c.floats == "uf" and len(self.fconsts) > 1:
            ax.append(z3.Distinct(*self.fconsts.values()))
        return ax

    def drop(self, what):
        self.dropped[what] = self.dropped.get(what, 0) + 1

    def oblige(self, st, goal, name, kind, node=None):
        if self.quiet:
            return
        where = "%s:%s" % (self.filename, getattr(node, "lineno", "?")) if node is not None else ""
        if isinstance(goal, bool):
            goal = z3.BoolVal(goal)
        full = "%s::%s" % (self.c.qualname, name)
        # disambiguate repeated names (different paths)
        n = sum(1 for o in self.obls if o.name == full or o.name.startswith(full + "#"))
        if n:
            full = "%s#%d" % (full, n)
        self.obls.append(Obligation(full, list(st.pc), goal, kind=kind, where=where))

    # ------------------------------------------------------------------ values
    def is_float(self, v):
        return isinstance(v, float) or (z3.is_expr(v) and v.sort() == self.fsort() and not z3.is_int(v))

    def to_float(self, v):
        if isinstance(v, bool):
            v = int(v)
        if isinstance(v, (int, float)):
            return self.fconst(v)
        if z3.is_expr(v):
            if v.sort() == self.fsort():
                return v
            if z3.is_int(v):
                return z3.ToReal(v) if self.c.floats == "real" else _i2f(v)
        raise Unsupported("cannot convert %r to float" % (v,))

    def to_int(self, v):
        if isinstance(v, bool):
            return z3.IntVal(int(v))
        if isinstance(v, int):
            return z3.IntVal(v)
        if z3.is_expr(v) and z3.is_int(v):
            return v
        if z3.is_expr(v) and z3.is_bool(v):
            return z3.If(v, 1, 0)
        raise Unsupported("cannot convert %r to int" % (v,))

    def to_bool(self, v):
        if isinstance(v, bool):
            return z3.BoolVal(v)
        if isinstance(v, int):
            return z3.BoolVal(v != 0)
        if z3.is_expr(v):
            if z3.is_bool(v):
                return v
            if z3.is_int(v):
                return v != 0
        if v is None:
            return z3.BoolVal(False)
        raise Unsupported("cannot convert %r to bool" % (v,))

    def const_bool(self, v):
        """Python-level truth if decidable without the solver, else None"""
        if isinstance(v, (bool, int, str, bytes)) or v is None:
            return bool(v)
        if z3.is_expr(v):
            s = z3.simplify(v)
            if z3.is_true(s):
                return True
            if z3.is_false(s):
                return False
        return None

    def arith(self, op, a, b, node):
        if isinstance(a, str) and isinstance(op, ast.Mod) and getattr(self.c, "str_format", None) is not None:
            return self.c.str_format(self, a, b)          # "%dd" % n : a format whose meaning the contract gives
        if isinstance(a, PyObj) and a.binop is not None:
            return a.binop(self, op, b, True)
        if isinstance(b, PyObj) and b.binop is not None:
            return b.binop(self, op, a, False)
        if isinstance(a, (int, float)) and isinstance(b, (int, float)) and not isinstance(op, ast.Div):
            return {ast.Add: lambda: a + b, ast.Sub: lambda: a - b, ast.Mult: lambda: a * b,
                    ast.FloorDiv: lambda: a // b, ast.Mod: lambda: a % b, ast.Pow: lambda: a ** b,
                    ast.LShift: lambda: a << b, ast.RShift: lambda: a >> b,
                    ast.BitAnd: lambda: a & b, ast.BitOr: lambda: a | b}[type(op)]()
        fl = self.is_float(a) or self.is_float(b) or isinstance(op, ast.Div)
        if fl:
            x, y = self.to_float(a), self.to_float(b)
            if self.c.floats == "real":
                if isinstance(op, ast.Add): return x + y
                if isinstance(op, ast.Sub): return x - y
                if isinstance(op, ast.Mult): return x * y
                if isinstance(op, ast.Div): return x / y
                if isinstance(op, ast.Pow) and isinstance(b, int) and 0 <= b <= 4:
                    r = z3.RealVal(1)
                    for _ in range(b):
                        r = r * x
                    return r
            else:
                if isinstance(op, ast.Add): return _fadd(x, y)
                if isinstance(op, ast.Sub): return _fsub(x, y)
                if isinstance(op, ast.Mult): return _fmul(x, y)
                if isinstance(op, ast.Div): return _fdiv(x, y)
            raise Unsupported("float op %s" % type(op).__name__)
        x, y = self.to_int(a), self.to_int(b)
        if isinstance(op, ast.Add): return x + y
        if isinstance(op, ast.Sub): return x - y
        if isinstance(op, ast.Mult): return x * y
        if isinstance(op, ast.FloorDiv): return floor_div(x, y)
        if isinstance(op, ast.Mod): return py_mod(x, y)
        if isinstance(op, ast.Pow) and isinstance(b, int) and 0 <= b <= 4:
            r = z3.IntVal(1)
            for _ in range(b):
                r = r * x
            return r
        if isinstance(op, ast.BitAnd) and isinstance(b, int) and b >= 0 and (b & (b + 1)) == 0:
            return py_mod(x, z3.IntVal(b + 1))          # x & (2^k - 1) == x mod 2^k for every Python int (infinite two's complement)
        if isinstance(op, ast.LShift) and isinstance(b, int): return x * (2 ** b)
        if isinstance(op, ast.RShift) and isinstance(b, int): return floor_div(x, z3.IntVal(2 ** b))
        raise Unsupported("int op %s" % type(op).__name__)

    def compare(self, op, a, b):
        if isinstance(op, (ast.Is, ast.IsNot)):
            if a is None or b is None:
                r = (a is None) == (b is None)
                return r if isinstance(op, ast.Is) else not r
            raise Unsupported("is on non-None")
        if isinstance(a, (int, float, str)) and isinstance(b, (int, float, str)) and not isinstance(a, bool):
            return {ast.Eq: a == b, ast.NotEq: a != b, ast.Lt: a < b, ast.LtE: a <= b, ast.Gt: a > b,
                    ast.GtE: a >= b}[type(op)] if not isinstance(op, (ast.In, ast.NotIn)) else \
                ((a in b) if isinstance(op, ast.In) else (a not in b))
        if isinstance(a, str) or isinstance(b, str):
            if isinstance(op, ast.Eq): return False
            if isinstance(op, ast.NotEq): return True
        if self.is_float(a) or self.is_float(b):
            x, y = self.to_float(a), self.to_float(b)
            if self.c.floats == "real":
                return {ast.Eq: lambda: x == y, ast.NotEq: lambda: x != y, ast.Lt: lambda: x < y,
                        ast.LtE: lambda: x <= y, ast.Gt: lambda: x > y, ast.GtE: lambda: x >= y}[type(op)]()
            return {ast.Eq: lambda: x == y, ast.NotEq: lambda: x != y, ast.Lt: lambda: _flt(x, y),
                    ast.LtE: lambda: _fle(x, y), ast.Gt: lambda: _flt(y, x), ast.GtE: lambda: _fle(y, x)}[type(op)]()
        if z3.is_expr(a) and z3.is_bool(a) or z3.is_expr(b) and z3.is_bool(b):
            x, y = self.to_bool(a), self.to_bool(b)
            if isinstance(op, ast.Eq): return x == y
            if isinstance(op, ast.NotEq): return x != y
        x, y = self.to_int(a), self.to_int(b)
        return {ast.Eq: lambda: x == y, ast.NotEq: lambda: x != y, ast.Lt: lambda: x < y,
                ast.LtE: lambda: x <= y, ast.Gt: lambda: x > y, ast.GtE: lambda: x >= y}[type(op)]()

    # ------------------------------------------------------------------ arrays
    def arr_len(self, a):
        return a.shape[0]

    def arr_read(self, st, a, idx, node, spec):
        """idx: list of index values (len == ndim or fewer)"""
        t = a.term
        for d, i in enumerate(idx):
            i = self.to_int(i)
            if not spec:
                self.oblige(st, z3.And(i >= 0, i < a.shape[d]), "bounds@L%s" % getattr(node, "lineno", "?"), "bounds", node)
            t = z3.Select(t, (a.off + i) if d == 0 else i)
        if len(idx) == a.ndim:
            return t
        return Arr(t, a.shape[len(idx):], a.elem)

    def arr_store(self, st, a, idx, val, node):
        if len(idx) != a.ndim:
            raise Unsupported("partial store")
        idx = [self.to_int(i) for i in idx]
        for d, i in enumerate(idx):
            self.oblige(st, z3.And(i >= 0, i < a.shape[d]), "bounds@L%s" % getattr(node, "lineno", "?"), "bounds", node)
        if a.elem == "float":
            val = self.to_float(val)
        elif a.elem == "int":
            val = self.to_int(val)
        else:
            val = self.to_bool(val)
        i0 = a.off + idx[0]
        if a.ndim == 1:
            return a.with_(term=z3.Store(a.term, i0, val))
        if a.ndim == 2:
            row = z3.Select(a.term, i0)
            return a.with_(term=z3.Store(a.term, i0, z3.Store(row, idx[1], val)))
        raise Unsupported("ndim > 2")

    def slice_clamp(self, v, n, default):
        if v is None:
            return default
        v = self.to_int(v)
        return z3.If(v < 0, z3.If(v + n < 0, 0, v + n), z3.If(v > n, n, v))

    # ------------------------------------------------------------------ expressions
    def ev(self, e, st, spec=False):
        m = getattr(self, "ev_" + type(e).__name__, None)
        if m is None:
            raise Unsupported("expression %s at line %s" % (type(e).__name__, getattr(e, "lineno", "?")))
        return m(e, st, spec)

    def ev_Constant(self, e, st, spec):
        return e.value

    def ev_List(self, e, st, spec):
        # a list literal: only the empty list, as an accumulator whose behaviour the contract defines
        if not e.elts and getattr(self.c, "list_factory", None) is not None:
            return self.c.list_factory()
        raise Unsupported("list literal")

    def ev_Name(self, e, st, spec):
        if e.id in st.env:
            return st.env[e.id]
        if e.id in ("True", "False", "None"):
            return {"True": True, "False": False, "None": None}[e.id]
        if e.id in getattr(self.c, "names", {}):
            return self.c.names[e.id]          # module-level / builtin names whose meaning the contract gives (e.g. `float` as a dtype)
        raise Unsupported("unknown name %s at line %s" % (e.id, getattr(e, "lineno", "?")))

    def ev_Tuple(self, e, st, spec):
        return tuple(self.ev(x, st, spec) for x in e.elts)

    def ev_UnaryOp(self, e, st, spec):
        v = self.ev(e.operand, st, spec)
        if isinstance(e.op, ast.Not):
            cb = self.const_bool(v) if not z3.is_expr(v) else None
            if cb is not None:
                return not cb
            return z3.Not(self.to_bool(v))
        if isinstance(e.op, ast.USub):
            if isinstance(v, (int, float)):
                return -v
            if self.is_float(v):
                return -v if self.c.floats == "real" else _fneg(v)
            return -self.to_int(v)
        if isinstance(e.op, ast.UAdd):
            return v
        raise Unsupported("unary op")

    def ev_BinOp(self, e, st, spec):
        a = self.ev(e.left, st, spec)
        b = self.ev(e.right, st, spec)
        if isinstance(e.op, (ast.FloorDiv, ast.Mod, ast.Div)) and not spec and not isinstance(b, (int, float)) and not isinstance(a, (PyObj, str)):
            if z3.is_expr(b) and z3.is_int(b):
                self.oblige(st, b != 0, "divzero@L%s" % e.lineno, "bounds", e)
        return self.arith(e.op, a, b, e)

    def ev_BoolOp(self, e, st, spec):
        vals = []
        st2 = st.copy()
        for x in e.values:
            v = self.ev(x, st2, spec)
            cb = self.const_bool(v) if not z3.is_expr(v) else None
            if cb is not None:
                if isinstance(e.op, ast.And) and not cb:
                    vals.append(z3.BoolVal(False))
                    break
                if isinstance(e.op, ast.Or) and cb:
                    vals.append(z3.BoolVal(True))
                    break
                continue
            b = self.to_bool(v)
            vals.append(b)
            st2.assume(b if isinstance(e.op, ast.And) else z3.Not(b))
        if not vals:
            return isinstance(e.op, ast.And)
        return z3.And(*vals) if isinstance(e.op, ast.And) else z3.Or(*vals)

    def ev_Compare(self, e, st, spec):
        left = self.ev(e.left, st, spec)
        parts = []
        for op, r in zip(e.ops, e.comparators):
            right = self.ev(r, st, spec)
            parts.append(self.compare(op, left, right))
            left = right
        if all(isinstance(p, bool) for p in parts):
            return all(parts)
        parts = [self.to_bool(p) for p in parts]
        return parts[0] if len(parts) == 1 else z3.And(*parts)

    def ev_IfExp(self, e, st, spec):
        c = self.ev(e.test, st, spec)
        cb = self.const_bool(c)
        if cb is not None and not z3.is_expr(c):
            return self.ev(e.body if cb else e.orelse, st, spec)
        c = self.to_bool(c)
        s1 = st.copy(); s1.assume(c)
        s2 = st.copy(); s2.assume(z3.Not(c))
        a = self.ev(e.body, s1, spec)
        b = self.ev(e.orelse, s2, spec)
        if self.is_float(a) or self.is_float(b):
            return z3.If(c, self.to_float(a), self.to_float(b))
        if (z3.is_expr(a) and z3.is_bool(a)) or isinstance(a, bool) and isinstance(b, bool):
            return z3.If(c, self.to_bool(a), self.to_bool(b))
        return z3.If(c, self.to_int(a), self.to_int(b))

    def ev_Subscript(self, e, st, spec):
        base = self.ev(e.value, st, spec)
        sl = e.slice
        if isinstance(base, PyObj) and base.getitem is not None:
            return base.getitem(self, e, st, spec)
        if isinstance(base, tuple):
            i = self.ev(sl, st, spec)
            if isinstance(i, int):
                return base[i]
            raise Unsupported("symbolic tuple index")
        if isinstance(base, Arr):
            if isinstance(sl, ast.Slice):
                return self.arr_slice(base, sl, st, spec)
            if isinstance(sl, ast.Tuple):
                if self._is_rowwise(sl):
                    return self.arr_read(st, base, [st.env["row__"], self.ev(sl.elts[1], st, spec)], e, spec)
                if any(isinstance(x, ast.Slice) for x in sl.elts):
                    raise Unsupported("mixed slice index")
                idx = [self.ev(x, st, spec) for x in sl.elts]
            else:
                idx = [self.ev(sl, st, spec)]
            return self.arr_read(st, base, idx, e, spec)
        if isinstance(base, PyList):
            if isinstance(sl, ast.Slice):
                raise Unsupported("list slice")
            i = self.to_int(self.ev(sl, st, spec))
            if not spec:
                self.oblige(st, z3.And(i >= 0, i < base.length), "bounds@L%s" % e.lineno, "bounds", e)
            return z3.Select(base.term, i)
        raise Unsupported("subscript of %r" % (type(base).__name__,))

    def _is_rowwise(self, sl):
        """`X[:, e]` under the row-wise (generic row) abstraction of elementwise NumPy code"""
        if not getattr(self.c, "rowwise", False) or len(sl.elts) != 2:
            return False
        s0 = sl.elts[0]
        return isinstance(s0, ast.Slice) and s0.lower is None and s0.upper is None and s0.step is None \
            and not isinstance(sl.elts[1], ast.Slice)

    def arr_slice(self, a, sl, st, spec):
        if sl.step is not None:
            raise Unsupported("slice step")
        n = a.shape[0]
        lo = self.slice_clamp(self.ev(sl.lower, st, spec) if sl.lower else None, n, z3.IntVal(0))
        hi = self.slice_clamp(self.ev(sl.upper, st, spec) if sl.upper else None, n, n)
        ln = z3.If(hi - lo < 0, 0, hi - lo)
        return Arr(a.term, (z3.simplify(ln),) + a.shape[1:], a.elem, off=z3.simplify(a.off + lo))

    def ev_Attribute(self, e, st, spec):
        base = self.ev(e.value, st, spec) if not (isinstance(e.value, ast.Name) and e.value.id in ("np", "math")) else None
        if isinstance(base, Arr):
            if e.attr == "size" and base.ndim == 1:
                return base.shape[0]
            if e.attr == "shape":
                return tuple(base.shape)
            if e.attr == "ndim":
                return base.ndim
        if base is None and e.attr in ("int64", "float64", "nan", "inf", "pi"):
            return ("np." + e.attr)
        if isinstance(base, PyObj) and e.attr in base.attrs:
            return base.attrs[e.attr]
        raise Unsupported("attribute %s" % e.attr)

    def ev_Call(self, e, st, spec):
        fn = e.func
        name = ast.unparse(fn)
        args = e.args
        if spec:
            if name == "forall" or name == "exists":
                # forall(i, lo, hi, P)  /  forall((i,j), lo, hi, P)
                vars_ = args[0].elts if isinstance(args[0], ast.Tuple) else [args[0]]
                lo = self.to_int(self.ev(args[1], st, True))
                hi = self.to_int(self.ev(args[2], st, True))
                bs = [z3.Int("q_%s!%d" % (v.id, next(self.fresh_n))) for v in vars_]
                st2 = st.copy()
                for v, b in zip(vars_, bs):
                    st2.env[v.id] = b
                body = self.to_bool(self.ev(args[3], st2, True))
                guard = z3.And(*[z3.And(lo <= b, b < hi) for b in bs])
                if name == "forall":
                    return z3.ForAll(bs, z3.Implies(guard, body))
                return z3.Exists(bs, z3.And(guard, body))
            if name == "implies":
                a = self.to_bool(self.ev(args[0], st, True))
                st2 = st.copy(); st2.assume(a)
                return z3.Implies(a, self.to_bool(self.ev(args[1], st2, True)))
            if name == "old":
                return self.ev(args[0], self.entry, True)
            if name == "ite":
                c = self.to_bool(self.ev(args[0], st, True))
                a, b = self.ev(args[1], st, True), self.ev(args[2], st, True)
                if self.is_float(a) or self.is_float(b):
                    return z3.If(c, self.to_float(a), self.to_float(b))
                return z3.If(c, self.to_int(a), self.to_int(b))
        if name in self.extra_builtins:
            return self.extra_builtins[name](self, e, st, spec)
        if name in self.inline_fns:
            fnode = self.inline_fns[name]
            return self._inline(name, [x.arg for x in fnode.args.args], fnode.body, e, st, spec)
        if isinstance(fn, ast.Name) and isinstance(st.env.get(fn.id), PyObj) and st.env[fn.id].call is not None:
            return st.env[fn.id].call(self, e, st, spec)
        if isinstance(fn, ast.Attribute) and not (isinstance(fn.value, ast.Name) and fn.value.id in ("np", "math", "struct")):
            try:
                base = self.ev(fn.value, st, spec)
            except Unsupported:
                base = None
            if isinstance(base, PyObj) and fn.attr in base.methods:
                return base.methods[fn.attr](self, e, st, spec)
            if isinstance(base, PyObj) and isinstance(base.attrs.get(fn.attr), PyObj) and base.attrs[fn.attr].call is not None:
                return base.attrs[fn.attr].call(self, e, st, spec)
        if name in ("abs", "np.abs", "np.absolute", "np.fabs", "math.fabs") and len(args) == 1:
            v = self.ev(args[0], st, spec)
            if isinstance(v, (int, float)):
                return abs(v)
            if self.is_float(v):
                return z3.If(v >= 0, v, -v) if self.c.floats == "real" else _fabs(v)
            v = self.to_int(v)
            return z3.If(v >= 0, v, -v)
        if name == "len":
            v = self.ev(args[0], st, spec)
            if isinstance(v, Arr):
                return v.shape[0]
            if isinstance(v, PyList):
                return v.length
            if isinstance(v, (tuple, str)):
                return len(v)
            raise Unsupported("len of %r" % type(v).__name__)
        if name in ("min", "max") and len(args) == 2:
            a, b = self.ev(args[0], st, spec), self.ev(args[1], st, spec)
            if isinstance(a, (int, float)) and isinstance(b, (int, float)):
                return min(a, b) if name == "min" else max(a, b)
            c = self.compare(ast.LtE() if name == "min" else ast.GtE(), a, b)
            if self.is_float(a) or self.is_float(b):
                return z3.If(c, self.to_float(a), self.to_float(b))
            return z3.If(c, self.to_int(a), self.to_int(b))
        if name == "np.empty_like" and len(args) == 1 and not e.keywords:
            v = self.ev(args[0], st, spec)
            if isinstance(v, Arr):
                self.drop("np.empty_like: element type of the new array follows the argument (the contract's element kind; machine dtypes are not modelled)")
                return self.fresh_arr("empty_like", v.shape, v.elem)
            raise Unsupported("np.empty_like of non-array")
        if name in ("np.empty", "np.zeros"):
            shp = self.ev(args[0], st, spec)
            shp = shp if isinstance(shp, tuple) else (shp,)
            shp = tuple(self.to_int(s) for s in shp)
            elem = "float"
            for a in list(args[1:]) + [k.value for k in e.keywords if k.arg == "dtype"]:
                d = ast.unparse(a)
                if "int" in d:
                    elem = "int"
                elif "bool" in d:
                    elem = "bool"
            self.drop("dtype/order arguments of allocation")
            for s in shp:
                self.oblige(st, s >= 0, "alloc-nonneg@L%s" % e.lineno, "bounds", e)
            a = self.fresh_arr(name.split(".")[1], shp, elem)
            if name == "np.zeros":
                zero = {"int": z3.IntVal(0), "float": self.fconst(0.0), "bool": z3.BoolVal(False)}[elem]
                s = self.elem_sort(elem)
                t = z3.K(z3.IntSort(), zero)
                for _ in shp[1:]:
                    t = z3.K(z3.IntSort(), t)
                a = a.with_(term=t)
            return a
        if name == "int" and len(args) == 1:
            v = self.ev(args[0], st, spec)
            if isinstance(v, (int, float)):
                return int(v)
            if z3.is_expr(v) and z3.is_int(v):
                return v
            raise Unsupported("int() of non-int")
        if name == "SLICE_TO":
            return ("slice_to", self.ev(args[0], st, spec))
        if name == "slice_len":
            sl = self.ev(args[0], st, spec)
            n = self.to_int(self.ev(args[1], st, spec))
            return z3.simplify(self.slice_clamp(sl[1], n, n))
        if name == "np.atleast_1d":
            v = self.ev(args[0], st, spec)
            if isinstance(v, Arr):
                self.drop("np.atleast_1d on an array (identity)")
                return v
            raise Unsupported("np.atleast_1d of non-array")
        if name in self.callees:
            return self.call_contract(name, e, st)
        raise Unsupported("call %s at line %s" % (name, e.lineno))

    def call_contract(self, name, e, st):
        """Modular call: assert callee requires, havoc result, assume callee ensures."""
        cc = self.callees[name]
        argv = [self.ev(a, st) for a in e.args]
        return cc(self, st, argv, e)

    # ------------------------------------------------------------------ statements
    # outcomes: list of (kind, state, payload) with kind in normal|break|continue|return|raise
    def exec_block(self, stmts, st):
        outs = []
        cur = [st]
        for s in stmts:
            nxt = []
            for c in cur:
                for kind, s2, pay in self.exec_stmt(s, c):
                    if kind == "normal":
                        nxt.append(s2)
                    else:
                        outs.append((kind, s2, pay))
            cur = nxt
            if not cur:
                break
        outs += [("normal", c, None) for c in cur]
        return outs

    def exec_stmt(self, s, st):
        m = getattr(self, "st_" + type(s).__name__, None)
        if m is None:
            raise Unsupported("statement %s at line %s" % (type(s).__name__, s.lineno))
        outs = m(s, st)
        # ghost hooks keyed by statement text
        if self.c.hooks and not isinstance(s, (ast.If, ast.For, ast.While)):
            src = ast.unparse(s)
            for pat, code, occ in self.c.hooks:
                if pat == src and (occ is None or self.stmt_occ.get(id(s)) == occ):
                    if id(s) not in self.hook_hits.setdefault((pat, occ), set()):
                        self.hook_hits[(pat, occ)].add(id(s))
                    new = []
                    for kind, s2, pay in outs:
                        if kind != "normal":
                            new.append((kind, s2, pay))
                            continue
                        gst = ast.parse("\n".join(code)).body
                        new += self.exec_block(gst, s2)
                    outs = new
        return outs

    def st_Expr(self, s, st):
        if isinstance(s.value, ast.Constant):
            self.drop("docstring/constant expression")
            return [("normal", st, None)]
        if isinstance(s.value, ast.Call):
            nm = ast.unparse(s.value.func)
            if nm in ("warnings.warn", "print"):
                self.drop(nm)
                return [("normal", st, None)]
            if nm in self.extra_builtins:
                st = st.copy()
                self.extra_builtins[nm](self, s.value, st, False)
                return [("normal", st, None)]
            if getattr(self.c, "objects", False):
                st = st.copy()
                self.ev(s.value, st)          # a call on a contract object (PyObj): evaluated for its effect on the ghost state
                return [("normal", st, None)]
        raise Unsupported("expression statement %s at line %s" % (ast.unparse(s)[:40], s.lineno))

    def st_Pass(self, s, st):
        return [("normal", st, None)]

    def st_Assert(self, s, st):
        g = self.ev(s.test, st, True)
        self.oblige(st, self.to_bool(g), "ghost-assert@%s" % ast.unparse(s.test)[:50], "assert", s)
        st = st.copy()
        st.assume(self.to_bool(g))
        return [("normal", st, None)]

    def assign_to(self, t, val, st, node):
        if isinstance(t, ast.Name):
            if isinstance(val, Arr) and isinstance(node, ast.Assign) and isinstance(node.value, ast.Name):
                if t.id in self.stored_names or node.value.id in self.stored_names:
                    raise Unsupported("array aliasing assignment %s at line %s" % (ast.unparse(node), node.lineno))
            st.env[t.id] = val
        elif isinstance(t, (ast.Tuple, ast.List)):
            if not isinstance(val, tuple) or len(val) != len(t.elts):
                raise Unsupported("tuple unpack")
            for te, v in zip(t.elts, val):
                self.assign_to(te, v, st, node)
        elif isinstance(t, ast.Subscript) and isinstance(t.value, ast.Name):
            base = st.env.get(t.value.id)
            if isinstance(base, PyObj) and base.setitem is not None:
                base.setitem(self, t, val, st)
                return None
            if isinstance(base, Arr):
                sl = t.slice
                if isinstance(sl, ast.Slice):
                    raise Unsupported("slice store")
                if isinstance(sl, ast.Tuple) and self._is_rowwise(sl):
                    idx = [st.env["row__"], self.ev(sl.elts[1], st)]
                else:
                    idx = [self.ev(x, st) for x in sl.elts] if isinstance(sl, ast.Tuple) else [self.ev(sl, st)]
                st.env[t.value.id] = self.arr_store(st, base, idx, val, t)
                if t.value.id in self.c.shadows:
                    g, srcname = self.c.shadows[t.value.id]
                    rhs = getattr(node, "value", None)
                    ok = isinstance(node, ast.Assign) and isinstance(rhs, ast.Subscript) and isinstance(rhs.value, ast.Name) \
                        and not isinstance(rhs.slice, (ast.Slice, ast.Tuple))
                    if ok and rhs.value.id == t.value.id:
                        gv = self.arr_read(st, st.env[g], [self.ev(rhs.slice, st, True)], rhs, True)
                    elif ok and rhs.value.id == srcname:
                        gv = self.ev(rhs.slice, st, True)
                    else:
                        raise BindError("store into shadowed array %s from an untracked source: %s" % (t.value.id, ast.unparse(node)))
                    self.quiet += 1
                    try:
                        st.env[g] = self.arr_store(st, st.env[g], idx, gv, t)
                    finally:
                        self.quiet -= 1
                for an, code in self.c.store_hooks:
                    if an == t.value.id:
                        st.env["idx0"] = self.to_int(idx[0])
                        if len(idx) > 1:
                            st.env["idx1"] = self.to_int(idx[1])
                        st.env["value"] = val if z3.is_expr(val) else (self.to_float(val) if base.elem == "float" else self.to_int(val))
                        return ast.parse("\n".join(code)).body
            else:
                raise Unsupported("store into %s" % type(base).__name__)
        elif isinstance(t, ast.Attribute):
            base = self.ev(t.value, st)
            if isinstance(base, PyObj) and base.setattr is not None:
                base.setattr(self, t, val, st)
                return None
            raise Unsupported("attribute store %s at line %s" % (ast.unparse(t), node.lineno))
        else:
            raise Unsupported("assignment target %s" % type(t).__name__)
        return None

    def _inline(self, fname, params, body, e, cst, spec, single_exit=True):
        """execute `body` with `params` bound to the call's positional arguments, in the caller's state (ghost variables persist, locals are restored)"""
        if e.keywords or len(e.args) != len(params) or any(isinstance(x, ast.Starred) for x in e.args):
            raise Unsupported("inlined call of %s: arguments" % fname)
        vals = [self.ev(x, cst, spec) for x in e.args]
        local = set(params) | assigned_names(body)
        keep = set(getattr(self.c, "extra_mods", ())) | {g for g, _, _ in self.c.ghosts}
        local -= keep
        saved = {k: cst.env[k] for k in local if k in cst.env}
        inner = cst.copy()
        for k, v in zip(params, vals):
            inner.env[k] = v
        outs = self.exec_block(body, inner)
        outs = [o for o in outs if not any(z3.is_false(f) for f in o[1].pc)]
        if len(outs) != 1 or outs[0][0] not in ("normal", "return"):
            raise Unsupported("inlined call of %s: %d exits (%s)" % (fname, len(outs), [o[0] for o in outs]))
        kind, o, pay = outs[0]
        env = dict(o.env)
        for k in local:
            env.pop(k, None)
        env.update(saved)
        cst.env.clear(); cst.env.update(env)
        cst.pc[:] = o.pc
        return pay if kind == "return" else None

    def st_FunctionDef(self, s, st):
        """a nested helper: bound to a closure object that is INLINED at each call (positional parameters only; one exit).
        Free variables are read from the state at the call (Python closures read the enclosing scope at call time as well)."""
        a = s.args
        if a.vararg or a.kwarg or a.kwonlyargs or a.defaults or a.posonlyargs:
            raise Unsupported("nested function %s: only plain positional parameters" % s.name)
        params = [x.arg for x in a.args]
        eng = self

        def call(eng_, e, cst, spec):
            return eng._inline(s.name, params, s.body, e, cst, spec)

        st = st.copy()
        st.env[s.name] = PyObj("closure %s" % s.name, call=call)
        return [("normal", st, None)]

    def st_Assign(self, s, st):
        st = st.copy()
        val = self.ev(s.value, st)
        ghost = []
        for t in s.targets:
            g = self.assign_to(t, val, st, s)
            if g:
                ghost += g
        if ghost:
            return self.exec_block(ghost, st)
        return [("normal", st, None)]

    def st_AugAssign(self, s, st):
        st = st.copy()
        cur = self.ev(s.target, st)
        val = self.arith(s.op, cur, self.ev(s.value, st), s)
        g = self.assign_to(s.target, val, st, s)
        if g:
            return self.exec_block(g, st)
        return [("normal", st, None)]

    def st_If(self, s, st):
        c = self.ev(s.test, st)
        cb = self.const_bool(c)
        if cb is not None:
            return self.exec_block(s.body if cb else s.orelse, st)
        c = self.to_bool(c)
        outs = []
        if self.feasible(st, c):
            s1 = st.copy(); s1.assume(c)
            outs += self.exec_block(s.body, s1)
        if self.feasible(st, z3.Not(c)):
            s2 = st.copy(); s2.assume(z3.Not(c))
            outs += self.exec_block(s.orelse, s2)
        return outs

    def feasible(self, st, cond):
        """path pruning: False only if the quantifier-free part of the path condition refutes `cond`"""
        sol = z3.Solver()
        sol.set("timeout", 300)
        for f in st.pc:
            if not _has_quant(f):
                sol.add(f)
        sol.add(cond)
        r = sol.check() != z3.unsat
        if not r:
            self.pruned += 1
        return r

    def st_Break(self, s, st):
        return [("break", st, None)]

    def st_Continue(self, s, st):
        return [("continue", st, None)]

    def st_Return(self, s, st):
        v = self.ev(s.value, st) if s.value is not None else None
        return [("return", st, v)]

    def st_Raise(self, s, st):
        exc = s.exc
        nm = ast.unparse(exc.func) if isinstance(exc, ast.Call) else ast.unparse(exc) if exc else "reraise"
        self.drop("exception message")
        return [("raise", st, nm)]

    # loops ------------------------------------------------------------
    def havoc(self, st, names):
        for n in sorted(names):
            v = st.env.get(n)
            if v is None:
                continue
            if isinstance(v, Arr):
                st.env[n] = self.fresh_arr(n, v.shape, v.elem)
            elif isinstance(v, PyList):
                st.env[n] = PyList(self.fresh(n, v.term.sort()), self.fresh(n + "_len", z3.IntSort()), v.elem)
                st.assume(st.env[n].length >= 0)
            elif isinstance(v, PyObj) and getattr(v, "transient", False):
                del st.env[n]       # a value object built inside the loop: unknown at the loop head (a read before its assignment is then reported as unsupported)
            elif isinstance(v, (PyObj, tuple, str)) or v is None:
                continue            # contract objects / constants: immutable in this model
            elif z3.is_expr(v):
                st.env[n] = self.fresh(n, v.sort())
            elif isinstance(v, bool):
                st.env[n] = self.fresh(n, z3.BoolSort())
            elif isinstance(v, int):
                st.env[n] = self.fresh(n, z3.IntSort())
            elif isinstance(v, float):
                st.env[n] = self.fresh(n, self.fsort())
            else:
                raise Unsupported("cannot havoc %s (%s)" % (n, type(v).__name__))

    def loop_spec(self, node):
        lid = self.loop_ids[id(node)]
        if lid not in self.c.loops:
            raise BindError("no invariant for loop %s (line %s) of %s" % (lid, node.lineno, self.c.qualname))
        return lid, self.c.loops[lid]

    def check_inv(self, st, spec, lid, phase, node):
        for k, inv in enumerate(spec["invariant"]):
            g = self.to_bool(self.ev(ast.parse(inv, mode="eval").body, st, True))
            self.oblige(st, g, "loop%s.inv%d.%s" % (lid, k, phase), "inv-" + phase, node)

    def assume_inv(self, st, spec):
        for inv in spec["invariant"]:
            st.assume(self.to_bool(self.ev(ast.parse(inv, mode="eval").body, st, True)))
        for d in spec.get("unfold", ()):
            st.assume(self.to_bool(self.ev(ast.parse(d, mode="eval").body, st, True)))

    def st_While(self, s, st):
        lid, spec = self.loop_spec(s)
        self.check_inv(st, spec, lid, "init", s)
        mods = assigned_names(s.body) | self.ghost_mods(s.body) | set(getattr(self.c, "extra_mods", ()))
        h = st.copy()
        self.havoc(h, mods)
        self.assume_inv(h, spec)
        cond = self.ev(s.test, h)
        condb = self.to_bool(cond)
        body_st = h.copy(); body_st.assume(condb)
        self.canary(body_st, "loop%s.body-reachable" % lid, s)
        v0 = None
        if spec["decreases"]:
            v0 = self.to_int(self.ev(ast.parse(spec["decreases"], mode="eval").body, body_st, True))
        outs = []
        real_outs = self.exec_block(s.body, body_st)
        self.check_refines(lid, s, body_st, real_outs)
        for kind, s2, pay in real_outs:
            if kind in ("normal", "continue"):
                self.check_inv(s2, spec, lid, "pres", s)
                if v0 is not None:
                    v1 = self.to_int(self.ev(ast.parse(spec["decreases"], mode="eval").body, s2, True))
                    self.oblige(s2, z3.And(v0 >= 0, v1 < v0), "loop%s.variant" % lid, "variant", s)
            elif kind == "break":
                outs.append(("normal", s2, None))
            else:
                outs.append((kind, s2, pay))
        ex = h.copy(); ex.assume(z3.Not(condb))
        if s.orelse:
            outs += self.exec_block(s.orelse, ex)
        else:
            outs.append(("normal", ex, None))
        return outs

    def ghost_mods(self, body):
        out = set()
        srcs = {ast.unparse(x) for b in body for x in ast.walk(b) if isinstance(x, ast.stmt)}
        for pat, code, occ in self.c.hooks:
            if pat in srcs:
                out |= assigned_names(ast.parse("\n".join(code)).body)
        stored = assigned_names(body)
        for an, (g, src_) in self.c.shadows.items():
            if an in stored:
                out.add(g)
        for an, code in self.c.store_hooks:
            if an in stored:
                out |= assigned_names(ast.parse("\n".join(code)).body)
        return out

    def st_For(self, s, st):
        lid, spec = self.loop_spec(s)
        it = s.iter
        rows_of = None
        if isinstance(it, ast.Call) and ast.unparse(it.func) == "range" and isinstance(s.target, ast.Name):
            ra = [self.to_int(self.ev(a, st)) for a in it.args]
            if len(ra) == 1:
                lo, hi, step = z3.IntVal(0), ra[0], 1
            elif len(ra) == 2:
                lo, hi, step = ra[0], ra[1], 1
            else:
                raise Unsupported("range with step")
            tgt = s.target.id
        else:
            obj = self.ev(it, st)
            if not (isinstance(obj, PyObj) and getattr(obj, "iter_rows", None) is not None):
                raise Unsupported("for over %s at line %s" % (ast.unparse(it)[:30], s.lineno))
            n_rows, rows_of = obj.iter_rows          # iteration over the rows of a contract object: k = 0 .. n-1, target(s) = rows_of(k)
            lo, hi = z3.IntVal(0), n_rows
            names = [s.target.id] if isinstance(s.target, ast.Name) else [x.id for x in s.target.elts]
            tgt = names[0]
        nx = "nx_" + tgt
        st = st.copy()
        st.env[nx] = lo
        if tgt not in st.env:
            st.env[tgt] = self.fresh(tgt, z3.IntSort())
        self.check_inv(st, spec, lid, "init", s)
        mods = assigned_names(s.body) | self.ghost_mods(s.body) | {tgt, nx} | set(getattr(self.c, "extra_mods", ()))
        h = st.copy()
        self.havoc(h, mods)
        h.assume(h.env[nx] >= lo)
        self.assume_inv(h, spec)
        body_st = h.copy()
        body_st.assume(body_st.env[nx] < hi)
        if rows_of is None:
            body_st.env[tgt] = body_st.env[nx]
        else:
            for nm_, v_ in zip(names, rows_of(body_st.env[nx])):
                body_st.env[nm_] = v_
        cur = body_st.env[nx]
        self.canary(body_st, "loop%s.body-reachable" % lid, s)
        outs = []
        real_outs = self.exec_block(s.body, body_st)
        self.check_refines(lid, s, body_st, real_outs)
        for kind, s2, pay in real_outs:
            if kind in ("normal", "continue"):
                s2 = s2.copy()
                s2.env[nx] = cur + 1
                self.check_inv(s2, spec, lid, "pres", s)
            elif kind == "break":
                outs.append(("normal", s2, None))
            else:
                outs.append((kind, s2, pay))
        ex = h.copy()
        ex.assume(ex.env[nx] >= hi)
        if s.orelse:
            outs += self.exec_block(s.orelse, ex)
        else:
            outs.append(("normal", ex, None))
        return outs

    def check_refines(self, lid, node, body_st, real_outs):
        rf = self.c.refines_.get(lid)
        if rf is None:
            return
        spec_stmts = ast.parse(rf["spec"]).body
        if rf["prefix_only"]:
            pre = []
            for b in node.body:
                if isinstance(b, (ast.For, ast.While)):
                    break
                pre.append(b)
            self.quiet += 1
            try:
                real_outs = self.exec_block(pre, body_st.copy())
            finally:
                self.quiet -= 1
        self.quiet += 1
        try:
            spec_outs = self.exec_block(spec_stmts, body_st.copy())
        finally:
            self.quiet -= 1
        npc = len(body_st.pc)
        for (rk, rs, rp), (sk, ss, sp) in itertools.product(real_outs, spec_outs):
            rk = "normal" if rk == "continue" else rk
            sk = "normal" if sk == "continue" else sk
            m = State(dict(rs.env), list(rs.pc) + list(ss.pc[npc:]))
            for k, v in ss.env.items():
                m.env[k + "_s"] = v
            if rk != sk:
                self.oblige(m, z3.BoolVal(False), "loop%s.refines.exit-kind(%s vs spec %s)" % (lid, rk, sk), "refine", node)
                continue
            if rk in ("return", "raise"):
                continue
            for k, cexp in enumerate(rf["coupling"]):
                g = self.to_bool(self.ev(ast.parse(cexp, mode="eval").body, m, True))
                self.oblige(m, g, "loop%s.refines.c%d(%s)" % (lid, k, rk), "refine", node)

    def canary(self, st, name, node):
        full = "%s::canary.%s" % (self.c.qualname, name)
        self.obls.append(Obligation(full, list(st.pc), z3.BoolVal(False), kind="canary", expect="sat",
                                    where="%s:%s" % (self.filename, getattr(node, "lineno", "?"))))

    # ------------------------------------------------------------------ driver
    def make_param(self, name, typ):
        if typ == "int":
            return z3.Int(name)
        if typ == "bool":
            return z3.Bool(name)
        if typ == "float":
            return z3.Const(name, self.fsort())
        if typ in ("farray", "iarray", "barray"):
            elem = {"f": "float", "i": "int", "b": "bool"}[typ[0]]
            a = Arr(z3.Const(name, z3.ArraySort(z3.IntSort(), self.elem_sort(elem))), (z3.Int("len_" + name),), elem)
            return a
        if typ in ("farray2", "iarray2"):
            elem = {"f": "float", "i": "int"}[typ[0]]
            s = z3.ArraySort(z3.IntSort(), z3.ArraySort(z3.IntSort(), self.elem_sort(elem)))
            return Arr(z3.Const(name, s), (z3.Int("rows_" + name), z3.Int("cols_" + name)), elem)
        if typ in ("ilist", "flist"):
            elem = "int" if typ[0] == "i" else "float"
            return PyList(z3.Const(name, z3.ArraySort(z3.IntSort(), self.elem_sort(elem))), z3.Int("len_" + name), elem)
        if isinstance(typ, tuple) and typ[0] == "const":
            return typ[1]
        raise Unsupported("param type %s" % typ)

    def run(self):
        c = self.c
        st = State()
        argnames = [a.arg for a in self.fn.args.args]
        for a in argnames:
            if a == "self":
                continue
            if a not in c.param_types:
                raise BindError("no type for parameter %s of %s" % (a, c.qualname))
        for a, t in c.param_types.items():
            v = self.make_param(a, t)
            st.env[a] = v
            if isinstance(v, Arr):
                for sdim in v.shape:
                    st.assume(sdim >= 0)
            if isinstance(v, PyList):
                st.assume(v.length >= 0)
        if getattr(c, "rowwise", False):
            st.env["row__"] = z3.Int("row__")
        for r in c.requires_ + c.assumes_:
            st.assume(self.to_bool(self.ev(ast.parse(r, mode="eval").body, st, True)))
        self.quiet += 1
        for g, typ, init in c.ghosts:
            if typ == "intmap":          # ghost map int -> int, unconstrained at entry
                st.env[g] = z3.Const(g + "0", z3.ArraySort(z3.IntSort(), z3.IntSort()))
                continue
            st.env[g] = self.ev(ast.parse(init, mode="eval").body, st, True)
            if isinstance(st.env[g], int):
                st.env[g] = z3.IntVal(st.env[g])
        self.quiet -= 1
        self.entry = st.copy()
        self.canary(st, "entry", self.fn)
        body = self.fn.body
        outs = self.exec_block(body, st)
        nret = 0
        for kind, s2, pay in outs:
            if kind == "normal":
                kind, pay = "return", None
            if kind == "return":
                nret += 1
                s2 = s2.copy()
                s2.env["result"] = pay
                for exc, when in c.raises_:
                    w = self.to_bool(self.ev(ast.parse(when, mode="eval").body, self.entry, True))
                    self.oblige(s2, z3.Not(w), "no-raise.%s" % exc, "post", self.fn)
                for k, en in enumerate(c.ensures_):
                    g = self.to_bool(self.ev(ast.parse(en, mode="eval").body, s2, True))
                    self.oblige(s2, g, "ensures%d" % k, "post", self.fn)
                self.canary(s2, "return%d-reachable" % nret, self.fn)
            elif kind == "raise":
                ok = [w for exc, w in c.raises_ if exc == pay]
                if not ok:
                    self.oblige(s2, z3.BoolVal(False), "unexpected-raise.%s" % pay, "post", self.fn)
                else:
                    w = z3.Or(*[self.to_bool(self.ev(ast.parse(x, mode="eval").body, self.entry, True)) for x in ok])
                    self.oblige(s2, w, "raise-only-when.%s" % pay, "post", self.fn)
            else:
                raise Unsupported("%s outside loop" % kind)
        # hooks must have bound somewhere
        for pat, code, occ in c.hooks:
            hits = len(self.hook_hits.get((pat, occ), ()))
            if hits == 0:
                be = BindError("ghost hook anchor %r (occurrence %s) not found in %s" % (pat, occ, c.qualname))
                ax = self.global_axioms()
                for o in self.obls:
                    o.hyps = ax + o.hyps
                be.obls = [o for o in self.obls if o.kind != "canary"]      # what was generated before the anchor was missed: a FAILED one of these stands on its own
                raise be
        ax = self.global_axioms()
        for o in self.obls:
            o.hyps = ax + o.hyps
        return self.obls
