"""C front end for pyyeti/rainflow/c_rain.c: clang's JSON AST of a function -> Python source text in
the subset vc.symex executes.  Nothing is transcribed by hand; the translation is re-done on every run
from the file in the working tree.

Memory model of the translation (stated in evidence):
  * `T *p = calloc(n, sizeof(T))`      ->  p = np.zeros(n[, np.int64])        (zero-filled, n elements)
  * `PyArray_SimpleNew(2, dims, T)`     ->  <obj>__buf = np.empty(dims_0*dims_1), <obj>__rows, <obj>__cols
  * a pointer that is advanced with ++ (`*rf++ = e`) is an integer offset into the buffer of the
    object it was taken from (`rf = PyArray_DATA(rf_array)` -> rf = 0), every write through it is a
    bounds-checked store:  rf_array__buf[rf] = e ; rf += 1
  * `PyObject_GetItem(obj, PySlice_New(NULL, stop, NULL))` -> row count slice_len(stop, rows), same buffer
  * npy_intp is a mathematical integer PLUS an explicit no-overflow obligation on every index/size
    expression is not generated here: the contract bounds L by the allocation sizes (requires L <= 2**60)
DROPPED (counted in evidence): reference counting (Py_DECREF/Py_XDECREF), free(), the allocation-failure
exits (`if (p == NULL) goto fail;` and the fail: label block), casts, declarations without initialiser,
Py_BuildValue's format string (the result is the tuple of the objects passed).
"""
import json, os, subprocess, sysconfig

PYINC = "/root/.pyenv/versions/3.12.1/include/python3.12"
NPINC = "/venv/lib/python3.12/site-packages/numpy/_core/include"


class CUnsupported(Exception):
    pass


def clang_ast(path, func, undef_fast=False):
    """JSON AST of the definition of `func`.  undef_fast=True removes the line
    `#define USE_FASTER_RAINFLOW_ROUTINE` (the only edit; done on an in-memory copy fed through stdin)."""
    src = open(path).read()
    if undef_fast:
        lines = src.split("\n")
        hits = [i for i, l in enumerate(lines) if l.strip() == "#define USE_FASTER_RAINFLOW_ROUTINE"]
        if len(hits) != 1:
            raise CUnsupported("expected exactly one '#define USE_FASTER_RAINFLOW_ROUTINE' line, found %d" % len(hits))
        lines[hits[0]] = "/* #define USE_FASTER_RAINFLOW_ROUTINE  (removed by vc.cfront for the two-pass variant) */"
        src = "\n".join(lines)
    cmd = ["clang", "-x", "c", "-fsyntax-only", "-Xclang", "-ast-dump=json", "-Xclang", "-ast-dump-filter=" + func,
           "-I" + PYINC, "-I" + NPINC, "-I" + os.path.dirname(path), "-"]
    p = subprocess.run(cmd, input=src, capture_output=True, text=True)
    if p.returncode != 0:
        raise CUnsupported("clang failed: " + p.stderr[-400:])
    txt = p.stdout
    dec = json.JSONDecoder()
    i, docs = 0, []
    while i < len(txt):
        while i < len(txt) and txt[i].isspace():
            i += 1
        if i >= len(txt):
            break
        d, i = dec.raw_decode(txt, i)
        docs.append(d)
    for d in docs:
        if d.get("kind") == "FunctionDecl" and d.get("name") == func and any(c.get("kind") == "CompoundStmt" for c in d.get("inner", [])):
            return d, src
    raise CUnsupported("definition of %s not found" % func)


DROP_CALLS = {"Py_DECREF", "Py_XDECREF", "free", "Py_INCREF", "_Py_DECREF", "_Py_XDECREF"}


class Translator:
    def __init__(self, fn, src=""):
        self.fn = fn
        self.src = src
        self.lines = []
        self.dropped = {}
        self.walkers = {}      # pointer var -> buffer name
        self.objs = {}         # array object var -> True
        self.const_arrays = {}  # name -> size (small int arrays split into scalars)
        self.find_walkers(fn)

    def drop(self, what):
        self.dropped[what] = self.dropped.get(what, 0) + 1

    def find_walkers(self, n):
        if n.get("kind") == "UnaryOperator" and n.get("opcode") in ("++", "--"):
            t = n["inner"][0]
            if t.get("kind") == "DeclRefExpr" and t["type"]["qualType"].endswith("*"):
                self.walkers[t["referencedDecl"]["name"]] = None
        for c in n.get("inner", []):
            self.find_walkers(c)

    # ---------------------------------------------------------------- expressions
    def strip(self, n):
        while n.get("kind") in ("ImplicitCastExpr", "ParenExpr", "CStyleCastExpr"):
            if n.get("kind") == "CStyleCastExpr":
                self.drop("cast")
            n = n["inner"][0]
        return n

    def is_null(self, n):
        n0 = n
        while n0.get("kind") in ("ImplicitCastExpr", "ParenExpr", "CStyleCastExpr"):
            if n0.get("castKind") == "NullToPointer":
                return True
            n0 = n0["inner"][0]
        return False

    def expr(self, n, pre, post):
        if self.is_null(n):
            return "None"
        n = self.strip(n)
        k = n["kind"]
        if k == "IntegerLiteral":
            return n["value"]
        if k == "FloatingLiteral":
            v = n["value"]
            return v if ("." in v or "e" in v.lower()) else v + ".0"
        if k == "DeclRefExpr":
            return n["referencedDecl"]["name"]
        if k == "StringLiteral":
            return repr(n.get("value", ""))
        if k == "ArraySubscriptExpr":
            base, idx = n["inner"]
            b = self.strip(base)
            bname = self.expr(base, pre, post)
            i = self.expr(idx, pre, post)
            if bname in self.const_arrays:
                if not i.isdigit():
                    raise CUnsupported("non-constant index into small array %s" % bname)
                return "%s_%s" % (bname, i)
            if bname in self.walkers:
                return "%s[%s + (%s)]" % (self.walkers[bname], bname, i)
            return "%s[%s]" % (bname, i)
        if k == "UnaryOperator":
            op = n["opcode"]
            sub = n["inner"][0]
            if op in ("++", "--"):
                v = self.expr(sub, pre, post)
                stmt = "%s %s= 1" % (v, "+" if op == "++" else "-")
                if n.get("isPostfix"):
                    post.append(stmt)
                else:
                    pre.append(stmt)
                return v
            if op == "*":
                s = self.strip(sub)
                # *p++  /  *p
                if s["kind"] == "UnaryOperator" and s["opcode"] == "++" and s.get("isPostfix"):
                    p = self.expr(s["inner"][0], pre, post)
                    post.append("%s += 1" % p)
                    return "%s[%s]" % (self.buf_of(p), p)
                p = self.expr(sub, pre, post)
                return "%s[%s]" % (self.buf_of(p), p)
            if op == "-":
                return "(-%s)" % self.expr(sub, pre, post)
            if op == "!":
                return "(not %s)" % self.expr(sub, pre, post)
            raise CUnsupported("unary %s" % op)
        if k == "BinaryOperator":
            op = n["opcode"]
            a = self.expr(n["inner"][0], pre, post)
            b = self.expr(n["inner"][1], pre, post)
            if op == "/":
                ta = n["type"]["qualType"]
                if ta not in ("double", "float"):
                    raise CUnsupported("integer division")
                return "(%s / %s)" % (a, b)
            if op in ("+", "-", "*", "<", "<=", ">", ">=", "==", "!="):
                return "(%s %s %s)" % (a, op, b)
            if op == "||":
                return "(%s or %s)" % (a, b)
            if op == "&&":
                return "(%s and %s)" % (a, b)
            raise CUnsupported("binary %s" % op)
        if k == "CallExpr":
            name = self.callee(n)
            args = n["inner"][1:]
            if name == "fabs":
                return "abs(%s)" % self.expr(args[0], pre, post)
            if name == "PyLong_FromSsize_t":
                return self.expr(args[0], pre, post)
            if name == "PySlice_New":
                a0, a1, a2 = [self.expr(a, pre, post) for a in args]
                if a0 != "None" or a2 != "None":
                    raise CUnsupported("PySlice_New with start/step")
                return "SLICE_TO(%s)" % a1
            if name in ("PyArray_NDIM",):
                return "ndim_%s" % self.expr(args[0], pre, post)
            if name in ("PyArray_DIM",):
                return "dim%s_%s" % (self.expr(args[1], pre, post), self.expr(args[0], pre, post))
            args_s = [self.expr(a, pre, post) for a in args]
            return "%s(%s)" % (name, ", ".join(args_s))
        if k == "UnaryExprOrTypeTraitExpr":
            return "SIZEOF"
        if k == "InitListExpr":
            return "[" + ", ".join(self.expr(c, pre, post) for c in n["inner"]) + "]"
        raise CUnsupported("C expression kind %s" % k)

    def callee(self, n):
        """name of the called function, or of the function-like macro the call was expanded from"""
        f = self.strip(n["inner"][0])
        if f.get("kind") == "DeclRefExpr":
            return f["referencedDecl"]["name"]
        b = n["range"]["begin"]
        if "expansionLoc" in b:
            e = b["expansionLoc"]
            return self.src[e["offset"]:e["offset"] + e["tokLen"]]
        raise CUnsupported("indirect call")

    def buf_of(self, p):
        if p not in self.walkers or self.walkers[p] is None:
            raise CUnsupported("dereference of pointer %s with unknown buffer" % p)
        return self.walkers[p]

    # ---------------------------------------------------------------- statements
    def emit(self, ind, s):
        self.lines.append("    " * ind + s)

    def assign(self, ind, lhs_name, rhs_node, lhs_type):
        """lhs = rhs  where rhs may be one of the modelled API calls"""
        r = self.strip(rhs_node) if not self.is_null(rhs_node) else None
        if r is None:
            self.drop("NULL initialiser")
            return
        if r["kind"] == "CallExpr":
            f = self.callee(r)
            args = r["inner"][1:]
            if f == "PyArray_SimpleNew":      # macro: PyArray_New(&PyArray_Type, nd, dims, typenum, NULL, NULL, 0, 0, NULL)
                args = args[1:4]
            if f == "PyArray_FROM_OTF":       # macro: PyArray_FromAny(obj, descr, 0, 0, flags, NULL)
                self.drop("PyArray_FROM_OTF conversion (assumed value preserving: contiguous double array of the same elements)")
                self.emit(ind, "%s = %s" % (lhs_name, self.expr(args[0], [], [])))
                return
            if f == "calloc":
                n = self.expr(args[0], [], [])
                self.emit(ind, "%s = np.zeros(%s%s)" % (lhs_name, n, "" if "double" in lhs_type else ", np.int64"))
                return
            if f == "malloc":
                # malloc(n * sizeof(T)): n uninitialised elements -> np.empty(n) (every read-before-write would be a read of an unconstrained value in the VCs)
                a0 = args[0]
                while a0.get("kind") in ("ImplicitCastExpr", "ParenExpr", "CStyleCastExpr"):
                    a0 = a0["inner"][0]
                if a0.get("kind") == "BinaryOperator" and a0.get("opcode") == "*":
                    parts = a0["inner"]
                    szs = [q for q in parts if "sizeof" in json.dumps(q)[:4000] and "UnaryExprOrTypeTraitExpr" in json.dumps(q)[:4000]]
                    others = [q for q in parts if q not in szs]
                    if len(szs) == 1 and len(others) == 1:
                        n = self.expr(others[0], [], [])
                        self.emit(ind, "%s = np.empty(%s%s)" % (lhs_name, n, "" if "double" in lhs_type else ", np.int64"))
                        return
                raise CUnsupported("malloc argument is not n * sizeof(T)")
            if f == "PyArray_DATA":
                obj = self.expr(args[0], [], [])
                if lhs_name in self.walkers:
                    self.walkers[lhs_name] = obj + "__buf"
                    self.emit(ind, "%s = 0" % lhs_name)
                else:
                    self.emit(ind, "%s = %s__data" % (lhs_name, obj))
                return
            if f == "PyArray_SimpleNew":
                nd = self.expr(args[0], [], [])
                dims = self.expr(args[1], [], [])
                ty = self.expr(args[2], [], [])
                if nd != "2" or dims not in self.const_arrays:
                    raise CUnsupported("PyArray_SimpleNew shape")
                self.emit(ind, "%s__rows = %s_0" % (lhs_name, dims))
                self.emit(ind, "%s__cols = %s_1" % (lhs_name, dims))
                self.emit(ind, "%s__buf = np.empty(%s_0 * %s_1%s)" % (lhs_name, dims, dims, "" if ty == "NPY_DOUBLE" else ", np.int64"))
                self.objs[lhs_name] = True
                return
            if f == "PyObject_GetItem":
                obj = self.expr(args[0], [], [])
                sl = self.expr(args[1], [], [])
                self.emit(ind, "%s__buf_of = '%s'" % (lhs_name, obj))
                self.emit(ind, "%s__rows = slice_len(%s, %s__rows)" % (lhs_name, sl, obj))
                self.objs[lhs_name] = obj
                return
        pre, post = [], []
        e = self.expr(rhs_node, pre, post)
        for p in pre:
            self.emit(ind, p)
        self.emit(ind, "%s = %s" % (lhs_name, e))
        for p in post:
            self.emit(ind, p)

    def stmt(self, n, ind):
        k = n["kind"]
        if k == "CompoundStmt":
            if not n.get("inner"):
                self.emit(ind, "pass")
            for c in n.get("inner", []):
                self.stmt(c, ind)
            return
        if k == "DeclStmt":
            for v in n["inner"]:
                if v["kind"] != "VarDecl":
                    raise CUnsupported("decl " + v["kind"])
                ty = v["type"]["qualType"]
                if "[" in ty:
                    size = int(ty[ty.index("[") + 1:ty.index("]")])
                    self.const_arrays[v["name"]] = size
                    init = self.strip(v["inner"][0])
                    for i, c in enumerate(init["inner"]):
                        self.emit(ind, "%s_%d = %s" % (v["name"], i, self.expr(c, [], [])))
                    continue
                if "inner" not in v:
                    self.drop("declaration without initialiser")
                    continue
                self.assign(ind, v["name"], v["inner"][0], ty)
            return
        if k == "BinaryOperator" and n["opcode"] == "=":
            lhs = self.strip(n["inner"][0])
            if lhs["kind"] == "DeclRefExpr":
                self.assign(ind, lhs["referencedDecl"]["name"], n["inner"][1], lhs["type"]["qualType"])
                return
            pre, post = [], []
            l = self.expr(n["inner"][0], pre, post)
            r = self.expr(n["inner"][1], pre, post)
            for p in pre:
                self.emit(ind, p)
            self.emit(ind, "%s = %s" % (l, r))
            for p in post:
                self.emit(ind, p)
            return
        if k == "CompoundAssignOperator":
            pre, post = [], []
            l = self.expr(n["inner"][0], pre, post)
            r = self.expr(n["inner"][1], pre, post)
            if pre or post:
                raise CUnsupported("side effect in compound assignment")
            self.emit(ind, "%s %s %s" % (l, n["opcode"], r))
            return
        if k == "UnaryOperator" and n["opcode"] in ("++", "--"):
            v = self.expr(n["inner"][0], [], [])
            self.emit(ind, "%s %s= 1" % (v, "+" if n["opcode"] == "++" else "-"))
            return
        if k == "CallExpr":
            name = self.callee(n)
            if name in DROP_CALLS:
                self.drop(name)
                return
            if name == "PyErr_SetString":
                exc = self.expr(n["inner"][1], [], [])
                self.last_err = exc.replace("PyExc_", "")
                return
            raise CUnsupported("call statement %s" % name)
        if k == "IfStmt":
            cond, then = n["inner"][0], n["inner"][1]
            els = n["inner"][2] if len(n["inner"]) > 2 else None
            # allocation-failure exits are dropped
            if then["kind"] == "GotoStmt" or (then["kind"] == "ReturnStmt" and self.is_null(then["inner"][0]) and self.null_test(cond)):
                if self.null_test(cond):
                    self.drop("allocation/API-failure exit (if (x == NULL) goto fail / return NULL)")
                    return
                raise CUnsupported("goto")
            cs = self.strip(cond)
            if cs["kind"] == "UnaryOperator" and cs["opcode"] == "!" and self.strip(cs["inner"][0])["kind"] == "CallExpr" \
                    and self.callee(self.strip(cs["inner"][0])) == "PyArg_ParseTupleAndKeywords":
                self.drop("argument-parsing failure exit (PyArg_ParseTupleAndKeywords)")
                for a in self.strip(cs["inner"][0])["inner"][1:]:
                    a = self.strip(a)
                    if a.get("kind") == "UnaryOperator" and a.get("opcode") == "&":
                        v = self.expr(a["inner"][0], [], [])
                        self.emit(ind, "%s = ARG_%s" % (v, v))
                return
            pre, post = [], []
            c = self.expr(cond, pre, post)
            if pre or post:
                raise CUnsupported("side effect in condition")
            if c in self.objs:      # if (srf)  -- non-NULL object test: API failure not modelled
                self.drop("API-failure test on object")
                self.stmt(then, ind)
                return
            self.emit(ind, "if %s:" % c)
            m = len(self.lines)
            self.stmt(then, ind + 1)
            if len(self.lines) == m:
                self.emit(ind + 1, "pass")
            if els is not None:
                self.emit(ind, "else:")
                m = len(self.lines)
                self.stmt(els, ind + 1)
                if len(self.lines) == m:
                    self.emit(ind + 1, "pass")
            return
        if k == "WhileStmt":
            pre, post = [], []
            c = self.expr(n["inner"][0], pre, post)
            if pre or post:
                raise CUnsupported("side effect in condition")
            self.emit(ind, "while %s:" % c)
            self.stmt(n["inner"][1], ind + 1)
            return
        if k == "ForStmt":
            init, _, cond, inc, body = n["inner"]
            ok = (init.get("kind") == "BinaryOperator" and init["opcode"] == "=" and
                  cond.get("kind") == "BinaryOperator" and cond["opcode"] == "<" and
                  inc.get("kind") == "UnaryOperator" and inc["opcode"] == "++")
            if not ok:
                raise CUnsupported("non-canonical for loop")
            v = self.expr(init["inner"][0], [], [])
            lo = self.expr(init["inner"][1], [], [])
            cv = self.expr(cond["inner"][0], [], [])
            hi = self.expr(cond["inner"][1], [], [])
            iv = self.expr(inc["inner"][0], [], [])
            if not (v == cv == iv) or self.assigns(body, v) or self.assigns(body, hi):
                raise CUnsupported("for loop variable/bound modified in body")
            self.emit(ind, "for %s in range(%s, %s):" % (v, lo, hi))
            self.stmt(body, ind + 1)
            return
        if k == "BreakStmt":
            self.emit(ind, "break")
            return
        if k == "ReturnStmt":
            r = n["inner"][0]
            if self.is_null(r):
                self.emit(ind, "raise %s()" % getattr(self, "last_err", "CError"))
                return
            r = self.strip(r)
            if r["kind"] == "CallExpr":
                name = self.callee(r)
                args = r["inner"][1:]
                if name == "Py_BuildValue":
                    self.drop("Py_BuildValue format string")
                    parts = []
                    for a in args[1:]:
                        o = self.expr(a, [], [])
                        src = self.objs.get(o)
                        buf = (src if isinstance(src, str) else o) + "__buf"
                        cols = (src if isinstance(src, str) else o) + "__cols"
                        parts.append("(%s, %s__rows, %s)" % (buf, o, cols))
                    self.emit(ind, "return (%s,)" % ", ".join(parts))
                    return
                self.emit(ind, "return %s" % self.expr(r, [], []))
                return
            raise CUnsupported("return of non-call")
        if k == "LabelStmt":
            self.drop("fail: label block (clean-up after allocation failure)")
            self.stop = True
            return
        if k == "NullStmt":
            return
        raise CUnsupported("C statement kind %s" % k)

    def null_test(self, cond):
        c = self.strip(cond)
        if c["kind"] == "BinaryOperator" and c["opcode"] == "||":
            return all(self.null_test(x) for x in c["inner"])
        if c["kind"] == "BinaryOperator" and c["opcode"] == "==":
            return self.is_null(c["inner"][1]) or self.is_null(c["inner"][0])
        return False

    def assigns(self, n, name):
        if n.get("kind") in ("BinaryOperator", "CompoundAssignOperator") and n.get("opcode", "").endswith("=") and n["opcode"] not in ("==", "<=", ">=", "!="):
            l = self.strip(n["inner"][0])
            if l.get("kind") == "DeclRefExpr" and l["referencedDecl"]["name"] == name:
                return True
        if n.get("kind") == "UnaryOperator" and n.get("opcode") in ("++", "--"):
            l = self.strip(n["inner"][0])
            if l.get("kind") == "DeclRefExpr" and l["referencedDecl"]["name"] == name:
                return True
        return any(self.assigns(c, name) for c in n.get("inner", []))

    def translate(self):
        fn = self.fn
        params = [c["name"] for c in fn["inner"] if c["kind"] == "ParmVarDecl"]
        body = [c for c in fn["inner"] if c["kind"] == "CompoundStmt"][0]
        self.emit(0, "def %s(%s):" % (fn["name"], ", ".join(params)))
        self.stop = False
        for st in body["inner"]:
            if self.stop:
                self.drop("statement after fail: label")
                continue
            self.stmt(st, 1)
        return "\n".join(self.lines) + "\n"


def translate_function(path, func, undef_fast=False):
    fn, src = clang_ast(path, func, undef_fast)
    t = Translator(fn, src)
    py = t.translate()
    return py, t.dropped
