"""A fuller NumPy proxy for running repository code on sympy scalars (vc.alg.S): allocation returns object arrays,
predicates that need a machine number (allclose, linalg.cond/norm, isnan, any-comparisons) are answered numerically at the
regime's witness point (concolic) - they select a path, they are not part of a proof obligation."""
import numpy as _np
import sympy as sp
from . import alg, symla


def num(x):
    """numeric value(s) of symbolic scalars/arrays at the current regime's witness"""
    ctx = alg._CTX
    a = _np.asarray(x)
    if a.dtype != object:
        return a.astype(complex) if _np.iscomplexobj(a) else a.astype(float)
    out = _np.empty(a.shape, dtype=complex)
    fo, fx = out.reshape(-1), a.reshape(-1)
    for i in range(fx.size):
        e = alg.expr_of(fx[i])
        if ctx is not None:
            for s_ in e.free_symbols:
                if s_ not in ctx.witness:
                    ctx.witness[s_] = alg.HashRegime.value(s_)
            e = e.xreplace(ctx.witness)
        fo[i] = complex(sp.N(e, 30))
    if _np.all(out.imag == 0):
        return out.real
    return out


class LinalgX:
    def cond(self, x, p=None):
        return _np.linalg.cond(num(x), p)

    def norm(self, x, ord=None, axis=None):
        x = _np.asarray(x)
        if x.dtype == object and (ord is None or ord == 2) and x.ndim == 1 and axis is None:
            return alg.S(sp.sqrt(sum(alg.expr_of(v) ** 2 for v in x)))
        if x.dtype == object and (ord is None or ord == 2) and x.ndim == 2 and axis in (0, 1):
            y = x if axis == 1 else x.T
            return alg.sym_array([sp.sqrt(sum(alg.expr_of(v) ** 2 for v in row)) for row in y])
        return _np.linalg.norm(num(x), ord, axis)

    def solve(self, a, b):
        return symla.solve(a, b)

    def inv(self, a):
        a = _np.asarray(a)
        if a.dtype == object and a.ndim > 2:             # numpy.linalg.inv broadcasts over leading dimensions
            out = _np.empty(a.shape, dtype=object)
            for idx in _np.ndindex(*a.shape[:-2]):
                out[idx] = symla.inv(a[idx])
            return out.view(alg.SymArr)
        return symla.inv(a)

    def det(self, a):
        if _np.asarray(a).dtype != object:
            return _np.linalg.det(a)
        return alg.S(symla.tomat(a).det())


class NPX(alg.NumpyProxy):
    linalg = LinalgX()

    def eye(self, n, m=None, k=0, dtype=float, **kw):
        return self._obj(_np.eye(n, m, k))

    def identity(self, n, dtype=float):
        return self._obj(_np.eye(n))

    def ones(self, shape, dtype=float, order="C"):
        a = _np.ones(shape, dtype)
        return self._obj(a) if _np.issubdtype(a.dtype, _np.floating) else a

    def diag(self, v, k=0):
        v = _np.asarray(v)
        if v.dtype != object:
            return _np.diag(v, k)
        if v.ndim == 1:
            out = self.zeros((v.size, v.size))
            for i in range(v.size):
                out[i, i] = v[i]
            return out
        return _np.array([v[i, i] for i in range(min(v.shape))], dtype=object).view(alg.SymArr)

    def dot(self, a, b):
        a, b = _np.asarray(a), _np.asarray(b)
        if a.dtype != object and b.dtype != object:
            return _np.dot(a, b)
        return _np.dot(a.astype(object), b.astype(object)).view(alg.SymArr)

    def copy(self, a, **k):
        return _np.array(a, dtype=object, copy=True).view(alg.SymArr) if _np.asarray(a).dtype == object else _np.copy(a, **k)

    def allclose(self, x, y, rtol=1e-5, atol=1e-8, **k):
        return bool(_np.allclose(num(x), num(y), rtol=rtol, atol=atol))

    def isnan(self, x):
        a = _np.asarray(x)
        if a.dtype != object:
            return _np.isnan(a)
        return _np.zeros(a.shape, dtype=bool) if a.ndim else False

    def iscomplexobj(self, x):
        a = _np.asarray(x)
        if a.dtype == object:
            return any(alg.expr_of(e).has(sp.I) for e in a.reshape(-1))
        return _np.iscomplexobj(a)

    def cross(self, a, b, **k):
        a, b = _np.asarray(a), _np.asarray(b)
        if a.dtype != object and b.dtype != object:
            return _np.cross(a, b, **k)
        return _np.array([a[1] * b[2] - a[2] * b[1], a[2] * b[0] - a[0] * b[2], a[0] * b[1] - a[1] * b[0]], dtype=object).view(alg.SymArr)

    def _ext(self, a, b, f):
        if isinstance(a, alg.S) or isinstance(b, alg.S):
            return alg.S(f(alg.expr_of(a), alg.expr_of(b)))
        aa, bb = _np.asarray(a), _np.asarray(b)
        if aa.dtype == object or bb.dtype == object:
            bc = _np.broadcast(aa, bb)
            out = _np.empty(bc.shape, dtype=object)
            out.flat = [alg.S(f(alg.expr_of(x), alg.expr_of(y))) for x, y in bc]
            return out.view(alg.SymArr) if bc.shape else out.item()
        return None

    def fmax(self, a, b, **k):
        r = self._ext(a, b, sp.Max)
        return _np.fmax(a, b, **k) if r is None else r

    def fmin(self, a, b, **k):
        r = self._ext(a, b, sp.Min)
        return _np.fmin(a, b, **k) if r is None else r

    def maximum(self, a, b, **k):
        r = self._ext(a, b, sp.Max)
        return _np.maximum(a, b, **k) if r is None else r

    def minimum(self, a, b, **k):
        r = self._ext(a, b, sp.Min)
        return _np.minimum(a, b, **k) if r is None else r

    def arctan2(self, y, x):
        if isinstance(y, alg.S) or isinstance(x, alg.S):
            return alg.S(sp.atan2(alg.expr_of(y), alg.expr_of(x)))
        return _np.arctan2(y, x)

    def hypot(self, a, b):
        if isinstance(a, alg.S) or isinstance(b, alg.S):
            return alg.S(sp.sqrt(alg.expr_of(a) ** 2 + alg.expr_of(b) ** 2))
        return _np.hypot(a, b)
