"""Symbolic execution of straight-line/branching Python string-formatting code taken from the repository's AST.

Purpose: decide properties of the Nastran number formatters of pyyeti/nastran/bulk.py for ALL finite doubles.  The functions are
re-parsed from the working tree on every run and interpreted by `Interp` (no transcription).  Values:

  RealV(expr)   a real number as a z3 Real expression (the input v = sign * m * 10^e with e a CONCRETE decade, 1 <= m < 10 symbolic)
  IntV(expr)    a z3 Int expression
  SStr(pieces)  a string of known LENGTH whose digit characters may be symbolic:  Lit("text") | Digs(val, width) = the decimal
                digits of the z3 Int `val`, zero padded to exactly `width` characters (0 <= val < 10^width)
  anything else is an ordinary Python value and is computed by Python itself.

Assumed contracts (listed in evidence):
  format(v, 'W.Pf')  = sign, the integer N nearest to |v| 10^P written with at least P+1 digits and a '.' before the last P, left padded
                       with blanks to W.  "Nearest" is modelled as |N - |v| 10^P| <= 1/2 (both neighbours allowed on an exact tie).
                       A negative v that rounds to zero still prints '-'.
  format(v, 'W.Pe')  = d.ddd(P digits)e[+-]XX with M = nearest integer to |v| / 10^(E-P), 10^P <= M < 10^(P+1), E the decimal exponent
                       (at least two exponent digits)
  float(text)        = the exact decimal value of a Python float literal (doubles nearest to two different literals of <= 15 significant
                       digits are different); ValueError on text that is not a float literal;  int(text) likewise for integer literals
  round(v)           = an integer R with |R - v| <= 1/2
  str.strip/lstrip/rstrip/replace/split/index/lower, slicing, len, +, '{:>Ws}' and str.format have their Python meaning
Comparisons between symbolic values are decided path by path by the caller-supplied `decide(formula)` (all feasible outcomes explored).
"""
import ast, re
from fractions import Fraction
import z3


class PyRaise(Exception):
    def __init__(self, name, msg=""):
        Exception.__init__(self, "%s: %s" % (name, msg))
        self.name = name


class Unsupported(Exception):
    pass


def rv(x):
    """z3 real constant from a Python number, exactly"""
    if isinstance(x, bool):
        x = int(x)
    if isinstance(x, int):
        return z3.RealVal(x)
    f = Fraction(x)
    return z3.RealVal("%d/%d" % (f.numerator, f.denominator))


class RealV:
    def __init__(self, e):
        self.e = e

    @staticmethod
    def lift(o):
        if isinstance(o, RealV):
            return o
        if isinstance(o, IntV):
            return RealV(z3.ToReal(o.e))
        if isinstance(o, (int, float)) and not isinstance(o, bool):
            return RealV(rv(o))
        return None


class IntV:
    def __init__(self, e):
        self.e = e


class Lit:
    __slots__ = ("t",)

    def __init__(self, t):
        self.t = t

    def __len__(self):
        return len(self.t)


class Digs:
    __slots__ = ("val", "width")

    def __init__(self, val, width):
        self.val, self.width = val, width

    def __len__(self):
        return self.width


_FRESH = [0]


def fresh(prefix, sort="int"):
    _FRESH[0] += 1
    return (z3.Int if sort == "int" else z3.Real)("%s!%d" % (prefix, _FRESH[0]))


class Ctx:
    """holds decide() and the list of side constraints introduced by the contracts (added to the path condition)"""

    def __init__(self, decide, assume):
        self.decide, self.assume = decide, assume


CTX = None


def _norm(pieces):
    out = []
    for p in pieces:
        if len(p) == 0:
            continue
        if isinstance(p, Lit) and out and isinstance(out[-1], Lit):
            out[-1] = Lit(out[-1].t + p.t)
        else:
            out.append(p)
    return out


class SStr:
    def __init__(self, pieces):
        self.p = _norm(pieces)

    @staticmethod
    def lift(o):
        if isinstance(o, SStr):
            return o
        if isinstance(o, str):
            return SStr([Lit(o)])
        return None

    def __len__(self):
        return sum(len(x) for x in self.p)

    def concrete(self):
        return all(isinstance(x, Lit) for x in self.p)

    def text(self):
        """rendering for reports: symbolic digits shown as '#'"""
        return "".join(x.t if isinstance(x, Lit) else "#" * x.width for x in self.p)

    def as_str(self):
        if not self.concrete():
            raise Unsupported("symbolic string used where a concrete one is needed: %r" % self.text())
        return "".join(x.t for x in self.p)

    # -- digit helpers ------------------------------------------------------------------------------
    @staticmethod
    def _split_first(d):
        """Digs -> (first digit Digs(.,1), rest Digs)"""
        if d.width == 1:
            return d, None
        f, r = fresh("d"), fresh("r")
        CTX.assume(z3.And(f >= 0, f <= 9, r >= 0, r < 10 ** (d.width - 1), d.val == f * 10 ** (d.width - 1) + r))
        return Digs(f, 1), Digs(r, d.width - 1)

    @staticmethod
    def _split_last(d):
        if d.width == 1:
            return None, d
        h, l = fresh("h"), fresh("l")
        CTX.assume(z3.And(l >= 0, l <= 9, h >= 0, h < 10 ** (d.width - 1), d.val == h * 10 + l))
        return Digs(h, d.width - 1), Digs(l, 1)

    @staticmethod
    def _split_at(d, k):
        """first k characters / the rest"""
        if k <= 0:
            return None, d
        if k >= d.width:
            return d, None
        h, l = fresh("h"), fresh("l")
        CTX.assume(z3.And(h >= 0, h < 10 ** k, l >= 0, l < 10 ** (d.width - k), d.val == h * 10 ** (d.width - k) + l))
        return Digs(h, k), Digs(l, d.width - k)

    # -- str methods --------------------------------------------------------------------------------
    def lstrip(self, chars=None):
        chars = " \t\n" if chars is None else chars
        ps = list(self.p)
        while ps:
            x = ps[0]
            if isinstance(x, Lit):
                t = x.t.lstrip(chars)
                if t:
                    ps[0] = Lit(t)
                    break
                ps.pop(0)
            else:
                if "0" not in chars:
                    if any(c.isdigit() for c in chars):
                        raise Unsupported("strip of digits other than 0")
                    break
                f, r = self._split_first(x)
                if CTX.decide(f.val == 0):
                    ps.pop(0)
                    if r is not None:
                        ps.insert(0, r)
                else:
                    ps[0:1] = [f] + ([r] if r is not None else [])
                    break
        return SStr(ps)

    def rstrip(self, chars=None):
        chars = " \t\n" if chars is None else chars
        ps = list(self.p)
        while ps:
            x = ps[-1]
            if isinstance(x, Lit):
                t = x.t.rstrip(chars)
                if t:
                    ps[-1] = Lit(t)
                    break
                ps.pop()
            else:
                if "0" not in chars:
                    if any(c.isdigit() for c in chars):
                        raise Unsupported("strip of digits other than 0")
                    break
                h, l = self._split_last(x)
                if CTX.decide(l.val == 0):
                    ps.pop()
                    if h is not None:
                        ps.append(h)
                else:
                    ps[-1:] = ([h] if h is not None else []) + [l]
                    break
        return SStr(ps)

    def strip(self, chars=None):
        return self.lstrip(chars).rstrip(chars)

    def lower(self):
        return SStr([Lit(x.t.lower()) if isinstance(x, Lit) else x for x in self.p])

    def replace(self, old, new):
        if not any(c.isdigit() for c in old):
            return SStr([Lit(x.t.replace(old, new)) if isinstance(x, Lit) else x for x in self.p])
        if old == "-0." and new == "-.":
            ps = list(self.p)
            i = 0
            while i < len(ps) - 2:
                a, b, c = ps[i], ps[i + 1], ps[i + 2]
                if isinstance(a, Lit) and a.t.endswith("-") and isinstance(b, Digs) and isinstance(c, Lit) and c.t.startswith("."):
                    if b.width == 1 and CTX.decide(b.val == 0):
                        ps[i + 1:i + 2] = []
                        continue
                i += 1
            out = SStr(ps)
            return SStr([Lit(x.t.replace(old, new)) if isinstance(x, Lit) else x for x in out.p])
        raise Unsupported("replace(%r, %r) on a symbolic string" % (old, new))

    def split(self, sep):
        if any(c.isdigit() for c in sep):
            raise Unsupported("split on digits")
        out, cur = [], []
        for x in self.p:
            if isinstance(x, Lit):
                parts = x.t.split(sep)
                cur.append(Lit(parts[0]))
                for q in parts[1:]:
                    out.append(SStr(cur))
                    cur = [Lit(q)]
            else:
                cur.append(x)
        out.append(SStr(cur))
        return out

    def index(self, sub):
        if len(sub) != 1 or sub.isdigit():
            raise Unsupported("index(%r)" % sub)
        off = 0
        for x in self.p:
            if isinstance(x, Lit):
                k = x.t.find(sub)
                if k >= 0:
                    return off + k
            off += len(x)
        raise PyRaise("ValueError", "substring not found")

    def contains(self, sub):
        try:
            self.index(sub)
            return True
        except PyRaise:
            return False

    def slice(self, lo, hi):
        n = len(self)
        lo = 0 if lo is None else (max(n + lo, 0) if lo < 0 else min(lo, n))
        hi = n if hi is None else (max(n + hi, 0) if hi < 0 else min(hi, n))
        out, off = [], 0
        for x in self.p:
            a, b = max(lo - off, 0), min(hi - off, len(x))
            if a < b:
                if isinstance(x, Lit):
                    out.append(Lit(x.t[a:b]))
                else:
                    _, r = self._split_at(x, a)
                    m, _ = self._split_at(r, b - a)
                    out.append(m)
            off += len(x)
        return SStr(out)

    def char(self, i):
        return self.slice(i, i + 1)

    def concat(self, o):
        return SStr(self.p + SStr.lift(o).p)

    def pad(self, width, align=">"):
        k = width - len(self)
        if k <= 0:
            return self
        return SStr([Lit(" " * k)] + self.p) if align == ">" else SStr(self.p + [Lit(" " * k)])

    def eq_concrete(self, s):
        if len(self) != len(s):
            return False
        if self.concrete():
            return self.as_str() == s
        # same length with symbolic digits: compare piecewise
        off = 0
        conds = []
        for x in self.p:
            seg = s[off:off + len(x)]
            if isinstance(x, Lit):
                if x.t != seg:
                    return False
            else:
                if not seg.isdigit():
                    return False
                conds.append(x.val == int(seg))
            off += len(x)
        return CTX.decide(z3.And(conds))

    # -- numeric meaning ----------------------------------------------------------------------------

    def shape(self):
        """concrete characters with every symbolic digit shown as '#'"""
        return "".join(x.t if isinstance(x, Lit) else "#" * x.width for x in self.p)

    def parse_number(self, want_int=False):
        """(value as RealV/IntV) of a Python float/int literal, or raise PyRaise('ValueError')"""
        sh = self.shape()
        body = sh.strip()
        m = re.match(r"^([+-]?)([0-9#]*)(\.?)([0-9#]*)(?:[eE]([+-]?)([0-9]+))?$", body)
        if not m or (not m.group(2) and not m.group(4)) or "_" in body:
            raise PyRaise("ValueError", "could not convert string to %s: %r" % ("int" if want_int else "float", self.text()))
        sgn, ip, dot, fp, esg, edg = m.groups()
        if want_int and (dot or fp or edg is not None):
            raise PyRaise("ValueError", "invalid literal for int(): %r" % self.text())
        # digit values: walk the pieces again
        start = len(sh) - len(sh.lstrip()) + len(sgn)
        stripped = self.slice(start, start + len(ip) + len(dot) + len(fp))

        def value_of(sub):
            tot, n = z3.IntVal(0), 0
            for x in sub.p:
                w = len(x)
                tot = tot * 10 ** w + (z3.IntVal(int(x.t)) if isinstance(x, Lit) else x.val)
                n += w
            return tot, n
        ipart = stripped.slice(0, len(ip)) if ip else SStr([])
        fpart = stripped.slice(len(ip) + len(dot), None) if fp else SStr([])
        iv, _ = value_of(ipart) if ip else (z3.IntVal(0), 0)
        fv, nf = value_of(fpart) if fp else (z3.IntVal(0), 0)
        sg = -1 if sgn == "-" else 1
        if want_int:
            return IntV(sg * iv)
        ex = int(edg) * (-1 if esg == "-" else 1) if edg is not None else 0
        val = (z3.ToReal(iv) + z3.ToReal(fv) / (10 ** nf)) * sg
        val = val * rv(Fraction(10) ** ex)
        return RealV(z3.simplify(val))


# ---------------------------------------------------------------------------------------------------------------------
class Input:
    """the symbolic double v = sign * m * 10^e, e concrete"""

    def __init__(self, neg, e):
        self.neg, self.e = neg, e
        self.m = z3.Real("m")
        self.scale = Fraction(10) ** e
        self.abs_e = self.m * rv(self.scale)
        self.v = RealV(-self.abs_e if neg else self.abs_e)
        self.pre = [self.m >= 1, self.m < 10]


def sym_format(val, spec, inp):
    """format(val, spec) for symbolic val"""
    m = re.match(r"^([<>^]?)(\d*)(?:\.(\d+))?([fedsE]?)$", spec)
    if not m:
        raise Unsupported("format spec %r" % spec)
    align, width, prec, kind = m.group(1), int(m.group(2) or 0), m.group(3), m.group(4)
    if isinstance(val, SStr) or isinstance(val, str):
        s = SStr.lift(val)
        if kind not in ("s", ""):
            raise PyRaise("ValueError", "bad format for str")
        return s.pad(width, align or "<")
    if isinstance(val, IntV):
        if kind == "d" or kind == "":
            neg = CTX.decide(val.e < 0)
            a = -val.e if neg else val.e
            nd = 1
            while not CTX.decide(a < 10 ** nd):
                nd += 1
                if nd > 400:
                    raise Unsupported("integer too large")
            return SStr(([Lit("-")] if neg else []) + [Digs(a, nd)]).pad(width, align or ">")
        if kind == "f":
            return sym_format(RealV(z3.ToReal(val.e)), spec, inp)
        raise Unsupported("int format %r" % spec)
    if not isinstance(val, RealV):
        return format(val, spec)
    P = int(prec) if prec is not None else 6
    if kind == "f":
        neg = CTX.decide(val.e < 0)
        a = -val.e if neg else val.e
        N = fresh("N")
        CTX.assume(z3.And(N >= 0, z3.ToReal(N) - rv(Fraction(1, 2)) <= a * 10 ** P, a * 10 ** P <= z3.ToReal(N) + rv(Fraction(1, 2))))
        # number of digits of the integer part (at least one)
        nd = 1
        while not CTX.decide(N < 10 ** (nd + P)):
            nd += 1
            if nd > 400:
                raise Unsupported("number too large")
        if P:
            ip, fp = SStr._split_at(Digs(N, nd + P), nd)
            pieces = [ip, Lit("."), fp]
        else:
            pieces = [Digs(N, nd)]
        return SStr(([Lit("-")] if neg else []) + pieces).pad(width, align or ">")
    if kind == "e":
        neg = CTX.decide(val.e < 0)
        a = -val.e if neg else val.e
        # decimal exponent E of a: 10^E <= a < 10^(E+1): search near the input's decade
        E = inp.e
        while not CTX.decide(a < rv(Fraction(10) ** (E + 1))):
            E += 1
        while not CTX.decide(a >= rv(Fraction(10) ** E)):
            E -= 1
        M = fresh("M")
        sc = Fraction(10) ** (E - P)
        CTX.assume(z3.And(M >= 0, z3.ToReal(M) - rv(Fraction(1, 2)) <= a / rv(sc), a / rv(sc) <= z3.ToReal(M) + rv(Fraction(1, 2))))
        if CTX.decide(M >= 10 ** (P + 1)):           # 9.99..95 rounds up to 10.0..0 -> renormalised by the C library
            CTX.assume(M == 10 ** (P + 1))
            M, E = z3.IntVal(10 ** P), E + 1
        ip, fp = SStr._split_at(Digs(M, P + 1), 1)
        es = "%s%02d" % ("-" if E < 0 else "+", abs(E))
        return SStr(([Lit("-")] if neg else []) + [ip, Lit("."), fp, Lit("e" + es)]).pad(width, align or ">")
    raise Unsupported("float format %r" % spec)


# ---------------------------------------------------------------------------------------------------------------------
class Return(Exception):
    def __init__(self, v):
        self.v = v


class Interp:
    def __init__(self, source, inp):
        self.tree = ast.parse(source)
        self.funcs = {n.name: n for n in self.tree.body if isinstance(n, ast.FunctionDef)}
        self.globals = {}
        for n in self.tree.body:            # module-level constants (literal tuples / numbers / strings)
            if isinstance(n, ast.Assign) and len(n.targets) == 1 and isinstance(n.targets[0], ast.Name):
                try:
                    self.globals[n.targets[0].id] = ast.literal_eval(n.value)
                except Exception:
                    pass
        self.inp = inp
        self.nodes = set()

    def call(self, name, *args):
        fn = self.funcs[name]
        env = {a.arg: v for a, v in zip(fn.args.args, args)}
        for a, d in zip(reversed(fn.args.args), reversed(fn.args.defaults)):
            if a.arg not in env:
                env[a.arg] = ast.literal_eval(d)
        try:
            self.block(fn.body, env)
        except Return as r:
            return r.v
        return None

    def block(self, stmts, env):
        for s in stmts:
            self.stmt(s, env)

    def truth(self, v):
        if isinstance(v, z3.BoolRef):
            return CTX.decide(v)
        if isinstance(v, SStr):
            return len(v) > 0
        if isinstance(v, (RealV, IntV)):
            return CTX.decide(v.e != 0)
        return bool(v)

    def stmt(self, s, env):
        self.nodes.add(type(s).__name__)
        if isinstance(s, ast.Expr):
            if isinstance(s.value, ast.Constant):
                return
            self.ev(s.value, env)
        elif isinstance(s, ast.Assign):
            v = self.ev(s.value, env)
            for t in s.targets:
                self.assign(t, v, env)
        elif isinstance(s, ast.If):
            self.block(s.body if self.truth(self.ev(s.test, env)) else s.orelse, env)
        elif isinstance(s, ast.Return):
            raise Return(self.ev(s.value, env) if s.value is not None else None)
        elif isinstance(s, ast.Try):
            try:
                self.block(s.body, env)
            except PyRaise as ex:
                for h in s.handlers:
                    names = []
                    if h.type is None:
                        names = [ex.name]
                    elif isinstance(h.type, ast.Name):
                        names = [h.type.id]
                    elif isinstance(h.type, ast.Tuple):
                        names = [e.id for e in h.type.elts]
                    if ex.name in names or "Exception" in names:
                        self.block(h.body, env)
                        break
                else:
                    raise
            else:
                self.block(s.orelse, env)
            self.block(s.finalbody, env)
        elif isinstance(s, ast.Raise):
            if s.exc is None:
                raise PyRaise("ValueError", "re-raise")
            nm = s.exc.func.id if isinstance(s.exc, ast.Call) else getattr(s.exc, "id", "Exception")
            raise PyRaise(nm, "raised by the code under test at line %d" % s.lineno)
        elif isinstance(s, ast.Pass):
            pass
        else:
            raise Unsupported("statement %s at line %d" % (type(s).__name__, s.lineno))

    def assign(self, t, v, env):
        if isinstance(t, ast.Name):
            env[t.id] = v
        elif isinstance(t, (ast.Tuple, ast.List)):
            vs = list(v)
            if len(vs) != len(t.elts):
                raise PyRaise("ValueError", "unpack")
            for a, b in zip(t.elts, vs):
                self.assign(a, b, env)
        else:
            raise Unsupported("assignment target %s" % type(t).__name__)

    # ---------------------------------------------------------------------------------------------
    def ev(self, e, env):
        self.nodes.add(type(e).__name__)
        if isinstance(e, ast.Constant):
            return e.value
        if isinstance(e, ast.Name):
            if e.id in env:
                return env[e.id]
            if e.id in ("ValueError", "TypeError"):
                return e.id
            if e.id in self.globals:
                return self.globals[e.id]
            raise Unsupported("name %s" % e.id)
        if isinstance(e, ast.JoinedStr):
            out = SStr([])
            for part in e.values:
                if isinstance(part, ast.Constant):
                    out = out.concat(part.value)
                else:
                    v = self.ev(part.value, env)
                    spec = ""
                    if part.format_spec is not None:
                        sp_ = self.ev(part.format_spec, env)
                        spec = sp_.as_str() if isinstance(sp_, SStr) else sp_
                    if part.conversion not in (-1, 115):
                        raise Unsupported("f-string conversion")
                    out = out.concat(self.fmt(v, spec))
            return out.as_str() if out.concrete() else out
        if isinstance(e, ast.Compare):
            left = self.ev(e.left, env)
            for op, right in zip(e.ops, e.comparators):
                r = self.ev(right, env)
                if not self.truth(self.compare(op, left, r)):
                    return False
                left = r
            return True
        if isinstance(e, ast.BoolOp):
            if isinstance(e.op, ast.And):
                v = True
                for x in e.values:
                    v = self.ev(x, env)
                    if not self.truth(v):
                        return False
                return v
            for x in e.values:
                v = self.ev(x, env)
                if self.truth(v):
                    return v
            return False
        if isinstance(e, ast.UnaryOp):
            v = self.ev(e.operand, env)
            if isinstance(e.op, ast.Not):
                return not self.truth(v)
            if isinstance(e.op, ast.USub):
                return RealV(-v.e) if isinstance(v, RealV) else (IntV(-v.e) if isinstance(v, IntV) else -v)
            raise Unsupported("unary op")
        if isinstance(e, ast.BinOp):
            a, b = self.ev(e.left, env), self.ev(e.right, env)
            return self.binop(e.op, a, b)
        if isinstance(e, ast.Call):
            return self.callexpr(e, env)
        if isinstance(e, ast.Subscript):
            v = self.ev(e.value, env)
            sl = e.slice
            if isinstance(sl, ast.Slice):
                lo = self.ev(sl.lower, env) if sl.lower is not None else None
                hi = self.ev(sl.upper, env) if sl.upper is not None else None
                if sl.step is not None:
                    raise Unsupported("slice step")
                if isinstance(v, SStr):
                    return v.slice(lo, hi)
                return v[lo:hi]
            i = self.ev(sl, env)
            if isinstance(v, SStr):
                if i < 0:
                    i += len(v)
                if not 0 <= i < len(v):
                    raise PyRaise("IndexError", "string index out of range")
                c = v.char(i)
                return c.as_str() if c.concrete() else c
            try:
                return v[i]
            except IndexError:
                raise PyRaise("IndexError", "index out of range")
        if isinstance(e, ast.Tuple):
            return tuple(self.ev(x, env) for x in e.elts)
        if isinstance(e, ast.IfExp):
            return self.ev(e.body if self.truth(self.ev(e.test, env)) else e.orelse, env)
        raise Unsupported("expression %s at line %d" % (type(e).__name__, getattr(e, "lineno", 0)))

    def fmt(self, v, spec):
        if isinstance(v, (RealV, IntV, SStr)):
            return sym_format(v, spec, self.inp)
        return format(v, spec)

    def compare(self, op, a, b):
        sa, sb = isinstance(a, SStr), isinstance(b, SStr)
        if sa or sb:
            if not isinstance(op, (ast.Eq, ast.NotEq)):
                raise Unsupported("ordering of symbolic strings")
            if sa and sb:
                if a.concrete():
                    r = b.eq_concrete(a.as_str())
                elif b.concrete():
                    r = a.eq_concrete(b.as_str())
                else:
                    raise Unsupported("equality of two symbolic strings")
            else:
                s, o = (a, b) if sa else (b, a)
                r = s.eq_concrete(o) if isinstance(o, str) else False
            return r if isinstance(op, ast.Eq) else not r
        ra, rb = RealV.lift(a), RealV.lift(b)
        if isinstance(a, (RealV, IntV)) or isinstance(b, (RealV, IntV)):
            if ra is None or rb is None:
                raise Unsupported("comparison of a number with %r" % type(b if ra is not None else a).__name__)
            x, y = ra.e, rb.e
            return {ast.Lt: x < y, ast.LtE: x <= y, ast.Gt: x > y, ast.GtE: x >= y, ast.Eq: x == y, ast.NotEq: x != y}[type(op)]
        import operator as o_
        return {ast.Lt: o_.lt, ast.LtE: o_.le, ast.Gt: o_.gt, ast.GtE: o_.ge, ast.Eq: o_.eq, ast.NotEq: o_.ne, ast.In: lambda p, q: p in q,
                ast.NotIn: lambda p, q: p not in q, ast.Is: o_.is_, ast.IsNot: o_.is_not}[type(op)](a, b)

    def binop(self, op, a, b):
        if isinstance(a, (SStr, str)) and isinstance(b, (SStr, str)) and isinstance(op, ast.Add):
            r = SStr.lift(a).concat(b)
            return r.as_str() if r.concrete() else r
        if isinstance(a, (RealV, IntV)) or isinstance(b, (RealV, IntV)):
            if isinstance(a, IntV) and isinstance(b, (IntV, int)) or isinstance(b, IntV) and isinstance(a, (IntV, int)):
                x = a.e if isinstance(a, IntV) else z3.IntVal(a)
                y = b.e if isinstance(b, IntV) else z3.IntVal(b)
                if isinstance(op, ast.Add):
                    return IntV(x + y)
                if isinstance(op, ast.Sub):
                    return IntV(x - y)
                if isinstance(op, ast.Mult):
                    return IntV(x * y)
            x, y = RealV.lift(a).e, RealV.lift(b).e
            if isinstance(op, ast.Add):
                return RealV(x + y)
            if isinstance(op, ast.Sub):
                return RealV(x - y)
            if isinstance(op, ast.Mult):
                return RealV(x * y)
            if isinstance(op, ast.Div):
                return RealV(x / y)
            raise Unsupported("arithmetic %s on symbolic numbers" % type(op).__name__)
        import operator as o_
        return {ast.Add: o_.add, ast.Sub: o_.sub, ast.Mult: o_.mul, ast.Div: o_.truediv, ast.FloorDiv: o_.floordiv, ast.Mod: o_.mod, ast.Pow: o_.pow}[type(op)](a, b)

    def callexpr(self, e, env):
        if isinstance(e.func, ast.Attribute) and isinstance(e.func.value, ast.Name) and e.func.value.id == "bisect" and e.func.attr in ("bisect", "bisect_right", "bisect_left"):
            # search of a CONCRETE sorted table for a symbolic value: decided comparison by comparison (each decision is a path split)
            table, x = [self.ev(a, env) for a in e.args]
            if not isinstance(table, (tuple, list)) or any(isinstance(t_, (SStr, RealV, IntV)) for t_ in table):
                raise Unsupported("bisect on a symbolic table")
            if not isinstance(x, (RealV, IntV)):
                import bisect as _b
                return getattr(_b, e.func.attr)(table, x)
            xe = RealV.lift(x).e
            idx = 0
            for t_ in table:
                c_ = (xe > rv(Fraction(t_))) if e.func.attr == "bisect_left" else (xe >= rv(Fraction(t_)))
                if CTX.decide(c_):
                    idx += 1
                else:
                    break
            return idx
        if isinstance(e.func, ast.Attribute):
            obj = self.ev(e.func.value, env)
            args = [self.ev(a, env) for a in e.args]
            meth = e.func.attr
            if isinstance(obj, str) and meth == "format":
                # template.format(value): the template is concrete, e.g. '{:1.4f}' or '{:>8s}'
                m = re.match(r"^\{:([^}]*)\}$", obj)
                if m and len(args) == 1:
                    r = self.fmt(args[0], m.group(1))
                    return r.as_str() if isinstance(r, SStr) and r.concrete() else r
                if all(not isinstance(a, (SStr, RealV, IntV)) for a in args):
                    return obj.format(*args)
                raise Unsupported("str.format template %r" % obj)
            if isinstance(obj, SStr):
                if meth in ("strip", "lstrip", "rstrip"):
                    r = getattr(obj, meth)(*args)
                elif meth == "replace":
                    r = obj.replace(*args)
                elif meth == "split":
                    parts = obj.split(*args)
                    return [p.as_str() if p.concrete() else p for p in parts]
                elif meth == "index":
                    return obj.index(*args)
                elif meth == "lower":
                    r = obj.lower()
                else:
                    raise Unsupported("str method %s" % meth)
                return r.as_str() if r.concrete() else r
            if isinstance(obj, str):
                if any(isinstance(a, SStr) for a in args):
                    raise Unsupported("concrete str method with symbolic argument")
                try:
                    return getattr(obj, meth)(*args)
                except ValueError as ex:
                    raise PyRaise("ValueError", str(ex))
            raise Unsupported("method %s on %s" % (meth, type(obj).__name__))
        name = e.func.id if isinstance(e.func, ast.Name) else None
        args = [self.ev(a, env) for a in e.args]
        if name in self.funcs:
            return self.call(name, *args)
        if name == "len":
            return len(args[0])
        if name == "abs":
            v = args[0]
            if isinstance(v, RealV):
                return RealV(z3.If(v.e >= 0, v.e, -v.e))
            if isinstance(v, IntV):
                return IntV(z3.If(v.e >= 0, v.e, -v.e))
            return abs(v)
        if name == "float":
            v = args[0]
            if isinstance(v, SStr):
                return v.parse_number()
            if isinstance(v, (RealV, IntV)):
                return RealV.lift(v)
            try:
                return float(v)
            except (ValueError, TypeError) as ex:
                raise PyRaise(type(ex).__name__, str(ex))
        if name == "int":
            v = args[0]
            if isinstance(v, SStr):
                return v.parse_number(want_int=True)
            if isinstance(v, IntV):
                return v
            if isinstance(v, RealV):
                # int() truncates towards zero; only used on values that are integers already (round(..))
                raise Unsupported("int() of a symbolic real")
            try:
                return int(v)
            except (ValueError, TypeError) as ex:
                raise PyRaise(type(ex).__name__, str(ex))
        if name == "str":
            v = args[0]
            if isinstance(v, (RealV, IntV)):
                return sym_format(v, "d" if isinstance(v, IntV) else "r", self.inp)
            return str(v)
        if name == "round":
            v = args[0]
            nd = args[1] if len(args) > 1 else None
            if isinstance(v, RealV):
                if nd not in (None, 0):
                    raise Unsupported("round(x, n != 0)")
                R = fresh("R")
                CTX.assume(z3.And(z3.ToReal(R) - rv(Fraction(1, 2)) <= v.e, v.e <= z3.ToReal(R) + rv(Fraction(1, 2))))
                r = IntV(R)
                r.from_round = True
                return r if nd is None else RoundedReal(R)
            return round(*args)
        raise Unsupported("call of %s" % (name or ast.dump(e.func)[:40]))


class RoundedReal(RealV):
    """round(v, 0): a float with an integer value; int() of it is exact"""

    def __init__(self, R):
        RealV.__init__(self, z3.ToReal(R))
        self.R = R


_orig_int = Interp.callexpr


def _callexpr(self, e, env):
    if isinstance(e.func, ast.Name) and e.func.id == "int" and len(e.args) == 1:
        v = self.ev(e.args[0], env)
        if isinstance(v, RoundedReal):
            return IntV(v.R)
        saved = e.args[0]
        # avoid double evaluation: evaluate with the value cached
        e2 = ast.Call(func=e.func, args=[ast.Name(id="__cached__", ctx=ast.Load())], keywords=[])
        env2 = dict(env)
        env2["__cached__"] = v
        return _orig_int(self, e2, env2)
    return _orig_int(self, e, env)


Interp.callexpr = _callexpr
