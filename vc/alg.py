"""Algebra back end: the REAL function object (loaded from the working tree) is executed on *symbolic*
inputs; the closed forms it returns are compared with specification expressions by sympy.

How the real code is run symbolically
  * The module is imported from the file in the working tree under a private name; nothing is rewritten.
  * Scalars are `S` objects (a sympy expression + nothing else).  NumPy arrays are ordinary `ndarray`s of
    dtype=object holding `S` elements, so NumPy's own indexing / masks / broadcasting / nonzero run for real.
  * Module globals that would force a machine float are replaced for the duration of the call by shims:
    `math.sqrt/exp/sin/cos/...` -> sympy functions, `np` -> a proxy whose zeros/ones/empty/array build
    object arrays (everything else is forwarded to NumPy).  These shims are the *assumed contracts* of the
    library calls (listed in evidence).
  * A comparison between symbolic values (`if wn == 0`, `w2 > 0.005`, `abs(x)`) cannot be decided
    symbolically; it is decided at the *witness point* of the regime (a concrete parameter assignment) and
    logged as a path condition.  The result is therefore the code's closed form on the set of parameters
    that take the same decisions; evidence lists the decisions of every regime.  (Concolic execution.)
Floats are mathematical reals here (Python float constants are converted exactly to rationals).
"""
import importlib.util, math, os, sys, time, types
import numpy as _np
import sympy as sp

_CTX = None


class Regime:
    def __init__(self, name, witness):
        self.name, self.witness = name, dict(witness)
        self.path = []          # (relational as string, truth)

    def decide(self, rel):
        if rel is sp.true or rel is sp.false or isinstance(rel, bool):
            return bool(rel)
        try:
            d = (rel.lhs - rel.rhs).xreplace(self.witness).evalf(30)
            t = {sp.Lt: d < 0, sp.Le: d <= 0, sp.Gt: d > 0, sp.Ge: d >= 0, sp.Eq: d == 0, sp.Ne: d != 0}[type(rel)]
            t = bool(t)
        except Exception:
            v = rel.subs(self.witness)
            try:
                t = bool(v)
            except TypeError:
                t = bool(sp.N(v, 30))
        if len(self.path) < 200:
            srel = str(rel) if sp.count_ops(rel) < 60 else "<relational with %d operations>" % sp.count_ops(rel)
            self.path.append((srel, t))
        return t


class HashRegime(Regime):
    """regime whose witness assigns every symbol a fixed pseudo-random rational derived from its name (no need to list symbols)"""

    def __init__(self, name):
        Regime.__init__(self, name, {})

    @staticmethod
    def value(s):
        import hashlib
        h = int(hashlib.sha256(str(s).encode()).hexdigest()[:8], 16)
        return sp.Rational(h % 17 + 2, h % 5 + 3) * (-1) ** (h % 2) if not s.is_positive else sp.Rational(h % 17 + 2, h % 5 + 3)

    def decide(self, rel):
        if rel is sp.true or rel is sp.false or isinstance(rel, bool):
            return bool(rel)
        for s_ in rel.free_symbols:
            if s_ not in self.witness:
                self.witness[s_] = self.value(s_)
        return Regime.decide(self, rel)


def _conv(x):
    if isinstance(x, S):
        return x.e
    if isinstance(x, bool):
        return sp.Integer(int(x))
    if isinstance(x, (int, _np.integer)):
        return sp.Integer(int(x))
    if isinstance(x, (float, _np.floating)):
        if x != x or x in (float("inf"), float("-inf")):
            return sp.nan if x != x else (sp.oo if x > 0 else -sp.oo)
        return sp.Rational(float(x))       # exact binary value
    if isinstance(x, complex):
        return _conv(x.real) + sp.I * _conv(x.imag)
    if isinstance(x, sp.Basic):
        return x
    return None


class S:
    """symbolic scalar"""
    __slots__ = ("e",)

    def __init__(self, e):
        self.e = sp.sympify(e)

    def _bin(self, o, f):
        if isinstance(o, _np.ndarray):
            return NotImplemented
        c = _conv(o)
        if c is None:
            return NotImplemented
        return S(f(self.e, c))

    def _rbin(self, o, f):
        c = _conv(o)
        if c is None:
            return NotImplemented
        return S(f(c, self.e))

    def __add__(self, o): return self._bin(o, lambda a, b: a + b)
    def __radd__(self, o): return self._rbin(o, lambda a, b: a + b)
    def __sub__(self, o): return self._bin(o, lambda a, b: a - b)
    def __rsub__(self, o): return self._rbin(o, lambda a, b: a - b)
    def __mul__(self, o): return self._bin(o, lambda a, b: a * b)
    def __rmul__(self, o): return self._rbin(o, lambda a, b: a * b)
    def __truediv__(self, o): return self._bin(o, lambda a, b: a / b)
    def __rtruediv__(self, o): return self._rbin(o, lambda a, b: a / b)
    def __pow__(self, o): return self._bin(o, lambda a, b: a ** b)
    def __rpow__(self, o): return self._rbin(o, lambda a, b: a ** b)
    def __neg__(self): return S(-self.e)
    def __pos__(self): return self

    def __abs__(self):
        if self.e.is_nonnegative:
            return self
        if self.e.is_negative:
            return S(-self.e)
        if self.e.is_real is not True:
            return S(sp.Abs(self.e))
        return self if _CTX.decide(self.e >= 0) else S(-self.e)

    def _cmp(self, o, f):
        c = _conv(o)
        if c is None:
            return NotImplemented
        rel = f(self.e, c)
        if rel is sp.true or rel is True:
            return True
        if rel is sp.false or rel is False:
            return False
        return _CTX.decide(rel)

    def __lt__(self, o): return self._cmp(o, lambda a, b: sp.Lt(a, b))
    def __le__(self, o): return self._cmp(o, lambda a, b: sp.Le(a, b))
    def __gt__(self, o): return self._cmp(o, lambda a, b: sp.Gt(a, b))
    def __ge__(self, o): return self._cmp(o, lambda a, b: sp.Ge(a, b))

    def __eq__(self, o):
        c = _conv(o)
        if c is None:
            return NotImplemented
        d = sp.simplify(self.e - c) if (self.e - c).free_symbols == set() else (self.e - c)
        if d == 0:
            return True
        if d.is_number:
            return False
        return _CTX.decide(sp.Eq(self.e, c))

    def __ne__(self, o):
        r = self.__eq__(o)
        return r if r is NotImplemented else not r

    def __hash__(self):
        return hash(self.e)

    def __bool__(self):
        if self.e.is_number:
            return bool(self.e != 0)
        return _CTX.decide(sp.Ne(self.e, 0))

    def _concretise(self, f, what):
        if self.e.is_number:
            return f(self.e)
        v = f(sp.N(self.e.subs(_CTX.witness), 30))
        _CTX.path.append(("%s(%s) == %s  [concretised at the witness]" % (what, self.e, v), True))
        return v

    def ceil(self): return int(self._concretise(sp.ceiling, "ceil"))
    def floor(self): return int(self._concretise(sp.floor, "floor"))
    def __int__(self): return int(self._concretise(lambda x: sp.Integer(int(x)), "int"))
    def __index__(self): return self.__int__()

    def __float__(self):
        if self.e.is_number:
            return float(self.e)
        raise TypeError("symbolic value forced to a machine float: %s" % self.e)

    def astype(self, dtype, *a, **k):
        """NumPy scalars have astype; an element taken from an object array is this S"""
        try:
            if _np.issubdtype(_np.dtype(dtype), _np.integer):
                return _np.int64(int(self))
        except TypeError:
            pass
        return self

    def __repr__(self):
        return "S(%s)" % self.e

    # numpy ufuncs on object arrays call these methods
    def sqrt(self): return S(sp.sqrt(self.e))
    def exp(self): return S(sp.exp(self.e))
    def sin(self): return S(sp.sin(self.e))
    def cos(self): return S(sp.cos(self.e))
    def tan(self): return S(sp.tan(self.e))
    def log(self): return S(sp.log(self.e))
    def log2(self): return S(sp.log(self.e) / sp.log(2))
    def log10(self): return S(sp.log(self.e) / sp.log(10))
    def conjugate(self): return S(sp.conjugate(self.e))
    def arctan2(self, o): return S(sp.atan2(self.e, _conv(o)))
    def cosh(self): return S(sp.cosh(self.e))
    def sinh(self): return S(sp.sinh(self.e))

    @property
    def real(self): return S(sp.re(self.e))

    @property
    def imag(self): return S(sp.im(self.e))


def _lift(f):
    def g(x, *a):
        if isinstance(x, S) or any(isinstance(y, S) for y in a):
            return S(f(_conv(x), *[_conv(y) for y in a]))
        return getattr(math, f.__name__ if hasattr(math, f.__name__) else "sqrt")(x, *a) if False else _py(f, x, *a)
    return g


def _py(f, x, *a):
    name = {"Abs": "fabs", "atan2": "atan2", "log": "log"}.get(f.__name__, f.__name__)
    return getattr(math, name)(x, *a)


MATH_SHIMS = {"sqrt": _lift(sp.sqrt), "exp": _lift(sp.exp), "sin": _lift(sp.sin), "cos": _lift(sp.cos),
              "tan": _lift(sp.tan), "log": _lift(sp.log), "atan2": _lift(sp.atan2), "cosh": _lift(sp.cosh),
              "sinh": _lift(sp.sinh)}


class SymArr(_np.ndarray):
    """ndarray subclass that survives NumPy operations; `astype(float)` keeps symbolic storage (object dtype)"""

    def astype(self, dtype, *a, **k):
        try:
            dt = _np.dtype(dtype)
        except TypeError:
            dt = None
        if dt is not None and (_np.issubdtype(dt, _np.floating) or _np.issubdtype(dt, _np.complexfloating)):
            if self.dtype == object:
                return self.copy()
            base = _np.ndarray.astype(self.view(_np.ndarray), dtype)
            return NumpyProxy._obj(base)
        return _np.ndarray.astype(self, dtype, *a, **k)


def sym_array(exprs):
    a = _np.empty(len(exprs), dtype=object)
    for i, e in enumerate(exprs):
        a[i] = e if isinstance(e, S) else S(e)
    return a.view(SymArr)


class NumpyProxy:
    """forwards to numpy; allocation functions return object arrays so symbolic values can be stored"""

    def __getattr__(self, name):
        if name == "pi":
            return S(sp.pi)
        f = getattr(_np, name)
        if name in ("sqrt", "exp", "sin", "cos", "tan", "log", "log2", "log10", "ceil", "floor", "cosh", "sinh", "conj", "conjugate",
                    "real", "imag"):
            meth = {"conj": "conjugate"}.get(name, name)

            def g(x, *a, **k):
                if isinstance(x, S):
                    r = getattr(x, meth)
                    return r() if callable(r) else r
                return f(x, *a, **k)
            return g
        return f

    @staticmethod
    def _obj(a):
        out = _np.empty(a.shape, dtype=object)
        flat = out.reshape(-1)
        src = a.reshape(-1)
        for i in range(src.size):
            flat[i] = src[i]
        return out.view(SymArr)

    def zeros(self, shape, dtype=float, order="C"):
        a = _np.zeros(shape, dtype)
        return self._obj(a) if _np.issubdtype(a.dtype, _np.floating) or _np.issubdtype(a.dtype, _np.complexfloating) else a.view(SymArr)

    def ones(self, shape, dtype=float, order="C"):
        a = _np.ones(shape, dtype)
        return self._obj(a) if _np.issubdtype(a.dtype, _np.floating) else a.view(SymArr)

    def empty(self, shape, dtype=float, order="C"):
        return self.zeros(shape, dtype)

    def array(self, obj, *a, **k):
        r = _np.array(obj, *a, **{kk: v for kk, v in k.items() if kk != "dtype"}) if any(isinstance(x, S) for x in _flat(obj)) else _np.array(obj, *a, **k)
        if r.dtype != object and (_np.issubdtype(r.dtype, _np.floating)):
            return self._obj(r)
        return r.view(SymArr)

    def asarray(self, obj, *a, **k):
        if isinstance(obj, _np.ndarray):
            return obj
        return self.array(obj)

    def atleast_1d(self, *objs):
        def one(obj):
            if isinstance(obj, _np.ndarray):
                return _np.atleast_1d(obj)
            return self.array([obj]) if not isinstance(obj, (list, tuple)) else self.array(obj)
        r = [one(o) for o in objs]
        return r[0] if len(r) == 1 else r

    def abs(self, x):
        return _np.abs(x) if isinstance(x, _np.ndarray) else abs(x)

    def isscalar(self, x):
        return isinstance(x, S) or _np.isscalar(x) or (hasattr(x, "is_symbolic_scalar") and not isinstance(x, _np.ndarray))

    def _finite_like(self, x, value):
        # validation predicates on symbolic stand-ins: a symbol stands for a finite, valid number
        if isinstance(x, S) or hasattr(x, "is_symbolic_scalar"):
            return value
        a = _np.asarray(x)
        if a.dtype == object:
            return _np.full(a.shape, value, dtype=bool) if a.ndim else value
        return None

    def isfinite(self, x):
        r = self._finite_like(x, True)
        return _np.isfinite(x) if r is None else r

    def isinf(self, x):
        r = self._finite_like(x, False)
        return _np.isinf(x) if r is None else r

    def iscomplexobj(self, x):
        if isinstance(x, _np.ndarray) and x.dtype == object:
            return any(isinstance(e, S) and e.e.has(sp.I) for e in x.reshape(-1))
        return _np.iscomplexobj(x)


def _flat(o):
    if isinstance(o, (list, tuple)):
        for x in o:
            yield from _flat(x)
    elif isinstance(o, _np.ndarray):
        for x in o.reshape(-1):
            yield x
    else:
        yield o


# ---------------------------------------------------------------------------------------------
def load_module(repo, relpath, name=None):
    """import a repository module from the tree at `repo` (put first on sys.path so the whole package is that tree's)"""
    repo = os.path.abspath(repo)
    if sys.path[0] != repo:
        sys.path.insert(0, repo)
    dotted = relpath.replace("/", ".")[:-3]
    m = importlib.import_module(dotted)
    if not os.path.abspath(m.__file__).startswith(repo):
        raise ImportError("%s was imported from %s, not from %s" % (dotted, m.__file__, repo))
    return m


class Multi:
    """install the shims in several modules at once"""

    def __init__(self, mods, regime, extra=None):
        self.cms = [Shimmed(mm, regime, (extra or {}).get(mm.__name__)) for mm in mods]

    def __enter__(self):
        for c in self.cms:
            c.__enter__()
        return self

    def __exit__(self, *a):
        for c in reversed(self.cms):
            c.__exit__(*a)


class Shimmed:
    """context manager: install the math / numpy shims into a module's globals for a symbolic call"""

    def __init__(self, mod, regime, extra=None):
        self.mod, self.regime, self.extra = mod, regime, extra or {}
        self.saved = {}

    def __enter__(self):
        global _CTX
        self.prev = _CTX
        _CTX = self.regime
        g = self.mod.__dict__
        for k, v in list(g.items()):
            if k in MATH_SHIMS and getattr(v, "__module__", None) == "math":
                self.saved[k] = v
                g[k] = MATH_SHIMS[k]
            elif v is _np:
                self.saved[k] = v
                g[k] = NumpyProxy()
            elif isinstance(v, float) and v == math.pi:
                self.saved[k] = v
                g[k] = S(sp.pi)
        for k, v in self.extra.items():
            if k not in self.saved:
                self.saved[k] = g.get(k, None)
            g[k] = v
        return self

    def __exit__(self, *a):
        global _CTX
        _CTX = self.prev
        self.mod.__dict__.update(self.saved)


def expr_of(x):
    if isinstance(x, _np.ndarray) and x.ndim == 0:
        x = x.item()
    if isinstance(x, S):
        return x.e
    c = _conv(x)
    if c is None:
        raise TypeError("not a scalar: %r" % (x,))
    return c


# ---------------------------------------------------------------------------------------------
# deciding  expr == 0
def prove_zero(expr, assumptions_subs=None, budget=60, numeric_points=None, numeric_only=False):
    """returns (status, detail):  'proved' | 'failed' (numeric witness of non-zero) | 'undecided'"""
    t0 = time.time()
    e = sp.sympify(expr)
    if e.has(sp.Limit):
        e = e.doit()
    if e == 0:
        return "proved", {"method": "syntactic"}
    if e.has(sp.zoo, sp.nan, sp.oo, -sp.oo):
        return "failed", {"witness": {}, "value": "non-finite (division by zero / NaN) in the symbolic result", "relative": "inf"}
    # numeric refutation first (cheap, and gives a witness)
    import mpmath
    syms = sorted(e.free_symbols, key=str)
    pts = numeric_points or default_points(syms)
    if numeric_points is None and e.has(sp.Max, sp.Min, sp.Piecewise, sp.Heaviside, sp.sign, sp.floor, sp.ceiling):
        # clamps / case distinctions hidden in the term: also probe very small and very large magnitudes (each symbol separately and all together)
        tiny, huge = sp.Rational(1, 10 ** 24), sp.Integer(10 ** 24)
        base = pts[0]
        for val in (tiny, huge):
            pts = pts + [{s_: val * base[s_] for s_ in syms}]
            for s_ in syms[:12]:
                pts = pts + [{**base, s_: val * base[s_]}]
    terms = list(sp.Add.make_args(e))
    try:
        fn = sp.lambdify(syms, [e] + terms, "mpmath")
    except Exception:
        fn = None
    old = mpmath.mp.dps
    mpmath.mp.dps = 50
    nok = 0
    try:
        for pt in pts:
            try:
                if fn is not None:
                    vals = fn(*[mpmath.mpf(int(pt[s_].p)) / mpmath.mpf(int(pt[s_].q)) for s_ in syms])
                    v = vals[0]
                    scale = max([abs(x) for x in vals[1:]] + [mpmath.mpf(1)])
                else:
                    v = sp.N(e.subs(pt), 50)
                    scale = max([abs(sp.N(a_.subs(pt), 50)) for a_ in terms] + [sp.Float(1)])
                nok += 1
                if abs(v) / scale > mpmath.mpf("1e-25"):
                    return "failed", {"witness": {str(k_): str(v_) for k_, v_ in pt.items()}, "value": str(mpmath.nstr(v, 12)) if fn is not None else str(v),
                                      "relative": str(mpmath.nstr(abs(v) / scale, 6)) if fn is not None else ""}
            except Exception:
                continue
    finally:
        mpmath.mp.dps = old
    if numeric_only and nok < 2 and syms:
        return "undecided", {"reason": "numeric evaluation succeeded at %d of %d points only" % (nok, len(pts))}
    if numeric_only:
        return "numeric-ok", {"points": len(pts), "tolerance": "1e-25 relative, 50 digits"}
    PI = sp.Symbol("PI_", positive=True)
    e_r = e.subs(sp.pi, PI) if not e.has(sp.sin, sp.cos, sp.exp, sp.tan) else e      # pi is an indeterminate for rational identities
    methods = (("expand", e_r, lambda x: sp.expand(x)),
               ("together+expand", e_r, lambda x: sp.expand(sp.numer(sp.together(x)))),
               ("expand_trig_exp", e, lambda x: sp.expand(sp.numer(sp.together(sp.expand(x, trig=True, power_exp=True))), trig=True, power_exp=True)),
               ("trig_ideal", e, _trig_ideal),
               ("expand_complex", e_r, lambda x: sp.expand(sp.numer(sp.together(sp.expand_complex(x))))),
               ("simplify", e, lambda x: sp.simplify(x)))
    if not e.has(sp.I, sp.Abs, sp.re, sp.im):
        methods = tuple(m_ for m_ in methods if m_[0] != "expand_complex")
    if not e.has(sp.sin, sp.cos, sp.exp, sp.sqrt):
        methods = tuple(m_ for m_ in methods if m_[0] not in ("trig_ideal", "expand_trig_exp"))
    for method, ex_, f in methods:
        left = budget - (time.time() - t0)
        if left <= 1:
            break
        try:
            with _limit(min(left, max(5, budget / 3))):
                r = f(ex_)
            if r == 0:
                return "proved", {"method": method, "seconds": round(time.time() - t0, 3)}
        except _Timeout:
            continue
        except Exception as ex:
            continue
    return "undecided", {"reason": "no normal form reached 0 within budget; numeric evaluation at %d points agrees to 1e-25" % len(pts)}


class _Timeout(Exception):
    pass


class _limit:
    """hard wall-clock limit for one normal-form attempt (SIGALRM; main thread of the worker process only)"""

    def __init__(self, sec):
        self.sec = max(1, int(sec))

    def __enter__(self):
        import signal, threading
        self.ok = threading.current_thread() is threading.main_thread()
        if self.ok:
            def h(*a):
                raise _Timeout()
            self.old = signal.signal(signal.SIGALRM, h)
            signal.alarm(self.sec)

    def __exit__(self, *a):
        import signal
        if self.ok:
            signal.alarm(0)
            signal.signal(signal.SIGALRM, self.old)
        return False


def _trig_ideal(e):
    """replace exp/sin/cos/sqrt atoms by symbols, clear denominators, reduce modulo s^2+c^2-1 and r^2-radicand"""
    e = sp.expand(e, trig=True, power_exp=True)
    e = sp.numer(sp.together(e))
    e = sp.expand(e, trig=True, power_exp=True)
    rel = []
    rep = {}
    k = 0
    args = {}
    for a in sorted(e.atoms(sp.sin, sp.cos), key=str):
        args.setdefault(a.args[0], None)
    for arg in args:
        s_, c_ = sp.Symbol("s_%d" % k), sp.Symbol("c_%d" % k)
        k += 1
        rep[sp.sin(arg)] = s_
        rep[sp.cos(arg)] = c_
        rel.append((s_ ** 2, 1 - c_ ** 2))
    for a in sorted(e.atoms(sp.exp), key=str):
        x_ = sp.Symbol("x_%d" % k)
        k += 1
        rep[a] = x_
    for a in sorted(e.atoms(sp.Pow), key=str):
        if a.exp == sp.Rational(1, 2):
            r_ = sp.Symbol("r_%d" % k)
            k += 1
            rep[a] = r_
            rel.append((r_ ** 2, a.base))
    e2 = e.xreplace(rep)
    e2 = sp.expand(e2)
    for _ in range(12):
        changed = False
        for lhs, rhs in rel:
            base = lhs.base
            p = sp.Poly(e2, base) if e2.has(base) else None
            if p is None:
                continue
            new = 0
            for (d,), coef in p.terms():
                new += coef * (rhs ** (d // 2)) * (base ** (d % 2))
                if d >= 2:
                    changed = True
            e2 = sp.expand(new.xreplace(rep))
        if not changed:
            break
    return e2


def default_points(syms, n=10):
    import random
    rnd = random.Random(12345)
    pts = []
    for _ in range(n):
        pts.append({s: sp.Rational(rnd.randint(3, 40), rnd.randint(7, 23)) for s in syms})
    return pts
