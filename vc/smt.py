"""SMT back end: obligations -> quantifier-free formulas (skolemise + complete instantiation
over index terms) -> z3 (and cvc5 for z3's unknowns / cross-check).

An obligation is   hyps  |-  goal .  We check  And(hyps) & Not(goal):
  unsat   -> proved   (sound whatever the instantiation set was: instances only weaken hyps)
  sat     -> failed   (model returned; may be spurious when the formula left the array
                       property fragment -- callers replay it on the real code)
  unknown -> undecided
"""
import time, os, subprocess, tempfile
import z3

TIMEOUT_MS = int(os.environ.get("VERIF_SMT_TIMEOUT_MS", "60000"))


class Obligation:
    __slots__ = ("name", "hyps", "goal", "kind", "where", "meta", "expect")

    def __init__(self, name, hyps, goal, kind="assert", where="", meta=None, expect="unsat"):
        self.name = name            # stable id, used in KNOWN_FINDINGS / replay files
        self.hyps = list(hyps)
        self.goal = goal
        self.kind = kind            # assert | bounds | inv-init | inv-pres | post | variant | canary
        self.where = where
        self.meta = meta or {}
        self.expect = expect        # canaries expect "sat"


# ----------------------------------------------------------------------------------------
def _subterms(e, seen, out):
    if e.get_id() in seen:
        return
    seen.add(e.get_id())
    out.append(e)
    if z3.is_quantifier(e):
        _subterms(e.body(), seen, out)
        return
    for c in e.children():
        _subterms(c, seen, out)


def _has_var(e, cache):
    k = e.get_id()
    if k in cache:
        return cache[k]
    if z3.is_var(e):
        r = True
    elif z3.is_quantifier(e):
        r = True  # treat conservatively
    else:
        r = any(_has_var(c, cache) for c in e.children())
    cache[k] = r
    return r


def _index_terms(fs, extra=(), all_consts=True):
    """Ground Int terms used as array indices, or compared against in quantifier guards,
    plus all 0-ary Int constants (skolems, program variables)."""
    seen, terms = set(), []
    for f in fs:
        _subterms(f, seen, terms)
    cache = {}
    idx = {}

    def add(t):
        if t.sort() == z3.IntSort() and not _has_var(t, cache):
            idx[t.get_id()] = t

    for t in terms:
        if z3.is_app(t):
            k = t.decl().kind()
            if k == z3.Z3_OP_SELECT or k == z3.Z3_OP_STORE:
                add(t.arg(1))
            elif k == z3.Z3_OP_UNINTERPRETED and t.num_args() == 0 and ("!" in t.decl().name() and all_consts):
                add(t)
            elif k in (z3.Z3_OP_LE, z3.Z3_OP_LT, z3.Z3_OP_GE, z3.Z3_OP_GT) and t.arg(0).sort() == z3.IntSort():
                # guard terms:  v < t  ->  t, t-1 ;   v <= t -> t
                a, b = t.arg(0), t.arg(1)
                for x, y in ((a, b), (b, a)):
                    if _has_var(x, cache) and not _has_var(y, cache):
                        add(y)
                        add(z3.simplify(y - 1))
                        add(z3.simplify(y + 1))
    for t in extra:
        add(t)
    return list(idx.values())


def _instantiate(f, idx, stats):
    """Replace every (positive) universal quantifier in f by the conjunction of its instances
    over idx^k.  f must be in skolem normal form (no existentials)."""
    memo = {}

    def go(e):
        k = e.get_id()
        if k in memo:
            return memo[k]
        if z3.is_quantifier(e):
            if not e.is_forall():
                raise ValueError("existential quantifier left after snf")
            n = e.num_vars()
            body = go(e.body())
            sorts = [e.var_sort(i) for i in range(n)]
            if any(s != z3.IntSort() for s in sorts):
                raise ValueError("non-Int bound variable")
            insts = []
            import itertools
            for combo in itertools.product(idx, repeat=n):
                # de Bruijn: var 0 is the LAST bound variable
                insts.append(z3.substitute_vars(body, *reversed(combo)))
                stats["instances"] += 1
            r = z3.And(*insts) if insts else z3.BoolVal(True)
        elif z3.is_app(e) and e.num_args() > 0:
            ch = [go(c) for c in e.children()]
            r = e.decl()(*ch)
        else:
            r = e
        memo[k] = r
        return r

    return go(f)


def to_qf(hyps, goal, rounds=2, max_idx=150):
    """Return (list of QF formulas whose conjunction is checked, stats)."""
    stats = {"instances": 0, "index_terms": 0, "rounds": 0, "quantified": False}
    fs = list(hyps) + [z3.Not(goal)]
    g = z3.Goal()
    g.add(*fs)
    has_q = any(z3.is_quantifier(t) for f in fs for t in _all(f))
    if not has_q:
        return fs, stats
    stats["quantified"] = True
    snf = z3.Then(z3.With("simplify", elim_and=False, flat=False, som=False, arith_lhs=False), "snf")
    try:
        res = z3.Tactic("snf")(g)
    except z3.Z3Exception:
        res = snf(g)
    fs = [f for sub in res for f in sub]
    ground = fs
    cur = fs
    idx = _index_terms(ground)
    for r in range(rounds):
        stats["rounds"] = r + 1
        if len(idx) > max_idx:
            idx = idx[:max_idx]
        inst = [_instantiate(f, idx, stats) for f in fs]
        new_idx = _index_terms(inst)
        if len(new_idx) <= len(idx) or r == rounds - 1:
            cur = inst
            idx = new_idx if r < rounds - 1 else idx
            break
        idx = new_idx
        cur = inst
    stats["index_terms"] = len(idx)
    return cur, stats


def _all(e):
    seen, out = set(), []
    _subterms(e, seen, out)
    return out


# ----------------------------------------------------------------------------------------
def smt2_of(fs, logic=None):
    s = z3.Solver()
    s.add(*fs)
    txt = s.to_smt2()
    return txt


def run_z3_smt2(txt, timeout_ms=None):
    """Worker entry: decide one SMT2 text with z3 (own context)."""
    timeout_ms = timeout_ms or TIMEOUT_MS
    t0 = time.time()
    ctx = z3.Context()
    s = z3.Solver(ctx=ctx)
    s.set("timeout", timeout_ms)
    s.from_string(txt)
    r = s.check()
    out = {"solver": "z3-" + z3.get_version_string(), "result": str(r), "time": time.time() - t0}
    if r == z3.sat:
        m = s.model()
        out["model"] = {d.name(): str(m[d]) for d in m.decls()}
    elif r == z3.unknown:
        out["reason"] = s.reason_unknown()
    return out


def run_cvc5_smt2(txt, timeout_ms=None):
    timeout_ms = timeout_ms or TIMEOUT_MS
    t0 = time.time()
    with tempfile.NamedTemporaryFile("w", suffix=".smt2", delete=False) as f:
        # z3 prints no set-logic; cvc5 needs one
        f.write("(set-logic ALL)\n" + txt.replace("(check-sat)", "(check-sat)\n"))
        name = f.name
    try:
        p = subprocess.run(["/usr/bin/cvc5", "--tlimit=%d" % timeout_ms, name],
                           capture_output=True, text=True, timeout=timeout_ms / 1000 + 10)
        res = (p.stdout.strip().splitlines() or ["unknown"])[0]
        if res not in ("sat", "unsat", "unknown"):
            res = "unknown"
        return {"solver": "cvc5-1.0.3", "result": res, "time": time.time() - t0,
                "reason": p.stderr.strip()[:200] if res == "unknown" else ""}
    except subprocess.TimeoutExpired:
        return {"solver": "cvc5-1.0.3", "result": "unknown", "time": time.time() - t0, "reason": "timeout"}
    finally:
        os.unlink(name)


def decide_text(args):
    """(name, smt2-with-quantifiers, expect, cross) -> (name, verdict dict, runs).  Pool worker.

    Stage 1: z3 on the quantified formula (E-matching/MBQI): unsat is final.
    Stage 2 (stage 1 said sat/unknown and the text has quantifiers): skolemise + complete
             instantiation over index terms, then z3 on the QF text: sat gives a model.
    cvc5 is asked when z3 ends `unknown`, and (cross=True) re-checks every unsat."""
    name, txt, expect, cross = args
    t0 = time.time()
    quant = "(forall" in txt or "(exists" in txt
    if expect == "sat":
        # vacuity canary: only a definite `unsat` of the hypotheses is a failure
        r = run_z3_smt2(txt, timeout_ms=3000)
        if r["result"] != "unsat":
            r = dict(r, result="sat", note="no contradiction found (z3 said %s)" % r["result"])
            r.pop("model", None)
        r["instantiation"] = {}
        return name, r, [dict(r, stage="canary")]
    r = run_z3_smt2(txt, timeout_ms=min(TIMEOUT_MS, 20000) if quant else TIMEOUT_MS)
    runs = [dict(r, stage="direct")]
    stats = {}
    if quant and r["result"] != "unsat":
        try:
            fs = z3.parse_smt2_string(txt)
            qf, stats = to_qf(list(fs), z3.BoolVal(False))
            r2 = run_z3_smt2(smt2_of(qf))
            runs.append(dict(r2, stage="instantiated"))
            if r2["result"] in ("unsat", "sat"):
                r = r2
        except Exception as ex:
            runs.append({"stage": "instantiated", "error": repr(ex)})
    if r["result"] == "unknown" or (cross and r["result"] == "unsat"):
        r2 = run_cvc5_smt2(txt)
        runs.append(dict(r2, stage="cvc5"))
        if r["result"] == "unknown" and r2["result"] != "unknown":
            r = dict(r2)
        elif r["result"] == "unsat" and r2["result"] == "sat":
            r = {"solver": "z3+cvc5", "result": "unknown", "reason": "solver disagreement"}
    r = dict(r)
    r["time"] = time.time() - t0
    r["instantiation"] = stats
    return name, r, runs
