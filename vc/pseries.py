"""Exact truncated power series  Q[[h]] / h^N  as a scalar type for running REAL numerical code symbolically.

A `PS` value is a formal power series in one indeterminate h with exact rational coefficients, known modulo h^N.
Python floats met by the code (literal tables, 2**-s, ...) are converted to their EXACT binary value, so a check such as
"the Pade table reproduces exp to order 2m" is a statement about the doubles actually stored in the source.
Comparisons / abs / max (needed by convergence loops and branch selection) are decided numerically at the witness value
of h (concolic), and logged.  Matrices are object ndarrays of PS; `solve` is the exact series solution of Q X = P.
"""
from fractions import Fraction
import numpy as _np

N = 40                      # global truncation order (set by the caller before building values)
HWIT = Fraction(1, 10)      # witness value of h for comparisons
LOG = []


def _fr(x):
    if isinstance(x, PS):
        return None
    if isinstance(x, (bool, _np.bool_)):
        return Fraction(int(x))
    if isinstance(x, (int, _np.integer)):
        return Fraction(int(x))
    if isinstance(x, (float, _np.floating)):
        return Fraction(float(x))
    if isinstance(x, Fraction):
        return x
    return None


class PS:
    __slots__ = ("c",)
    is_symbolic_scalar = True

    def __init__(self, c):
        c = list(c)[:N]
        self.c = tuple(c) + (Fraction(0),) * (N - len(c))

    @staticmethod
    def const(x):
        return PS([Fraction(x)])

    @staticmethod
    def var(scale=1):
        return PS([Fraction(0), Fraction(scale)])

    @staticmethod
    def lift(o):
        if isinstance(o, PS):
            return o
        if isinstance(o, _np.ndarray) and o.ndim == 0:
            o = o.item()
            if isinstance(o, PS):
                return o
        f = _fr(o)
        return None if f is None else PS([f])

    def val(self):
        for k, x in enumerate(self.c):
            if x != 0:
                return k
        return N

    def num(self):
        """numeric value at the witness"""
        s, p = Fraction(0), Fraction(1)
        for x in self.c:
            s += x * p
            p *= HWIT
        return s

    def __add__(self, o):
        if isinstance(o, _np.ndarray):
            return NotImplemented
        b = PS.lift(o)
        if b is None:
            return NotImplemented
        return PS([x + y for x, y in zip(self.c, b.c)])

    __radd__ = __add__

    def __neg__(self):
        return PS([-x for x in self.c])

    def __pos__(self):
        return self

    def __sub__(self, o):
        if isinstance(o, _np.ndarray):
            return NotImplemented
        b = PS.lift(o)
        if b is None:
            return NotImplemented
        return PS([x - y for x, y in zip(self.c, b.c)])

    def __rsub__(self, o):
        b = PS.lift(o)
        if b is None:
            return NotImplemented
        return PS([y - x for x, y in zip(self.c, b.c)])

    def __mul__(self, o):
        if isinstance(o, _np.ndarray):
            return NotImplemented
        f = _fr(o)
        if f is not None:
            return PS([x * f for x in self.c])
        if not isinstance(o, PS):
            return NotImplemented
        a, b = self.c, o.c
        na = [i for i, x in enumerate(a) if x != 0]
        nb = [j for j, y in enumerate(b) if y != 0]
        out = [Fraction(0)] * N
        for i in na:
            ai = a[i]
            for j in nb:
                if i + j >= N:
                    break
                out[i + j] += ai * b[j]
        return PS(out)

    __rmul__ = __mul__

    def inverse(self):
        a = self.c
        if a[0] == 0:
            raise ZeroDivisionError("series with zero constant term has no series inverse")
        out = [Fraction(0)] * N
        out[0] = 1 / a[0]
        for k in range(1, N):
            s = Fraction(0)
            for j in range(1, k + 1):
                if a[j] != 0:
                    s += a[j] * out[k - j]
            out[k] = -s / a[0]
        return PS(out)

    def shift_down(self, k):
        if any(x != 0 for x in self.c[:k]):
            raise ZeroDivisionError("division by h^%d of a series with lower-order terms" % k)
        # the top k coefficients become unknown; they are set to 0 and the caller compares only below N - k
        return PS(self.c[k:])

    def __truediv__(self, o):
        if isinstance(o, _np.ndarray):
            return NotImplemented
        f = _fr(o)
        if f is not None:
            return PS([x / f for x in self.c])
        if not isinstance(o, PS):
            return NotImplemented
        v = o.val()
        if v == N:
            raise ZeroDivisionError("division by the zero series")
        if v:
            return self.shift_down(v) * o.shift_down(v).inverse()
        return self * o.inverse()

    def __rtruediv__(self, o):
        b = PS.lift(o)
        if b is None:
            return NotImplemented
        return b / self

    def __pow__(self, k):
        if not isinstance(k, (int, _np.integer)) or k < 0:
            return NotImplemented
        r = PS.const(1)
        for _ in range(int(k)):
            r = r * self
        return r

    def __abs__(self):
        v = self.num()
        LOG.append(("abs: sign of series value at witness", v >= 0))
        return self if v >= 0 else -self

    def _cmp(self, o, f, what):
        b = PS.lift(o)
        if b is None:
            return NotImplemented
        t = f(self.num(), b.num())
        if len(LOG) < 400:
            LOG.append((what, bool(t)))
        return bool(t)

    def __lt__(self, o): return self._cmp(o, lambda a, b: a < b, "<")
    def __le__(self, o): return self._cmp(o, lambda a, b: a <= b, "<=")
    def __gt__(self, o): return self._cmp(o, lambda a, b: a > b, ">")
    def __ge__(self, o): return self._cmp(o, lambda a, b: a >= b, ">=")

    def __eq__(self, o):
        b = PS.lift(o)
        if b is None:
            return NotImplemented
        return self.c == b.c

    def __ne__(self, o):
        r = self.__eq__(o)
        return r if r is NotImplemented else not r

    def __hash__(self):
        return hash(self.c)

    def __bool__(self):
        return any(x != 0 for x in self.c)

    def __float__(self):
        raise TypeError("series value forced to a machine float")

    def conjugate(self):
        return self

    @property
    def real(self):
        return self

    @property
    def imag(self):
        return PS([0])

    def __repr__(self):
        return "PS(%s ...)" % ", ".join(str(x) for x in self.c[:4])


class PArr(_np.ndarray):
    """object ndarray of PS; astype(float) keeps the series"""

    def astype(self, dtype, *a, **k):
        if self.dtype == object:
            return self.copy()
        return _np.ndarray.astype(self, dtype, *a, **k)


def arr(rows):
    """nested lists of numbers/PS -> PArr"""
    rows = [[PS.lift(x) for x in r] for r in rows]
    out = _np.empty((len(rows), len(rows[0])), dtype=object)
    for i, r in enumerate(rows):
        for j, x in enumerate(r):
            out[i, j] = x
    return out.view(PArr)


def lift_array(a):
    a = _np.asarray(a)
    out = _np.empty(a.shape, dtype=object)
    fo, fa = out.reshape(-1), a.reshape(-1)
    for i in range(fa.size):
        fo[i] = PS.lift(fa[i])
    return out.view(PArr)


def _frac_inv(M):
    """inverse of a square matrix of Fractions (Gauss-Jordan); raises ZeroDivisionError if singular"""
    n = len(M)
    A = [list(r) + [Fraction(int(i == j)) for j in range(n)] for i, r in enumerate(M)]
    for c in range(n):
        p = next((r for r in range(c, n) if A[r][c] != 0), None)
        if p is None:
            raise ZeroDivisionError("singular constant term")
        A[c], A[p] = A[p], A[c]
        d = A[c][c]
        A[c] = [x / d for x in A[c]]
        for r in range(n):
            if r != c and A[r][c] != 0:
                f = A[r][c]
                A[r] = [x - f * y for x, y in zip(A[r], A[c])]
    return [r[n:] for r in A]


def solve(Q, P, **kw):
    """exact series solution of Q X = P (Q(0) invertible)"""
    Q, P = lift_array(Q), lift_array(P)
    shp = P.shape
    if P.ndim == 1:
        P = P.reshape(-1, 1)
    n, m = Q.shape[0], P.shape[1]
    Q0i = _frac_inv([[Q[i, j].c[0] for j in range(n)] for i in range(n)])
    X = [[[Fraction(0)] * N for _ in range(m)] for _ in range(n)]
    for k in range(N):
        for col in range(m):
            rhs = [P[i, col].c[k] for i in range(n)]
            for j in range(1, k + 1):
                for i in range(n):
                    s = Fraction(0)
                    for l in range(n):
                        q = Q[i, l].c[j]
                        if q != 0:
                            s += q * X[l][col][k - j]
                    rhs[i] -= s
            for i in range(n):
                X[i][col][k] = sum(Q0i[i][l] * rhs[l] for l in range(n))
    out = _np.empty((n, m), dtype=object)
    for i in range(n):
        for j in range(m):
            out[i, j] = PS(X[i][j])
    return out.reshape(shp).view(PArr)


def solve_triangular(Q, P, lower=False, **kw):
    """contract of LAPACK trtrs as scipy calls it: only the upper (lower) triangle of Q is read"""
    Q = lift_array(Q).copy()
    n = Q.shape[0]
    for i in range(n):
        for j in range(n):
            if (j < i and not lower) or (j > i and lower):
                Q[i, j] = PS.const(0)
    return solve(Q, P)


class LUh:
    """lu_factor of a matrix of the form h^v * M(h) with M(0) invertible (v = common valuation)"""

    def __init__(self, A):
        A = lift_array(A)
        self.v = min(x.val() for x in A.reshape(-1))
        if self.v == N:
            raise ZeroDivisionError("zero matrix")
        self.M = lift_array([[x.shift_down(self.v) for x in row] for row in A])
        n = A.shape[0]
        _frac_inv([[self.M[i, j].c[0] for j in range(n)] for i in range(n)])     # singular -> ZeroDivisionError


def lu_factor(A, **kw):
    import warnings
    try:
        return LUh(A)
    except ZeroDivisionError:
        from scipy.linalg import LinAlgWarning
        warnings.warn("Diagonal number 1 is exactly zero. Singular matrix.", LinAlgWarning, stacklevel=2)
        return None


def lu_solve(lup, B, trans=0, **kw):
    if lup is None:
        raise ZeroDivisionError("lu_solve with a singular factor")
    M = lup.M.T if trans else lup.M
    B = lift_array(B)
    if lup.v:
        fb = B.reshape(-1)
        B2 = _np.empty(B.shape, dtype=object)
        f2 = B2.reshape(-1)
        for i in range(fb.size):
            f2[i] = fb[i].shift_down(lup.v)
        B = B2
    return solve(M, B)


def eye(n, m=None, k=0, dtype=float, **kw):
    return lift_array(_np.eye(n, m, k))


def zeros(shape, dtype=float, order="C"):
    return lift_array(_np.zeros(shape))


def mismatch_order(got, want, upto):
    """smallest k < upto at which the coefficient of h^k differs; `upto` if none.  Also returns the relative size of the first
    difference against the largest true coefficient of that order over the matrix (for round-off grading of literal tables)."""
    got, want = lift_array(got), lift_array(want)
    fg, fw = got.reshape(-1), want.reshape(-1)
    for k in range(upto):
        dmax = max(abs(g.c[k] - w.c[k]) for g, w in zip(fg, fw))
        if dmax != 0:
            ref = max(abs(w.c[k]) for w in fw)
            return k, (float(dmax / ref) if ref else float("inf"))
    return upto, 0.0
