"""Glue: run the VC generator on a list of (source, contract) jobs, discharge, register evidence."""
import time, traceback
from . import symex, report


def verify_jobs(run, jobs, cross=False):
    """jobs: list of dict(contract=, source=, callees=, lang=, tag=, dropped_extra=)
    Returns list of Verdict (also added to run). Binding/unsupported problems become `undecided` entries."""
    allobl, partial = [], []
    for jb in jobs:
        c = jb["contract"]
        tag = jb.get("tag") or "%s/%s" % (c.qualname, "c" if jb.get("lang", "py").startswith("C") else "py")
        try:
            eng = symex.Engine(jb["source"], c, c.file, callees=jb.get("callees") or {}, extra_builtins=jb.get("builtins"), fn_node=jb.get("fn_node"))
            if jb.get("fn_node") is not None:
                import ast as _ast
                eng.tree = _ast.parse(jb["source"])
            obls = eng.run()
            dropped = dict(eng.dropped)
            dropped.update(jb.get("dropped_extra") or {})
            run.add_function(c.file, c.qualname + (" [%s]" % getattr(c, "variant", "") if getattr(c, "variant", "") else ""),
                             eng.span_hash, dropped, jb.get("lang", "python"))
            for o in obls:
                o.name = tag + "::" + o.name
            allobl += obls
            run.notes.append("%s: %d obligations, %d infeasible branches pruned" % (tag, len(obls), eng.pruned))
        except (symex.Unsupported, symex.BindError) as ex:
            run.undecided.append("%s: %s: %s" % (tag, type(ex).__name__, ex))
            part = getattr(ex, "obls", None)
            if part:
                # obligations generated before the binding problem: only refutations are kept (a proof of a partial set proves nothing)
                for o in part:
                    o.name = tag + "::" + o.name
                    o.meta = dict(o.meta or {}, partial=True)
                partial += part
        except Exception as ex:
            run.undecided.append("%s: checker error %r" % (tag, ex))
            run.notes.append(traceback.format_exc()[-800:])
    vs = report.discharge_smt(allobl, cross=cross)
    if partial:
        vs += [v for v in report.discharge_smt(partial, cross=False) if v.status == "failed"]
    run.add_verdicts(vs)
    return vs
