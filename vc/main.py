import sys, os, argparse, importlib, traceback


def main():
    ap = argparse.ArgumentParser()
    ap.add_argument("pid")
    ap.add_argument("--tier", default=os.environ.get("VERIF_TIER", "quick"))
    ap.add_argument("--replay", default=None)
    a = ap.parse_args()
    seed = int(os.environ.get("VERIF_SEED", "0"))
    try:
        mod = importlib.import_module("props." + a.pid)
        if a.replay:
            rc = mod.replay(a.replay)
        else:
            rc = mod.run(a.tier, seed)
    except SystemExit:
        raise
    except Exception:
        traceback.print_exc()
        print("CHECKER-CRASH property=%s" % a.pid)
        rc = 3
    sys.stdout.flush()
    os._exit(rc)


if __name__ == "__main__":
    main()
