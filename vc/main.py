import sys, os, argparse, importlib, traceback


def main():
    ap = argparse.ArgumentParser()
    ap.add_argument("pid")
    ap.add_argument("--tier", default=os.environ.get("VERIF_TIER", "quick"))
    ap.add_argument("--replay", default=None)
    a = ap.parse_args()
    seed = int(os.environ.get("VERIF_SEED", "0"))
    # watchdog: a check that does not finish within its time budget is UNDECIDED (exit 2) - never a hang, never a violation
    import threading, multiprocessing
    limit = float(os.environ.get("VERIF_WALL_LIMIT_S", "3000" if a.tier == "quick" else "36000"))

    def _expired():
        print("UNDECIDED property=%s: wall-clock budget of %d s exceeded (checker stopped by its watchdog)" % (a.pid, limit))
        sys.stdout.flush()
        for c in multiprocessing.active_children():
            try:
                c.terminate()
            except Exception:
                pass
        os._exit(2)
    wd = threading.Timer(limit, _expired)
    wd.daemon = True
    wd.start()
    try:
        mod = importlib.import_module("props." + a.pid)
        if a.replay:
            rc = mod.replay(a.replay)
        else:
            rc = mod.run(a.tier, seed)
    except SystemExit:
        raise
    except Exception:
        traceback.print_exc()
        print("CHECKER-CRASH property=%s" % a.pid)
        rc = 3
    sys.stdout.flush()
    os._exit(rc)


if __name__ == "__main__":
    main()
