#!/bin/sh
# Build the offline overlay venv used by every check (z3, cvc5, sympy + the repo's own deps).
set -e
cd "$(dirname "$0")"
if [ ! -x .venv/bin/python ] || ! .venv/bin/python -c "import z3, sympy, numpy, scipy" 2>/dev/null; then
  rm -rf .venv
  /venv/bin/python -m venv .venv
  PIP_NO_INDEX=1 .venv/bin/python -m pip install -q --no-index --find-links /opt/veriftools/wheels z3-solver cvc5 sympy mpmath jsonschema hypothesis >/dev/null
  SP=$(.venv/bin/python -c "import sysconfig; print(sysconfig.get_paths()['purelib'])")
  echo "import site; site.addsitedir('/venv/lib/python3.12/site-packages')" > "$SP/zz_repo_deps.pth"
fi
.venv/bin/python -c "import z3, sympy, numpy, scipy, pandas; print('venv ok', z3.get_version_string(), sympy.__version__)"
mkdir -p evidence replays
