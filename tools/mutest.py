#!/usr/bin/env python3
"""Apply a textual mutation (or a patch file) to a scratch copy of /repo (outside /repo and /verif), run a check
against it with VERIF_REPO, print the outcome, delete the copy.
  tools/mutest.py C05 --sub FILE 'old' 'new' [--nth k]      |     tools/mutest.py C05 --patch seeded/x/patch.diff
"""
import sys, os, subprocess, tempfile, shutil, argparse
ap = argparse.ArgumentParser()
ap.add_argument("pid")
ap.add_argument("--sub", nargs=3, action="append", default=[])
ap.add_argument("--nth", type=int, default=None)
ap.add_argument("--patch", default=None)
ap.add_argument("--tier", default="quick")
ap.add_argument("--tests", default=None, help="pytest -k / path expression to run in the scratch copy as well")
a = ap.parse_args()
scratch = tempfile.mkdtemp(prefix="verif_mut_")
try:
    dst = os.path.join(scratch, "repo")
    shutil.copytree("/repo", dst, ignore=shutil.ignore_patterns(".git", "docs", "__pycache__"))
    for f, old, new in a.sub:
        p = os.path.join(dst, f)
        s = open(p).read()
        n = s.count(old)
        if n == 0:
            print("MUTEST: pattern not found in", f); sys.exit(9)
        if a.nth is None and n > 1:
            print("MUTEST: pattern occurs %d times; use --nth" % n); sys.exit(9)
        k = a.nth or 0
        i = -1
        for _ in range(k + 1):
            i = s.index(old, i + 1)
        s = s[:i] + new + s[i + len(old):]
        open(p, "w").write(s)
    if a.patch:
        r = subprocess.run(["patch", "-p1", "-d", dst, "-i", os.path.abspath(a.patch)], capture_output=True, text=True)
        if r.returncode != 0:
            print("MUTEST: patch failed", r.stdout, r.stderr); sys.exit(9)
    env = dict(os.environ, VERIF_REPO=dst, VERIF_STRICT_UNDECIDED=os.environ.get("VERIF_STRICT_UNDECIDED", "1"),
               VERIF_EVIDENCE_DIR=os.path.join(os.path.dirname(dst.rstrip("/")), "evidence_mutant"))
    r = subprocess.run([os.path.join(os.path.dirname(os.path.abspath(__file__)), "..", "check"), a.pid, "--tier", a.tier],
                       env=env, capture_output=True, text=True)
    print(r.stdout[-3000:])
    if r.stderr.strip():
        print("STDERR:", r.stderr[-1500:])
    print("MUTEST exit=%d" % r.returncode)
    if a.tests:
        t = subprocess.run(["/venv/bin/python", "-m", "pytest", "-q", "-x", "-p", "no:cacheprovider"] + a.tests.split(), cwd=dst,
                           capture_output=True, text=True)
        print("TESTS:", t.stdout.strip().splitlines()[-1] if t.stdout.strip() else t.stderr[-300:])
finally:
    shutil.rmtree(scratch, ignore_errors=True)
    # evidence was rewritten by the mutant run; restore is the caller's job (re-run the check on /repo)
