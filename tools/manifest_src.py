HOOK_COMMITS = []
NOTES = ("Contract-based deductive verification: sidecar contracts (contracts/*.py) on the real functions of /repo, VCs generated from the "
         "current working tree on every run (vc/symex.py, vc/cfront.py), discharged by z3/cvc5/sympy. Exit codes: 0 held, 1 VIOLATION, "
         "2 undecided (never a VIOLATION line), 3 checker crash. VERIF_REPO overrides the repository path (used for mutation self-tests only).")
CLAIMS = {
 "C05": dict(
    text="Unbounded proof, for every input length and every iteration, that py_rain._rainflow1/_rainflow2 and the compiled configuration of "
         "c_rain.c rainflow1/rainflow2 (translated mechanically from clang's AST on every run) keep the stack/offset/row invariants, never index "
         "out of bounds (C: every *rf++/*os++ write stays inside the allocated buffer), return exactly the rows written, satisfy amplitude/mean = "
         "those of the named reversals and 2*sum(count) = L-1, and refine, loop body by loop body, the ASTM E1049 5.4.4 rules 1-6 written as "
         "specification blocks; both implementations refine the same deterministic machine on the same abstract view, hence agree. "
         "Largest-range and negate/shift/scale clauses: bounded stand-in only.",
    note="Trusted: z3/cvc5, clang's parser, the VC generator, the transcription of the ASTM rules, the C-API model in vc/cfront.py; floats "
         "uninterpreted; numba assumed semantics-preserving; allocation-failure paths, refcounts and the non-compiled two-pass C variant not verified.",
    technique="contracts + loop invariants + block refinement against ASTM spec; VCs from Python ast / clang AST; z3 (array-property instantiation), cvc5 fallback"),
}
NOT_APPLICABLE = {}
