HOOK_COMMITS = []
NOTES = ("Contract-based deductive verification: sidecar contracts (contracts/*.py) on the real functions of /repo, VCs generated from the "
         "current working tree on every run (vc/symex.py, vc/cfront.py), discharged by z3/cvc5/sympy. Exit codes: 0 held, 1 VIOLATION, "
         "2 undecided (never a VIOLATION line), 3 checker crash. VERIF_REPO overrides the repository path (used for mutation self-tests only).")
CLAIMS = {
 "C05": dict(
    text="Unbounded proof, for every input length and every iteration, that py_rain._rainflow1/_rainflow2 and the compiled configuration of "
         "c_rain.c rainflow1/rainflow2 (translated mechanically from clang's AST on every run) keep the stack/offset/row invariants, never index "
         "out of bounds (C: every *rf++/*os++ write stays inside the allocated buffer), return exactly the rows written, satisfy amplitude/mean = "
         "those of the named reversals and 2*sum(count) = L-1, and refine, loop body by loop body, the ASTM E1049 5.4.4 rules 1-6 written as "
         "specification blocks; both implementations refine the same deterministic machine on the same abstract view, hence agree. "
         "Largest-range and negate/shift/scale clauses: bounded stand-in only.",
    note="Trusted: z3/cvc5, clang's parser, the VC generator, the transcription of the ASTM rules, the C-API model in vc/cfront.py; floats "
         "uninterpreted; numba assumed semantics-preserving; allocation-failure paths, refcounts and the non-compiled two-pass C variant not verified.",
    technique="contracts + loop invariants + block refinement against ASTM spec; VCs from Python ast / clang AST; z3 (array-property instantiation), cvc5 fallback"),
 "C03": dict(
    text="Proof (sympy, exact real arithmetic) that the six ramp-invariant coefficient functions of srs.py (real function objects executed on "
         "symbolic Q, dT, wn; regimes wn==0 and wn>0 with wn*dT from 1e-6 to 2.5 and light / heavy damping: a branch on the size of wn*dT or of the damping is only seen by a witness on its side) reproduce the exact oscillator response to every piecewise-linear input from rest: the "
         "spec response is derived from the ODE itself (lemmas checked by differentiation), the filter must match the hat-function response at "
         "samples 0..len(b)+1 and at a symbolic later time; relations pvelo=w*reldisp, pacce=w^2*reldisp and the static gains used by the "
         "steady-state add-back are proved. Initial-condition rules, time windows, t vector, eqsine and multi-frequency padding are checked by "
         "running the real srs.srs on a symbolic 2-sample record (bounded in record length, labelled bounded).",
    note="Trusted: sympy, the symbolic shims of math/NumPy allocation, scipy.signal.lfilter = LTI direct-form filter (assumed contract). Floats are "
         "mathematical reals: round-off and the sr/fn<=2000 conditioning clause are not decided. srs_frf / vrs / Miles closed forms: bounded float oracle only (uniform, logarithmic, two-step and irregular grids). Not covered: resamplers.",
    technique="contracts as ODE-lemma specifications; real functions executed on symbolic inputs (concolic shim); sympy normal forms + 50-digit refutation"),
 "C01": dict(
    text="Proof (sympy) that get_su_coef's eight coefficients satisfy the ODE-lemma characterisation of the exact piecewise-linear-force step in every "
         "damping regime (under/over/critical, rigid, damped rigid, documented velocity-only cut-off band, m None or given, residual flexibility) and that "
         "_get_complex_su_coefs gives the scalar first-order-hold integrals (incl. slow roots with small steps and the zero root); proof (z3, loop invariant, "
         "all nt) that _solve_real_unc_inner_loop realises the documented recurrence for order 0 and 1. Wiring of SolveUnc (initial conditions, rb/el/rf "
         "partition, equation of motion, option invariance) on a symbolic 3-mode system with nt=3 and float runs of SolveUnc/SolveExp2 against an "
         "independent expm reference are bounded stand-ins. One known finding (pre_eig with non-zero d0/v0).",
    note="Trusted: sympy, z3, symbolic shims, uniqueness of linear IVPs. Floats are reals; regime coverage is per branch-decision set of each witness. "
         "Not covered deductively: coupled path through scipy.linalg.eig, SolveExp1/2 (scipy expm), pre_eig, conditioning grades.",
    technique="ODE-lemma contracts on real functions run symbolically (sympy); loop-invariant VCs (z3) under a row-wise abstraction; bounded float replay vs expm"),
 "C16": dict(
    text="Proof by dynamic symbolic execution of the real cla.extrema / nan_argmax / nan_argmin / nan_absmax / maxmin (all paths, values symbolic reals+NaN, "
         "z3): for every configuration (1 or 2 columns, first call or update, with/without abscissa, with/without per-case columns) each path preserves the "
         "envelope representation invariant Env(S) -> Env(S + {case}) over an ABSTRACT multiset S of earlier cases (so every history and order is covered "
         "by induction): stored max/min bound every non-NaN case value and are attained by a case whose label and abscissa are the stored ones; per-case "
         "columns hold this case; frame: no aliasing with, and no modification of, the incoming table. apply_uf (documented scaling table, static/dynamic "
         "split, cache reuse in any call order, inputs untouched) is checked on a symbolic 4-mode solution (bounded in size).",
    note="Trusted: z3, the DSE shim (object arrays of (real, isnan)), np.nanargmax/nanargmin/isnan shims. Row-wise argument: proved for a generic single row. "
         "Floats are reals+NaN. Not covered: DR_Results/pandas plumbing, SRS envelopes, form_extreme/merge bookkeeping beyond the extrema kernel, reports.",
    technique="contracts (representation invariant over an abstract multiset, frame) checked on every path of the real function by dynamic symbolic execution + z3"),
 "C18": dict(
    text="Proof by evaluation of the constant mkusetmask table (base sets disjoint, every superset's base-set content equals the documented union, "
         "'a+b' expressions) lifted by z3 bit-vector queries to every consistent USET word; proof by dynamic symbolic execution (all paths, symbolic "
         "32-bit words / integers, z3) that mksetpv returns a vector of the major set's length selecting exactly the minor DOF in table order and refuses "
         "iff the minor set is not contained, that mkdofpv (NumPy-table form: the argsort/searchsorted/re-check core) returns the positions of exactly the "
         "requested present pairs in request order and raises under strict iff one is missing, and that index2slice(pv) selects x[pv] for every x long "
         "enough (lengths 0..4). Hash/byte-view based helpers (find_duplicates, flippv, index2bool, mat_intersect, list_intersect, merge_lists) and "
         "expanddof (all 63 component codes) are checked against their defining equations on bounded inputs (labelled bounded).",
    note="Trusted: z3, the DSE shim; NumPy's argsort/searchsorted/nonzero run for real on object arrays. Array shapes are fixed per configuration (<= 4 rows), "
         "values fully symbolic. pandas plumbing assumed to hand over the stored columns. Not covered: make_uset/addgrid, find_subseq, larger shapes.",
    technique="contracts checked on every path of the real functions by dynamic symbolic execution (z3 Int/BitVec); constant-table evaluation; bounded defining-equation checks"),
 "C13": dict(
    text="Proof (z3 loop invariant, every list length) that _find_sequence returns the end of the maximal +1 run; proof by dynamic symbolic execution of the "
         "real writers wtset, wtspoints, wtxset1, wtseset (THRU compression through _wt_with_thru/wtcard8/_wrap_text_lines), wtcsuper and wtnasints: for "
         "every run structure of symbolic ids (every path) the text produced follows the card grammar written independently in the contract (8-column "
         "fields, repeated headers, continuation lines, THRU triples never straddling a line, SET lines <= 72 columns) and the expansion of what was "
         "written (single -> [a], a THRU b -> a..b) equals the id list, each id exactly once, in order. List lengths are fixed per configuration "
         "(1..10 / up to 25 for plain integer lists). Reader side, float/DMIG/GRID writers: bounded real write->read round trips (labelled bounded).",
    note="Trusted: z3, the DSE shim (ids are formatted into fixed-width placeholder tokens), the card grammars in props/C13.py. Assumes '{:8d}' yields 8 "
         "characters for ids < 10^8. Not covered deductively: rdsets/rdcards/rddmig (regex/split/pandas), wtdmig/wtgrids float formatting, coordinate cards.",
    technique="contracts as card grammars + expansion equality checked on every path of the real writers (DSE + z3); loop-invariant VCs for _find_sequence; bounded round trips"),
 "C10": dict(
    text="Proof by dynamic symbolic execution (all paths, symbolic real samples, z3) of the real cyclecount.findap - BOTH definitions: the one that runs here and "
         "the loop (numba) definition extracted mechanically from the file's AST - for lengths 1..4: first sample selected, selected points strictly alternate "
         "between local maxima and minima, global extremes reached within the stated tolerance and identical selection by both definitions, the last two "
         "restricted to inputs outside one recorded known-finding region (some non-zero increment within tolerance) where the unchanged tree genuinely violates "
         "them; and of getbins/_binify/binify (scalar and explicit bins, right/left closed, 1-2 cycles): every cycle lands in exactly the bin whose documented "
         "half-open interval contains it, count conserved for automatic bins and whenever explicit bins cover the data. fdepsd clauses (cumulative counts, "
         "Amax<=SRS, G2>=G1, damage sums, amplitude^2 scaling over 2^-24..2^20) are bounded checks on the real function.",
    note="Trusted: z3, the DSE shim, assumed contracts of np.digitize/np.linspace/np.sign; floats are reals; lengths fixed per configuration. Not covered "
         "deductively: fdepsd pipeline (lfilter/resampling), test-variance formulas.",
    technique="contracts checked on every path of the real functions by dynamic symbolic execution + z3; known-finding region carved out of two obligations; bounded fdepsd checks"),
 "C02": dict(
    text="The real SolveUnc.fsolve and FreqDirect.fsolve (uncoupled path) are executed on a fully symbolic 3-mode system [rigid, elastic, residual-flexibility] "
         "with symbolic complex forces and frequencies (SolveUnc: including 0 Hz in the middle of the frequency vector) for all 8 incrb subsets x rf_disp_only x "
         "m None/vector; every returned d, v, a entry is decided equal to the specification (dynamic-stiffness solution, v=iWd, a=-W^2 d, static rf rows, "
         "rigid-body a=F/m with d, v switched by incrb and zero at 0 Hz) exactly, by sympy rational normal forms of the symbolic outputs (pi as an indeterminate); the real solvepsd "
         "(2 forces incl. a force that only feeds through, symbolic duf factors) equals sum_i PSD_i |H_i|^2 and rms^2 = trapezoidal area. Coupled paths "
         "(scipy eig/solve, pre_eig) are bounded float checks.",
    note="Trusted: sympy, symbolic shims. Sizes fixed (3 modes, 2-3 frequencies), all values symbolic. Floats are exact complex numbers (conditioning not decided). "
         "Coupled/pre_eig paths only bounded.",
    technique="real functions executed on symbolic inputs (concolic shim) against the dynamic-stiffness specification; sympy rational normal forms; bounded float checks",
    category="proof"),
 "C09": dict(
    text="Proof by non-interference plus body equivalence, for every schedule and worker count without running any: the parallel and serial arms of srs.srs "
         "(4 worker functions x doic x getresp x stype add-back variants) and of fdepsd.fdepsd are extracted from the real source by AST and executed over opaque "
         "terms (every library call and float operation uninterpreted): task j of the pool stores, term for term, exactly what iteration j of the serial loop "
         "stores (so equal values bit for bit under any deterministic float semantics), into the same locations; task j writes only its own slot "
         "(SRSmax_[j], HIST_[:,:,j], ASV_[:,j], BinAmps_[j], Count_[j,:]) and reads no other task's output; the task set is {0..LF-1} once each; shared inputs are "
         "exact copies and outputs zero-initialised (rewrite axioms). Hence the final arrays are a function of the task set only. A bounded exploration of "
         "completion orders with an in-process pool (real initializer, real tasks, all 6 orders of 3 tasks, 1 and 3 workers, unsorted frequencies, 0 Hz) is the "
         "replay engine; a term mismatch without a concrete difference is reported as undecided, never as a violation.",
    note="Trusted: the term interpreter vc/rel.py, the rewrite axioms for copyToSharedArray/createSharedArray/frombuffer, multiprocessing.Pool semantics (initializer "
         "before tasks, each task once), determinism of NumPy/SciPy across processes.",
    technique="relational verification: AST-extracted serial loop body vs worker body over uninterpreted terms + frame (write-set) conditions; bounded schedule exploration for replay"),
 "C07": dict(
    text="Proof over exact power series in the step h (the real functions of expmint.py run on Q[[h]]/h^34 scalars, scipy's solve replaced by its "
         "contract): for each Pade branch 3/5/7/9/13 (13 with 0, 1 and 3 squarings) of expmint and of _expm_SS, E, I and I2 agree with the Taylor series "
         "of exp(Ah), int exp(At)dt, int t exp(At)dt to the order the Pade degree promises - this pins every literal of the U,V,P,Q and I2 tables (as the "
         "doubles actually stored), the h factors, the I += I.E / E = E.E squaring recurrences, the exact-inverse and power-series routes of _geti2, for "
         "general, triangular, nearly triangular, defective and singular 2x2 A; getEPQ1/getEPQ2/getEPQ_pow/getEPQ return the same E, P=(I2/h)B, Q=(I1-I2/h)B "
         "(order 1) or P=I1 B, Q=0.0 (order 0) for B None / given / half on both sides of the norm switch. SSModel: tustin (with/without prewarp) "
         "d2c(c2d)=id, c2d(d2c)=id and H_d(z)=H_c(k(z-1)/(z+1)) proved for fully symbolic 2-state models (sympy); zoh/zoha/foh c2d is the hold model of "
         "x+=Ex+Pu+Qu+ and d2c recovers A=phi diag(log lam/h) phi^-1, B, C, D, proved modularly against getEPQ's and eig's contracts. Branch thresholds, "
         "the principal-log route and sampled-response equivalence: bounded float checks (100-digit reference).",
    note="Trusted: vc/pseries.py (Python fractions), sympy, contracts of solve/solve_triangular/lu_factor/lu_solve/eig. Branch selection is forced by the "
         "harness (theta thresholds, _ell, the 2.0978 switch value and the size of the truncation error are not verified); convergence loops exit at the "
         "witness h=0.1. Matrices 2x2 (4x4 for half) with fixed rational entries, h a formal indeterminate. Floats are exact rationals; round-off not decided.",
    technique="real functions executed on exact truncated power series / sympy symbols; Pade order conditions against the Taylor definition; modular contracts for getEPQ/eig; bounded float sweep vs 100-digit sums"),
 "C08": dict(
    text="The real generator objects of SolveUnc (real-uncoupled), SolveUnc(cd_as_force)/SolveCDF and SolveExp2 (uncoupled and coupled mass) are driven on "
         "solver instances whose integration coefficients are abstract symbols, with all forces and initial conditions symbolic: for EVERY operation sequence "
         "of up to 4 operations (send(i,f) with 1<=i<=cur+1 incl. redo and jump-back, add-on send(-1,g)) the arrays shared with the caller equal, after "
         "every operation and column for column up to the current step, what the real batch tsolve returns for the force history then in effect, "
         "finalize() equals tsolve incl. acceleration, and for order=1 get_f2x(phi) (displacement and velocity) equals the change a unit add-on force "
         "produces in the current step; order 0/1, with/without residual-flexibility block, m None/vector/matrix, d0/v0 or static_ic. Decided as "
         "polynomial identities by sympy: fully symbolic coefficients for SolveUnc/SolveExp2-uncoupled; for the cd-as-force and coupled-mass "
         "configurations fully symbolic for <=2 operations and, for all histories, exact in forces/ICs with the coefficient identity tested at two random "
         "exact rational points. The complex-modes (scipy eig) generator: bounded float histories only.",
    note="Trusted: sympy, symbolic shims, lu_solve contract. Sizes fixed (nt=4, 2-3 equations, histories <= 4 ops in the quick tier, 5 in thorough); longer "
         "histories by the representation-invariant argument stated in evidence (not mechanised). Coefficients abstract: correctness of the coefficients "
         "themselves is C01/C07. Floats are reals.",
    technique="real generators executed on symbolic state (concolic shim) over all operation sequences up to a bound; representation invariant Gen(cur) vs the real batch solver as specification; sympy polynomial identities (+ random exact rational points for the rational-function configurations); bounded float histories"),
 "C17": dict(
    text="The real SolveNewmark (constructor, def_nonlin, tsolve) is executed on fully symbolic m, b, k (diagonal or full, mass None/given/singular), h, "
         "forces, initial conditions and nonlinear terms (quadratic/linear in displacement and backward-difference velocity) for 2 dynamic equations "
         "(+ residual flexibility), nt = 2..4: every d, v, a and z entry equals the documented recurrence evaluated independently (start-up u_-1, F_0, "
         "F_-1, three-point averaging, N_{n+1}, extrapolated last step, central differences), decided as polynomial identities; from the coefficients "
         "the real _newmark_precalcs returns: A, A1, A0 are the documented matrices, the Jury conditions hold for all m,b,k>=0, h>0 (z3 NRA; strict when "
         "damped) and the scalar recurrence is second-order consistent. cd_as_force/SolveCDF: the real __init__ (get_su_coef under contract) gives "
         "alpha = Co(I+Bp Co)^-1 for non-symmetric Co, the real tsolve satisfies the documented implicit recurrence pair and M a+(diag b+Co)v+K d=F at "
         "every step, and reduces to the SolveUnc recurrence when Co = 0. Convergence under step halving and bit-identity of SolveCDF/SolveUnc for "
         "diagonal damping: bounded float checks.",
    note="Trusted: sympy, z3, symbolic shims, lu_factor/lu_solve/solve contracts. Sizes fixed (2 equations, nt<=4), values symbolic; A=M/h^2+B/(2h)+K/3 "
         "re-parametrised as the free symbol (WLOG). Floats are reals. Not covered: global convergence rates for coupled/nonlinear systems.",
    technique="real solver classes executed on symbolic inputs against the documented recurrence evaluated independently (sympy polynomial identities modulo a determinant relation); z3 NRA for stability; series for order"),
 "C15": dict(
    text="The real frclim.ntfl runs on symbolic NON-symmetric 2-DOF (real and complex) apparent-mass arrays: the returned interface acceleration and force "
         "satisfy both physical coupling statements at every frequency - source side Ms(As-A)=F (A=As-Ms^-1 F) and load side F=Ml A - which is the directly "
         "coupled interface solution; R=diag((Ms+Ml)^-1 Ms), TAM=SAM+LAM, index order [dof,freq,dof], mismatched frequency vectors refused. The real "
         "calcAM: recovery-matrix form, AM_j (T G_j T^T)=I for an abstract non-symmetric acceleration operator G_j=-W^2 Z_j^-1 (frequency solver under its "
         "C02 contract); partition-vector form (non-ascending, non-contiguous boundary sets), AM[:,j,c] is the boundary force with which the real cb.cbtf "
         "enforces a unit acceleration of boundary DOF c in the caller's order, and Z x=S^T AM e_c has boundary acceleration e_c; the real cbtf's solution "
         "satisfies all rows of M a+B v+K d=(frc on b, 0 on q), v=iWd, a=-W^2 d, incl. 0 Hz. End-to-end (default solver construction, random free-free "
         "systems) against a direct solve of the physically coupled system: bounded float check. One known finding (damped rigid-body modes).",
    note="Trusted: sympy, symbolic shims, solve/inv contracts. Sizes fixed (2 interface DOF, 2 q-set modes, 1-3 frequencies), values symbolic. cbtf "
         "precondition from its code: Craig-Bampton form (no b-q stiffness), diagonal q-q blocks. Floats are exact complex numbers. Not covered: the w->0 limit.",
    technique="real functions executed on symbolic inputs; coupling/equilibrium residuals as rational identities (sympy); modular contract for the frequency solver; bounded float coupled-system check; known-finding witness replay"),
 "C06": dict(
    text="Proved with the real functions on symbolic inputs (sympy identities): cb.cgmass returns diag(m,m,m,I_cg) and the cg offset for every rigid 6x6 mass "
         "M=T^T diag(mI,I_cg)T (m, I_cg, offset symbolic); cb.cbtf's solution satisfies every row of M a+B v+K d=(frc on the b-set, 0 on the q-set) with the "
         "enforced boundary acceleration, v=iWd, a=-W^2 d, incl. 0 Hz and non-ascending boundary sets; cb.cbreorder is the symmetric permutation "
         "pv=(b,q)/(q,b) (drm: columns), undone by the inverse permutation, for all ordered b-sets of matrices up to order 4; cb.cbconvert scales every "
         "block by (force-unit factor of the row)x(displacement-unit factor of the column) for a symbolic (length,mass) conversion - mass [mass], first "
         "moments [mass length], inertia [mass length^2], q-q blocks (fixed-base frequencies) unchanged; m2e and e2m factors reciprocal to 1e-15. "
         "uset_convert (pandas) and its effect on geometry-based rigid-body modes: bounded float check on generated USET tables. cbcheck's comparison of "
         "the three rigid-body constructions, effective-mass bookkeeping and grounding numbers are NOT covered.",
    note="Partial: the eigen/tolerance-based parts of cbcheck are outside what a contract on this code can decide. Trusted: sympy, symbolic shims. "
         "cbtf precondition from its code (Craig-Bampton form, diagonal q-q blocks). Sizes fixed, values symbolic. Floats are reals.",
    technique="real functions executed on symbolic inputs against rigid-body/unit-scaling/permutation specifications (sympy identities); exhaustive small-scope permutations; bounded float check for the pandas part"),
 "C14": dict(
    text="Proved with the real functions on symbolic inputs (sympy): n2p.rbgeom gives [[I,-(p-ref)x],[0,I]] per grid for a reference given as xyz, as a grid "
         "index or omitted, and rbmove is reference-point consistent (rbgeom(g,old)@rbgeom(old,new)==rbgeom(g,new)); getcoordinates followed by "
         "_get_loc_a_basic returns the same basic point for rectangular, cylindrical and spherical systems (symbolic origin, exact rational rotation) for "
         "generic points and for the special positions x=0 (both signs), y=0 (both signs), z=0, x=y where a formula that divides by cos/sin of the azimuth "
         "would produce 0/0, with R the Euclidean distance; mkusetcoordinfo's A-B-C construction through rectangular, cylindrical and spherical reference "
         "systems gives T^T T=I, det +1, z along +(B-A), C in the x-z plane on the +x side, origin=A in basic. rbgeom_uset (cylindrical/spherical local "
         "frames, q-set grids, scalar points), coordinate queries through random 3-deep chains, rbmove on USET tables and formrbe3: bounded float checks "
         "against an independent geometric oracle with grids at 0/90/180/270/45/135 degrees.",
    note="Partial. Trusted: sympy, math/NumPy shims. Floats are reals, angles in degrees. Not covered: replace_basic_cs (raises with the installed pandas on "
         "the unchanged tree), rbcoords, build_coords ordering logic; rbgeom_uset and formrbe3 only bounded.",
    technique="real functions executed on symbolic inputs (sympy trig/sqrt normal forms, exact special-position cases); orientation signs by continuity at a witness; bounded float oracle for the pandas-based functions"),
 "C19": dict(
    text="Proved with the real functions: psd.area (sympy) - for 3 break points x 2 columns with symbolic frequencies, levels and slopes, every column equals "
         "the sum over segments of the integral of p1 (x/f1)^s dx, for generic slopes, for slopes exactly -1 (log branch) and mixed; psd.interp (interp1d under "
         "contract) reproduces the specification at its own frequencies (log-log and linear) and equals p1 (f/f1)^s inside a segment; dsp.resample (lfilter "
         "under contract, symbolic samples) returns ceil(n p/q) samples along the data axis with the other axes unchanged, reproduces constants exactly, "
         "returns the positions t0 + k dt q/p, keeps the original samples when upsampling (each coefficient to 1e-13) and, for 1-D/2-D/3-D data along any axis "
         "incl. negative axes, equals lane-wise 1-D resampling with the data axis restored; dsp._find_closest_times / _find_closest_previous_times (z3, every "
         "path, symbolic ascending times, 1-4 old x 1-2 new) return the nearest sample with ties to the earlier one / the latest earlier sample. "
         "psd.rescale band conservation, the |s+1|<1e-5 band of area, fixtime end to end and Lanczos accuracy: bounded float checks.",
    note="Partial. Trusted: sympy, z3, shims, interp1d/lfilter contracts; Kaiser window and sinc taps numeric. Sizes fixed, values symbolic. Floats are reals. "
         "numba variants of the nearest-sample kernels are not the ones running here.",
    technique="real functions executed on symbolic inputs (sympy exp/log identities; linear-coefficient extraction); dynamic symbolic execution with z3 over all paths for the nearest-sample kernels; bounded float checks"),
 "C20": dict(
    text="Definition conformance only. The real ksingle, kdouble, _getr and order_stats run with SciPy's distribution functions as uninterpreted symbols: "
         "ksingle == nct.ppf(c, n-1, sqrt(n) norm.ppf(p))/sqrt(n); kdouble == sqrt((n-1)/chi2.ppf(1-c, n-1)) r; one iteration of _getr is the exact Newton step "
         "r - g(r)/g'(r) for the documented coverage residual g(r)=Phi(1/sqrt n + r)-Phi(1/sqrt n - r)-p (derivative checked with Phi = erf form, at "
         "witnesses in the low- and high-coverage regimes); order_stats('c') == binom.sf(r-1, n, 1-p); order_stats('n') hands brentq the function "
         "(1-c)-(1-betainc(r, n-r+1, 1-p)) with a tolerance <= 1e-9 and rounds up. The probability statements themselves - coverage equation, monotonicity in "
         "p and c, convergence to the normal quantile from above, minimality of the returned sample size incl. narrowly met confidences - are theorems about "
         "SciPy's special functions and root finder: bounded brute-force checks, labelled bounded.",
    note="Thin by nature: a contract on this code can pin the wiring, not the statistics. Trusted: sympy, shims. Not covered deductively: order_stats('r'), ('p').",
    technique="real functions executed with uninterpreted distribution functions (term equality), symbolic Newton-step check (sympy); bounded brute-force checks for the probabilistic clauses"),
 "C12": dict(
    text="format_float8, format_float16, format_double16 (with _format_scientific8/16) and nas_sscanf are re-parsed from the working tree and executed symbolically "
         "(vc/strsym.py: an interpreter for the Python subset they use over a symbolic-string domain; z3 decides every branch, all feasible paths explored) for "
         "v = +-m 10^e with 1 <= m < 10 symbolic and e a concrete decade - the thorough tier runs every decade -324..308 of the double range, the quick tier every "
         "decade from 1e-17 to 1e17, every exponent-length change (1e+-9/10, 1e+-99/100, 1e+-307/308, 1e-323/324) and a thinned set elsewhere. On every path: "
         "O1 the field is exactly 8/16 characters; O2 it is a real literal (decimal point or exponent); O3 nas_sscanf (run symbolically on the symbolic text, "
         "including its int -> float -> d->e -> sign->e+- fall-through chain) returns a float; O4 |nas_sscanf(field) - v| <= 0.505 units of the last digit the "
         "width allows for that sign and decade (best of fixed and scientific notation), with the two-stage rounding of the scientific helpers modelled. "
         "Zero and -0.0 concretely. Cards of 1..60 fields through wtcard8/16/16d -> rdcards (fixed and comma-separated): bounded round trip. Two genuine defects "
         "found by O1/O2 were repaired in the repository (see KNOWN_FINDINGS).",
    note="Trusted: z3, the interpreter and string domain in vc/strsym.py, the CPython format/float/int contracts stated there (rounding modelled as 'within 1/2', ties "
         "both ways - a sound over-approximation). Doubles are reals. Not covered deductively: wtcard*/_rdfixed/_rdcomma.",
    technique="symbolic execution of the real source (AST re-parsed every run) over a symbolic decimal-string domain, per decade and sign, all paths; obligations discharged by z3 (LIA/LRA); counterexample doubles replayed on the real functions; bounded card round trips"),
 "C04": dict(
    text="Deductive part (z3): the arithmetic on which writer and reader must agree is extracted from the real source by AST on every run - the assignments of L, IS and "
         "nwords in the nested writers of _write_binary_nonbigmat/_write_ascii_nonbigmat/_write_binary_bigmat and the decoding assignments of _rd_nonbigmat_binary/"
         "_rd_nonbigmat_ascii/_rd_bigmat_binary: decode(encode(start row, run)) == (start row, run) for every start row and run length and real/complex multiplier; "
         "the column word count equals what the reader consumes per string; every value handed to a 32-bit struct field fits (outside one recorded region); and "
         "every ASCII number rendered with the format string the real header code builds has exactly the announced width numlen, for both digit settings, both "
         "signs and every decade (symbolic string domain; outside one recorded region). Loop contracts (contracts/op4_writers.py) put the binary WRITERS _write_binary (dense), "
         "_write_binary_bigmat and _write_binary_nonbigmat (ndarray input; _write_binary_sparse and the nested helpers inlined) on a ghost output file: one record per column with data, "
         "every record / string header equal to the format definition that the READER contract of C11 takes as its precondition (the same Python functions dense_record_def / "
         "string_header_def), values = the column's rows first..last non-zero / each maximal run, strings fill the record exactly, end record icol = cols+1 - for every matrix, "
         "number of columns and runs (255 obligations, ~2 s); with C11's reader obligations this is the binary round trip as a lemma over two contracts. Bounded part: real op4.write -> load/dir over binary x byte order x layout x "
         "real/complex x ndarray/scipy-sparse input x dense/sparse/auto read, several matrices per file, magnitudes to 1e+-308, 65535/65536 rows, runs >= 3000 values. "
         "Two known findings (D3 ASCII field overflow, D4 nonbigmat string header overflow).",
    note="Partial: the ASCII writers, the scipy-sparse input branch and the header writer are only exercised by the bounded round trips. Trusted: z3, AST extraction (fails closed), printf %E contract; assumed in the writer contracts: numpy nonzero/slicing/.dtype semantics, _sparse_col_stats returns the maximal runs, _write_binary_header's contract, 32-bit capacity of the format.",
    technique="loop contracts of the real binary writers on a ghost output file (VC generator over the AST, z3), record definitions shared with the reader contracts; verification conditions generated from AST-extracted assignments of the real writer/reader (z3 LIA); symbolic string domain for the field width; known-finding regions carved out; bounded write->read round trips"),
 "C11": dict(
    text="Deductive part: loop contracts over a GHOST FILE (byte offset + uninterpreted content; fp.read/seek, Struct.unpack, struct.unpack, np.fromfile are contract objects of the VC generator) for the binary OUTPUT4 column readers _rd_dense/_rd_bigmat/_rd_nonbigmat_binary, _skipop4_binary and the tail of _loadop4_binary (reader called under its contract), and for OUTPUT2 rdop2matrix/skipop2matrix (with _getkey inlined): the record grammars are recursive well-formedness predicates; every read has the size of the struct it is unpacked with, every string is stored at the (row, column, file offset, count) the grammar defines (complex row doubling included), reader and skipper end on the same byte - for every file, any number of columns and strings (induction over both loops, ~630 obligations, z3). The class invariant of _op4open_read (struct sizes, byte order, words per real) is decided by running its real binary branch for both integer widths and byte orders. The rest is a bounded differential check, stated as such: an encoder that shares no code with pyYeti (vc/nasenc.py, its record skeleton compared with a Nastran-written sample "
         "file on every run) lays out matrices and tables in every physical variant the formats permit - OUTPUT4 binary {byte order} x {32/64-bit integers} x {dense, bigmat, "
         "nonbigmat} x {real/complex, single/double} x string partitions (maximal runs, runs split at arbitrary places, runs merged with explicit zeros), strings of >= 3000 values "
         "(struct -> fromfile cut-over), ASCII with E/D exponents and several announced widths; OUTPUT2 {byte order} x {32/64-bit keys} x {with/without header} with matrices of "
         "types 1-4, repeated names and multi-part table records - and the real readers must return exactly the encoded content in dense, sparse and auto read modes; dir() and "
         "OP2.directory() must agree with full reads and with the byte offsets the encoder recorded; a named subset must equal filtering; skipping must leave the reader at the "
         "next data block. Deductive part (z3, small): reader arithmetic extracted by AST - format detection for every legal first word, the skip distance of _skipop4_binary, "
         "values-per-string of rdop2matrix for every integer width and precision, bigmat/nonbigmat string decoding.",
    note="The ghost-file contracts assume a well-formed, long-enough file and the contracts of struct.unpack / np.fromfile / _put_binary_values* (block stored at row, column); the header loop of _loadop4_binary, the ASCII readers, OUTPUT2 name/table/record readers, directory and set_position are covered by the bounded differential part only (never counted as proved). "
         "Trusted: the format grammar transcribed in vc/nasenc.py.",
    technique="loop contracts over a ghost file (vc.symex contract objects, recursive format predicates, z3); verification conditions from AST-extracted reader arithmetic; bounded differential check against an independent format encoder"),
}
NOT_APPLICABLE = {}
