#!/bin/bash
# usage: tools/import_seed.sh <worktree> <PID> <first index> "<pytest files>"   -> copies seed_1/seed_2 to seeded/PID_<idx>, confirms, runs the property's check on the mutated copy
wt=$1; pid=$2; idx=$3; tests=$4
cd /verif
for k in 1 2; do
  n=$((idx + k - 1)); d=seeded/${pid}_$n
  rm -rf $d; mkdir -p $d; cp $wt/seed_$k/patch.diff $wt/seed_$k/demo.py $wt/seed_$k/meta.json $d/ 2>/dev/null
  tools/confirm_seed.py $d "$tests" 2>&1 | tail -1 | cut -c1-200
  echo "== ${pid}_$n mutest:"; tools/mutest.py $pid --patch $d/patch.diff 2>&1 | grep -E "^VIOLATION|UNDECIDED|MUTEST|undecided" | cut -c1-260
done
