#!/usr/bin/env python3
"""Confirm a seeded change independently: scratch worktree of /repo (under /tmp), demo passes without the patch,
patch applies, named tests give the same outcome as on the clean tree, demo fails with the patch. Records the outcome in meta.json.
usage: tools/confirm_seed.py seeded/<id> "<pytest args>"
"""
import sys, os, subprocess, shutil, json, tempfile
seed = os.path.abspath(sys.argv[1]); tests = sys.argv[2]
wt = tempfile.mkdtemp(prefix="verif_cs_"); os.rmdir(wt)
def sh(cmd, **k):
    return subprocess.run(cmd, shell=True, capture_output=True, text=True, **k)
out = {}
import re
def counts(t):
    return tuple(sorted(re.findall(r'(\d+) (passed|failed|error)', t)))
try:
    r = sh("git -C /repo worktree add -q %s HEAD" % wt); assert r.returncode == 0, r.stderr
    dst = os.path.join(wt, "seed_x"); shutil.copytree(seed, dst)
    env = dict(os.environ, PYTHONPATH=wt)
    def tests_run():
        t = sh("/venv/bin/python -m pytest -q -p no:cacheprovider %s 2>&1 | tail -1" % tests, cwd=wt, env=env)
        return t.stdout.strip()
    def build_c():
        return sh("gcc -shared -fPIC -O1 -I$(/venv/bin/python -c \"import sysconfig;print(sysconfig.get_paths()['include'])\") "
                  "-I$(/venv/bin/python -c \"import numpy;print(numpy.get_include())\") pyyeti/rainflow/c_rain.c "
                  "-o pyyeti/rainflow/c_rain.cpython-312-x86_64-linux-gnu.so", cwd=wt)
    d0 = sh("/venv/bin/python seed_x/demo.py", cwd=wt, env=env)
    out["demo_clean_exit"] = d0.returncode
    out["tests_clean"] = tests_run()
    a = sh("git apply seed_x/patch.diff", cwd=wt); out["patch_applies"] = a.returncode == 0
    if "c_rain.c" in open(os.path.join(seed, "patch.diff")).read():
        b = build_c(); out["c_build"] = b.returncode
    out["tests_patched"] = tests_run()
    d1 = sh("/venv/bin/python seed_x/demo.py", cwd=wt, env=env)
    out["demo_patched_exit"] = d1.returncode
    out["demo_patched_tail"] = (d1.stdout + d1.stderr).strip()[-300:]
    out["confirmed"] = bool(out["demo_clean_exit"] == 0 and out["patch_applies"] and out["demo_patched_exit"] != 0
                            and counts(out["tests_clean"]) == counts(out["tests_patched"]))
finally:
    sh("git -C /repo worktree remove --force %s" % wt)
    shutil.rmtree(wt, ignore_errors=True)
mp = os.path.join(seed, "meta.json")
m = json.load(open(mp)); m["confirmed_by_verif"] = out
json.dump(m, open(mp, "w"), indent=1)
print(json.dumps(out, indent=1))
