#!/usr/bin/env python3
"""Regenerate MANIFEST.json from tools/manifest_src.py (single source of truth for claims)."""
import json, os, sys
here = os.path.dirname(os.path.abspath(__file__))
sys.path.insert(0, here)
import manifest_src as M
props = [json.loads(l)["id"] for l in open(os.path.join(here, "..", "properties.jsonl"))]
checks, na = [], []
for pid in props:
    if pid in M.CLAIMS:
        c = M.CLAIMS[pid]
        checks.append({
            "property_id": pid,
            "quick_cmd": "./check %s --tier quick" % pid,
            "thorough_cmd": "./check %s --tier thorough" % pid,
            "evidence_file": "evidence/%s.json" % pid,
            "replay_cmd_template": "./check %s --replay {path}" % pid,
            "engine": "vc",
            "level_claimed": {"category": c.get("category", "proof"), "text": c["text"], "design_ref": c.get("design_ref", "DESIGN.md section 4, " + pid)},
            "level_note": c["note"],
            "technique": c["technique"],
        })
    else:
        na.append({"property_id": pid, "reason": M.NOT_APPLICABLE.get(pid, "no check built yet in this session; nothing is claimed")})
man = {
    "version": 1,
    "setup_cmd": "./setup.sh",
    "hooks": {"guard": "PYYETI_VERIF", "enable": "none needed: the proofs read the source; no instrumentation is compiled in",
              "baseline_off_cmd": "cd /repo && /venv/bin/python -m pytest -ra -q -p no:cacheprovider --timeout=900 --continue-on-collection-errors",
              "source_commits": M.HOOK_COMMITS, "add_only": True},
    "engines": [{"name": "vc", "path": "vc/", "serves_properties": sorted(M.CLAIMS),
                 "kind_free_text": "verification-condition generator over the real Python source (ast) and the clang AST of c_rain.c; real functions executed on "
                                   "symbolic values (sympy scalars, exact power series, z3-backed values with all-path exploration, symbolic decimal strings "
                                   "interpreted from the re-parsed AST); back ends: z3/cvc5, sympy normal forms, exact rational arithmetic; relational/term-level "
                                   "equality; bounded stand-ins labelled as such"}],
    "checks": checks,
    "not_applicable": na,
    "notes": M.NOTES,
}
json.dump(man, open(os.path.join(here, "..", "MANIFEST.json"), "w"), indent=1)
print("claimed:", [c["property_id"] for c in checks])
