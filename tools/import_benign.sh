#!/bin/bash
# usage: tools/import_benign.sh <worktree> <PID>  -> copies benign_k to benign/PID_k and runs the property's check on the changed copy (expected: exit 0)
wt=$1; pid=$2
cd /verif
for k in 1 2 3 4; do
  [ -f $wt/benign_$k/patch.diff ] || continue
  d=benign/${pid}_$k; rm -rf $d; mkdir -p $d; cp $wt/benign_$k/patch.diff $wt/benign_$k/meta.json $d/ 2>/dev/null; cp $wt/benign_$k/check.py $d/ 2>/dev/null
  echo "== ${pid}_$k benign:"; tools/mutest.py $pid --patch $d/patch.diff 2>&1 | grep -E "^VIOLATION|UNDECIDED|MUTEST|undecided|quick:" | cut -c1-300
done
