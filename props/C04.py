"""C04 - OUTPUT4 write followed by read is the identity (DESIGN.md section C04).

Deductive part (z3): the arithmetic the writer and the reader must agree on is EXTRACTED from the real source by AST on every run -
the assignments computing L, IS and nwords in the nested writers of _write_binary_nonbigmat / _write_ascii_nonbigmat /
_write_binary_bigmat and the assignments decoding L and the row in _rd_nonbigmat_binary / _rd_nonbigmat_ascii / _rd_bigmat_binary -
and checked as formulas: decode(encode(r0, run)) == (r0, run) for every start row and run length, the column word count equals the
sum of what the strings consume, every value handed to a 32-bit struct.pack fits, and every ASCII number rendered with the format
the real header code builds has exactly the announced field width, for every decade and sign (symbolic string domain, vc/strsym.py).
Two obligations fail on the unchanged tree for stated input regions: recorded known findings (D3, D4).
Bounded part: the real op4.write -> op4.read/load/dir on enumerated and random matrices over every option combination, including the
large structures where the format has limits (65535/65536 rows, runs of >= 3000 values, non-native byte order, complex + sparse).
"""
import ast, hashlib, io, re, itertools, json, os, shutil, sys, tempfile, time, traceback, types, warnings
from fractions import Fraction
import numpy as np
import z3
from vc import report, dse, strsym

PID = "C04"
OP4 = "pyyeti/nastran/op4.py"


# ------------------------------------------------------------------------------------------------------------------
def _find_func(tree, path):
    node = tree
    for name in path:
        nxt = None
        for n in ast.walk(node):
            if isinstance(n, (ast.FunctionDef, ast.ClassDef)) and n.name == name and n is not node:
                nxt = n
                break
        if nxt is None:
            raise LookupError("function %s not found" % "/".join(path))
        node = nxt
    return node


def _assign(fn, target):
    for n in ast.walk(fn):
        if isinstance(n, ast.Assign) and len(n.targets) == 1 and isinstance(n.targets[0], ast.Name) and n.targets[0].id == target:
            return n.value
    raise LookupError("assignment to %s not found in %s" % (target, fn.name))


def zexpr(e, env):
    """Python integer expression -> z3 Int term (shifts by constants are multiplications / floor divisions by powers of two)"""
    if isinstance(e, ast.Constant) and isinstance(e.value, int):
        return z3.IntVal(e.value)
    if isinstance(e, ast.Name):
        return env[e.id]
    if isinstance(e, ast.BinOp):
        a, b = zexpr(e.left, env), zexpr(e.right, env)
        if isinstance(e.op, ast.Add):
            return a + b
        if isinstance(e.op, ast.Sub):
            return a - b
        if isinstance(e.op, ast.Mult):
            return a * b
        if isinstance(e.op, ast.FloorDiv):
            return a / b
        if isinstance(e.op, ast.Mod):
            return a % b
        if isinstance(e.op, ast.BitAnd):
            k = z3.simplify(b)
            if z3.is_int_value(k) and k.as_long() >= 0 and (k.as_long() & (k.as_long() + 1)) == 0:
                return a % (k.as_long() + 1)            # x & (2^k - 1) == x mod 2^k for every Python int
            raise strsym.Unsupported("& with something other than a constant mask 2^k - 1")
        if isinstance(e.op, (ast.LShift, ast.RShift)):
            k = z3.simplify(b)
            if not z3.is_int_value(k):
                raise strsym.Unsupported("shift by a non-constant")
            return a * (2 ** k.as_long()) if isinstance(e.op, ast.LShift) else a / (2 ** k.as_long())
    raise strsym.Unsupported("expression %s" % ast.dump(e)[:80])


def _prove(name, hyps, goal, known_region=None):
    """returns a dict verdict; when a known-finding region is given the obligation is split: outside the region it must prove, inside a model is reported"""
    t0 = time.time()
    s = z3.Solver()
    s.set("timeout", 30000)
    s.add(*hyps)
    if known_region is not None:
        s.add(z3.Not(known_region))
    s.add(z3.Not(goal))
    r = s.check()
    det = {}
    if r == z3.sat:
        det["model"] = {str(d): str(s.model()[d]) for d in s.model().decls()}
    st = "proved" if r == z3.unsat else ("failed" if r == z3.sat else "undecided")
    if known_region is not None:
        s2 = z3.Solver()
        s2.add(*hyps)
        s2.add(known_region, z3.Not(goal))
        r2 = s2.check()
        det["inside_known_region"] = "fails (model %s)" % {str(d): str(s2.model()[d]) for d in s2.model().decls()} if r2 == z3.sat else str(r2)
    return dict(name=name, status=st, seconds=time.time() - t0, detail=det)


def kernel_obligations(known_keys=()):
    tree = ast.parse(report.read_source(OP4))
    out = []
    r0, r1, mult = z3.Ints("r0 r1 multiplier")
    dom = [r0 >= 0, r1 >= 1, r0 + r1 <= 65535, z3.Or(mult == 1, mult == 2)]          # runs the nonbigmat writers can be asked to write (rows < 65536)
    for wname, rname, wper_vals in (("_write_binary_nonbigmat", "_rd_nonbigmat_binary", (2, 1)), ("_write_ascii_nonbigmat", "_rd_nonbigmat_ascii", (2,))):
        w = _find_func(tree, ["OP4", wname, "_write_data_string"])
        rd = _find_func(tree, ["OP4", rname])
        env = {"r0": r0, "r1": r1, "multiplier": mult}
        env["L"] = zexpr(_assign(w, "L"), env)
        IS = zexpr(_assign(w, "IS"), env)
        renv = {"IS": IS}
        renv["L"] = zexpr(_assign(rd, "L"), renv)
        rr = zexpr(_assign(rd, "r"), renv)
        out.append(_prove("%s / %s::decoded string length == written string length (L) for every start row and run" % (wname, rname), dom, renv["L"] == env["L"]))
        out.append(_prove("%s / %s::decoded row (0-based) == start row of the run" % (wname, rname), dom, rr == r0))
        if wname.startswith("_write_binary"):
            out.append(_prove("%s::the packed string header IS fits a signed 32-bit struct field for every run a matrix with < 65536 rows can contain" % wname, dom,
                              z3.And(IS > 0, IS < 2 ** 31), known_region=((2 * r1 * mult + 1 >= 2 ** 15) if "nonbigmat.IS-overflow" in known_keys else None)))
        else:
            out.append(_prove("%s::the string header IS fits its 11-character line" % wname, dom, z3.And(IS > 0, IS < 10 ** 11)))
        # word bookkeeping: a column of k strings: nwords == sum over strings of (L_s + 1), for k = 1..3
        hdr = _find_func(tree, ["OP4", wname, "_write_col_header"])
        nw_expr = _assign(hdr, "nwords")            # ind.shape[0] + 2 * sum(ind[:, 1]) * multiplier
        for k in (1, 2, 3):
            runs = [z3.Int("run%d" % i) for i in range(k)]
            total = _nwords(nw_expr, k, runs, mult)
            consumed = sum((2 * rn * mult) + 1 for rn in runs)
            out.append(_prove("%s::column word count == what the reader subtracts per string (L+1), %d strings" % (wname, k), [rn >= 1 for rn in runs] + [z3.Or(mult == 1, mult == 2)], total == consumed))
    # bigmat: L+1 and row+1 are written as two integers
    w = _find_func(tree, ["OP4", "_write_binary_bigmat", "_write_data_string"])
    rd = _find_func(tree, ["OP4", "_rd_bigmat_binary"])
    env = {"r0": r0, "r1": r1, "multiplier": mult}
    Lw = zexpr(_assign(w, "L"), env)
    packs = [n for n in ast.walk(w) if isinstance(n, ast.Call) and isinstance(n.func, ast.Attribute) and n.func.attr == "pack"]
    a0, a1 = [zexpr(a, dict(env, L=Lw)) for a in packs[0].args]
    wper = z3.Int("wper")
    renv = {"L": a0, "r": a1, "wper": wper}
    # reader: nwords -= L + 1 ; L = (L - 1) // wper ; r -= 1
    Lr = None
    for n in ast.walk(rd):
        if isinstance(n, ast.Assign) and isinstance(n.targets[0], ast.Name) and n.targets[0].id == "L" and isinstance(n.value, ast.BinOp):
            Lr = zexpr(n.value, renv)
    bdom = [r0 >= 0, r1 >= 1, z3.Or(mult == 1, mult == 2), r0 + r1 < 2 ** 31]
    out.append(_prove("_write_binary_bigmat / _rd_bigmat_binary::values per string decoded == values written (double precision, 2 words per value)", bdom + [wper == 2], Lr == r1 * mult))
    out.append(_prove("_write_binary_bigmat / _rd_bigmat_binary::row written (1-based) - 1 == start row", bdom, a1 - 1 == r0))
    return out


def _nwords(e, k, runs, mult):
    """evaluate `ind.shape[0] + 2 * sum(ind[:, 1]) * multiplier` for a column with k strings of the given run lengths"""
    if isinstance(e, ast.BinOp):
        a, b = _nwords(e.left, k, runs, mult), _nwords(e.right, k, runs, mult)
        return a + b if isinstance(e.op, ast.Add) else a * b
    if isinstance(e, ast.Constant):
        return z3.IntVal(e.value)
    if isinstance(e, ast.Name) and e.id == "multiplier":
        return mult
    if isinstance(e, ast.Subscript):         # ind.shape[0]
        return z3.IntVal(k)
    if isinstance(e, ast.Call) and getattr(e.func, "id", "") == "sum":
        return sum(runs)
    raise strsym.Unsupported("nwords expression %s" % ast.dump(e)[:80])


def ascii_width_case(args):
    """len(numform % x) == numlen for x = +-m 10^e, with numlen/numform computed by the real header code's own expressions"""
    digits, neg, e = args
    t0 = time.time()
    tree = ast.parse(report.read_source(OP4))
    hdr = _find_func(tree, ["OP4", "_write_ascii_header"])
    sys.path.insert(0, report.REPO)
    from pyyeti.nastran import op4 as _op4
    expd = _op4.OP4()._expdigits
    genv = {"digits": digits, "self": types.SimpleNamespace(_expdigits=expd)}
    numlen = eval(compile(ast.Expression(_assign(hdr, "numlen")), "<numlen>", "eval"), genv)
    genv["numlen"] = numlen
    numform = eval(compile(ast.Expression(_assign(hdr, "numform")), "<numform>", "eval"), genv)
    spec = numform[1:]                       # '%25.16E' -> '25.16E'
    inp = strsym.Input(neg, e)
    ex = dse.Explorer(max_paths=50)
    res = dict(digits=digits, neg=neg, e=e, numform=numform, numlen=numlen, paths=0, bad=[], und=[])

    def body():
        strsym._FRESH[0] = 0
        strsym.CTX = strsym.Ctx(ex.decide, lambda f: ex.pc.append(f))
        return strsym.sym_format(inp.v, spec.replace("E", "e"), inp)
    try:
        for pc, val, exc in ex.explore(body, assumptions=inp.pre):
            res["paths"] += 1
            if exc is not None:
                res["und"].append(repr(exc))
                continue
            # C's %E: exponent has at least two digits; three when |exponent| >= 100.  sym_format renders two digits minimum as Python/C do.
            if len(val) != numlen:
                res["bad"].append(dict(width=len(val), field=val.text()))
    except Exception as ex_:
        res["und"].append(repr(ex_))
    res["seconds"] = time.time() - t0
    return res


# ------------------------------------------------------------------------------------------------------------------
def _roundtrip(op4, tmp, names, mats, forms, binary, endian, sparse, digits, readmodes, want_forms=None, ref=None):
    fn = os.path.join(tmp, "t.op4")
    op4.write(fn, names, mats, binary=binary, digits=digits, endian=endian, sparse=sparse, forms=forms)
    problems = []
    listing = op4.dir(fn, verbose=False)
    for rm in readmodes:
        got = op4.load(fn, into="list", sparse=rm)
        gn, gm, gf, gt = got
        if [x.lower() for x in names] != list(gn):
            problems.append("names/order: %s" % (gn,))
            continue
        for k, (m0, m1) in enumerate(zip(mats, gm)):
            import scipy.sparse as sps
            a0 = m0.toarray() if sps.issparse(m0) else np.asarray(m0)
            if ref is not None:
                a0 = np.asarray(ref[k])          # the mathematical matrix the (possibly non-canonical) sparse input represents
            a1 = m1.toarray() if sps.issparse(m1) else np.asarray(m1)
            if a0.ndim == 1:
                a0 = a0.reshape(1, -1)
            if a1.shape != a0.shape:
                problems.append("shape of %s: %s vs %s (read mode %s)" % (names[k], a1.shape, a0.shape, rm))
                continue
            if binary:
                same = np.array_equal(a1, a0.astype(a1.dtype))
            else:
                same = np.allclose(a1, a0, rtol=10.0 ** (1 - digits), atol=0)
            if not same:
                problems.append("values of %s differ (read mode %s, max abs diff %g)" % (names[k], rm, float(abs(a1 - a0).max())))
            want_t = 4 if np.iscomplexobj(a0) else 2
            if gt[k] != want_t:
                problems.append("type of %s: %s" % (names[k], gt[k]))
            if forms is not None and forms[k] is not None and gf[k] != forms[k]:
                problems.append("form of %s: %s vs %s" % (names[k], gf[k], forms[k]))
            if want_forms is not None and gf[k] != want_forms[k]:
                problems.append("form of %s read back as %s, expected %s (read mode %s)" % (names[k], gf[k], want_forms[k], rm))
            if want_forms is not None and len(listing) > 2 and list(listing[2])[k] != want_forms[k]:
                problems.append("dir() reports form %s for %s, expected %s" % (list(listing[2])[k], names[k], want_forms[k]))
        if list(listing[0]) != list(gn) or [tuple(x) for x in listing[1]] != [tuple((m.shape if np.ndim(m) == 2 else (1, np.size(m)))) for m in mats]:
            problems.append("dir() listing differs from what load returns: %s %s" % (listing[0], listing[1]))
    return problems


def bounded_roundtrips(seed, quick):
    sys.path.insert(0, report.REPO)
    from pyyeti.nastran import op4
    import scipy.sparse as sps
    rng = np.random.RandomState(seed)
    tmp = tempfile.mkdtemp(prefix="verif_c04_")
    ev = 0
    try:
        mags = [1.0, -1.0, 1e-30, -3.7e99, 2.5e-99, 1.7976931348623157e308, -2.2250738585072014e-308, 123456.789]
        shapes = [(1, 1), (3, 2), (5, 4), (6, 1), (1, 7), (4, 6), (3, 0), (0, 2), (0, 0)]
        combos = []
        for binary in (True, False):
            for endian in (("<", ">") if binary else ("=",)):
                for sparse in ("dense", "bigmat", "nonbigmat", "auto"):
                    combos.append((binary, endian, sparse))
        it = 0
        for binary, endian, sparse in combos:
            for cplx in (False, True):
                for input_sparse in (False, True):
                    nrep = 1 if quick else 12
                    for rep in range(nrep):
                        it += 1
                        mats, names, forms = [], [], []
                        for k in range(rng.randint(1, 4)):
                            r, c = shapes[rng.randint(len(shapes))]
                            M = rng.randn(r, c) * (rng.rand(r, c) < 0.55)
                            pick = rng.rand(r, c) < 0.3
                            mg = np.array(mags)[rng.randint(0, len(mags), pick.sum())]
                            with np.errstate(over="ignore"):
                                M[pick] = np.where(abs(mg) > 1e300, mg, mg * (rng.rand(pick.sum()) + 0.5))
                            if not binary:
                                # ASCII: keep out of the recorded known-finding region (negative value with a 3-digit exponent) - that region has its own witness
                                bad = (M < 0) & ((abs(M) >= 9e99) | ((abs(M) < 1e-99) & (M != 0)))
                                M[bad] = -M[bad]
                                # the largest double rounded to fewer than 17 digits may round above the range (1.797693135E+308 reads as inf): stay at 1.7e308
                                M[abs(M) > 1.7e308] = 1.7e308
                            if cplx:
                                M = M + 1j * rng.randn(r, c) * (rng.rand(r, c) < 0.4)
                            if rng.rand() < 0.2 and c > 0:
                                M[:, rng.randint(c)] = 0
                            if rng.rand() < 0.1:
                                M[:] = 0
                            mats.append(sps.coo_matrix(M) if input_sparse and rng.rand() < 0.8 else M)
                            names.append(["A", "BB", "LONGNAME", "X1", "A"][rng.randint(5)] if k else "M%d" % (it % 7))
                            forms.append(None)
                        # unique names unless we test the list interface explicitly
                        names = ["%s%d" % (n_[:6], i) for i, n_ in enumerate(names)]
                        ev += 1
                        with warnings.catch_warnings():
                            warnings.simplefilter("ignore")
                            try:
                                pr = _roundtrip(op4, tmp, names, mats, None, binary, endian, sparse, (16, 9, 5, 12, 20, 7)[it % 6], (False, True, None))
                            except Exception as ex:
                                tb = traceback.extract_tb(ex.__traceback__)
                                pr = ["exception %r at %s:%s" % (ex, tb[-1].filename, tb[-1].lineno)]
                        if pr:
                            return ev, dict(what="op4 write -> read is not the identity", binary=binary, endian=endian, sparse=sparse, complex=cplx, input_sparse=input_sparse,
                                            problems=pr[:4], shapes=[list(np.shape(m)) for m in mats])
        # SciPy sparse inputs in every storage form (duplicate (row, col) entries that must be summed, explicit zeros, unsorted indices, coo/csr/csc/lil) and
        # structured matrices; with no form given the form read back must be the documented default (6 square symmetric, 1 square, 2 rectangular)
        def variants(M):
            r_, c_ = np.nonzero(M)
            v_ = M[r_, c_]
            out = [("ndarray", M), ("coo", sps.coo_matrix(M)), ("csr", sps.csr_matrix(M)), ("csc", sps.csc_matrix(M)), ("lil", sps.lil_matrix(M))]
            if len(v_):
                # FE-style assembly: every entry split into two or three overlapping contributions (exact binary fractions, so the sum is exact)
                parts = [(r_, c_, v_ * 0.25), (r_, c_, v_ * 0.5), (r_[::2], c_[::2], v_[::2] * 0.25), (r_[1::2], c_[1::2], v_[1::2] * 0.25)]
                rr, cc, vv = (np.concatenate([q[i] for q in parts]) for i in range(3))
                pm = rng.permutation(len(vv))
                out.append(("coo with duplicates", sps.coo_matrix((vv[pm], (rr[pm], cc[pm])), shape=M.shape)))
                # csr from raw arrays with a repeated column index and an explicitly stored zero, indices not sorted
                data, indices, indptr = [], [], [0]
                for i in range(M.shape[0]):
                    js = list(np.nonzero(M[i])[0])[::-1]
                    for j in js:
                        data += [M[i, j] * 0.5, M[i, j] * 0.5]
                        indices += [j, j]
                    free = [j for j in range(M.shape[1]) if M[i, j] == 0]
                    if free:
                        data.append(0.0)
                        indices.append(free[0])
                    indptr.append(len(data))
                out.append(("csr raw with duplicates, explicit zeros, unsorted", sps.csr_matrix((np.array(data, dtype=M.dtype), np.array(indices, dtype=np.int32), np.array(indptr, dtype=np.int32)), shape=M.shape)))
            return out
        n_ = 5
        B0 = np.round(rng.randn(n_, n_) * 8) / 4 * (rng.rand(n_, n_) < 0.7)
        B0[0, n_ - 1] = 1.75; B0[n_ - 1, 0] = -2.5; B0[1, 2] = 3.0; B0[2, 1] = 0.0
        structured = [("general", B0, 1), ("symmetric", B0 + B0.T, 6), ("upper triangular", np.triu(B0), 1), ("strictly upper", np.triu(B0, 1), 1), ("lower triangular", np.tril(B0), 1),
                      ("diagonal", np.diag(np.arange(1.0, n_ + 1)), 6), ("diagonal + one upper term", np.diag(np.arange(1.0, n_ + 1)) + np.eye(n_, k=2) * (np.arange(n_) == 1)[:, None], 1),
                      ("all zero square", np.zeros((3, 3)), 6), ("rectangular", B0[:, :3], 2), ("complex symmetric", (B0 + B0.T) + 1j * (B0 * B0.T), 6),
                      ("complex, hermitian but not symmetric", (B0 + B0.T) + 1j * (B0 - B0.T), 1)]
        for label, M, wantform in structured:
            for vname, minput in variants(M):
                for binary, endian, sparse in combos:
                    if quick and endian == ">":
                        continue
                    for explicit in (None, 1 if M.shape[0] == M.shape[1] else 2):
                        ev += 1
                        with warnings.catch_warnings():
                            warnings.simplefilter("ignore")
                            try:
                                pr = _roundtrip(op4, tmp, ["st"], [minput], None if explicit is None else [explicit], binary, endian, sparse, 16, (False, True, None), want_forms=[wantform if explicit is None else explicit], ref=[M])
                            except Exception as ex:
                                tb = traceback.extract_tb(ex.__traceback__)
                                pr = ["exception %r at %s:%s" % (ex, tb[-1].filename, tb[-1].lineno)]
                        if pr:
                            return ev, dict(what="op4 write -> read is not the identity (%s matrix given as %s)" % (label, vname), binary=binary, endian=endian, sparse=sparse, form_given=explicit, problems=pr[:4])
        # ASCII: every number of digits x layout with long runs of non-zeros (several full lines per string, a partial last line), real and complex
        for digits in (1, 3, 5, 9, 12, 16, 17, 20):
            for sparse_ in ("dense", "bigmat", "nonbigmat"):
                for cplx in (False, True):
                    M = rng.randn(11, 3)
                    M[3, 1] = 0.0; M[0, 2] = 0.0; M[10, 2] = 0.0
                    if cplx:
                        M = M + 1j * rng.randn(11, 3)
                    ev += 1
                    with warnings.catch_warnings():
                        warnings.simplefilter("ignore")
                        try:
                            pr = _roundtrip(op4, tmp, ["long"], [M], None, False, "=", sparse_, digits, (False, True, None))
                        except Exception as ex:
                            tb = traceback.extract_tb(ex.__traceback__)
                            pr = ["exception %r at %s:%s" % (ex, tb[-1].filename, tb[-1].lineno)]
                    if pr:
                        return ev, dict(what="op4 ASCII write -> read is not the identity to the requested digits (digits=%d, long strings)" % digits, binary=False, sparse=sparse_, complex=cplx, digits=digits, problems=pr[:4])
        # element types of the input: every NumPy real / complex / integer / bool type (values exactly representable in double) must be written as the same numbers
        base_ = np.array([[1.5, 0.0, -2.25], [0.0, 4.0, 0.5], [3.0, -1.0, 0.0], [0.0, 0.0, 8.0]])
        for dt_ in ("float64", "float32", "float16", "longdouble", "int64", "int32", "int8", "uint8", "bool", "complex128", "complex64", "clongdouble"):
            if dt_.startswith("c"):
                Md = (base_ + 1j * base_[::-1]).astype(dt_)
            elif dt_ == "bool":
                Md = base_ != 0
            elif "int" in dt_:
                Md = np.abs(base_ * 4).astype(dt_) if dt_.startswith("u") else (base_ * 4).astype(dt_)
            else:
                Md = base_.astype(dt_)
            want_ = Md.astype(complex if dt_.startswith("c") else float)
            for binary in (True, False):
                for sparse_ in ("dense", "bigmat", "nonbigmat"):
                    for inp_ in (Md, sps.coo_matrix(Md) if dt_ not in ("float16", "longdouble", "clongdouble", "bool", "int8", "uint8") else None):
                        if inp_ is None:
                            continue
                        ev += 1
                        with warnings.catch_warnings():
                            warnings.simplefilter("ignore")
                            try:
                                pr = _roundtrip(op4, tmp, ["dt"], [inp_], None, binary, "<" if binary else "=", sparse_, 16, (False, True), ref=[want_])
                            except Exception as ex:
                                tb = traceback.extract_tb(ex.__traceback__)
                                pr = ["exception %r at %s:%s" % (ex, tb[-1].filename, tb[-1].lineno)]
                        if pr:
                            return ev, dict(what="op4 write -> read is not the identity for input of element type %s" % dt_, binary=binary, sparse=sparse_, scipy_input=inp_ is not Md, problems=pr[:3])
        # ASCII nonbigmat / bigmat with a run of >= 16384 consecutive non-zeros (string header above 2^31 in the nonbigmat layout), ndarray and SciPy input
        vlong = np.zeros((20000, 2)); vlong[100:16600, 0] = rng.randn(16500); vlong[5, 1] = 2.0
        for sparse_ in ("nonbigmat", "bigmat"):
            for inp_ in (vlong, sps.coo_matrix(vlong), sps.csc_matrix(vlong)):
                ev += 1
                with warnings.catch_warnings():
                    warnings.simplefilter("ignore")
                    try:
                        pr = _roundtrip(op4, tmp, ["vlong"], [inp_], None, False, "=", sparse_, 16, (False, True), ref=[vlong])
                    except Exception as ex:
                        tb = traceback.extract_tb(ex.__traceback__)
                        pr = ["exception %r at %s:%s" % (ex, tb[-1].filename, tb[-1].lineno)]
                if pr:
                    return ev, dict(what="op4 ASCII write -> read is not the identity for a column with a run of 16500 non-zeros", sparse=sparse_, input=type(inp_).__name__, problems=pr[:3])
        # repeated names through the list interface
        fn = os.path.join(tmp, "rep.op4")
        A, B = np.arange(6.0).reshape(2, 3), np.eye(2)
        op4.write(fn, ["A", "B", "A"], [A, B, 2 * A])
        gn, gm, gf, gt = op4.load(fn, into="list")
        ev += 1
        if list(gn) != ["a", "b", "a"] or not (np.array_equal(gm[0], A) and np.array_equal(gm[2], 2 * A)):
            return ev, dict(what="repeated names are not all returned in file order by the list interface", names=list(gn))
        # repeated names and a name list: every matrix with a requested name comes back, in file order, through the list interface; the dict interface keeps the last one
        seq = [("kaa", A), ("maa", B), ("phi", 3 * A), ("kaa", 5 * A), ("b", 2 * B), ("phi", 7 * A)]
        for binary in (True, False):
            for sparse_ in ("dense", "bigmat"):
                op4.write(fn, [n_ for n_, _ in seq], [m_ for _, m_ in seq], binary=binary, sparse=sparse_)
                for sel in (["kaa"], ["phi", "kaa"], ["b"], ["maa", "phi"], ["kaa", "maa", "phi", "b"]):
                    ev += 1
                    gn, gm, gf, gt = op4.load(fn, namelist=sel, into="list")
                    want = [(n_, m_) for n_, m_ in seq if n_ in sel]
                    if list(gn) != [n_ for n_, _ in want] or not all(np.array_equal(g_, w_[1]) for g_, w_ in zip(gm, want)):
                        return ev, dict(what="list interface with a name list: not every matrix with a requested (repeated) name is returned in file order", namelist=sel, got=list(gn),
                                        want=[n_ for n_, _ in want], binary=binary)
                    dd = op4.load(fn, namelist=sel, into="dct")
                    lastm = {n_: m_ for n_, m_ in want}
                    if sorted(dd) != sorted(lastm) or not all(np.array_equal(dd[k_][0], lastm[k_]) for k_ in lastm):
                        return ev, dict(what="dict interface with a name list and repeated names does not hold the last matrix of each requested name", namelist=sel, binary=binary)
        # structures at the limits of the format
        big = []
        v = np.zeros((65535, 1)); v[[0, 7, 65534], 0] = [1.5, -2.5, 3.5]
        big.append(("65535 rows", v, [(b, s) for b in (True, False) for s in ("nonbigmat", "bigmat", "dense")]))
        v = np.zeros((65536, 1)); v[[0, 9, 65535], 0] = [1.5, -2.5, 3.5]
        big.append(("65536 rows", v, [(b, s) for b in (True, False) for s in ("nonbigmat", "bigmat", "auto")]))
        v = np.zeros((4000, 2)); v[100:3300, 0] = rng.randn(3200); v[5:3100, 1] = rng.randn(3095)
        big.append(("runs >= 3000 values (struct -> fromfile cut-over), real", v, [(True, s) for s in ("dense", "bigmat", "nonbigmat")]))
        vc = np.zeros((2500, 2), complex); vc[10:1710, 0] = rng.randn(1700) + 1j * rng.randn(1700); vc[0:1600, 1] = rng.randn(1600) - 1j * rng.randn(1600)
        big.append(("runs >= 1500 complex values, complex", vc, [(True, s) for s in ("dense", "bigmat", "nonbigmat")]))
        for label, M, opts in big:
            for binary, sparse in opts:
                for endian in (("<", ">") if binary else ("=",)):
                    for minput in (M, sps.coo_matrix(M)):
                        ev += 1
                        with warnings.catch_warnings():
                            warnings.simplefilter("ignore")
                            try:
                                pr = _roundtrip(op4, tmp, ["big"], [minput], None, binary, endian, sparse, 16, (False, True, None))
                            except Exception as ex:
                                tb = traceback.extract_tb(ex.__traceback__)
                                pr = ["exception %r at %s:%s" % (ex, tb[-1].filename, tb[-1].lineno)]
                        if pr:
                            return ev, dict(what="op4 write -> read is not the identity (%s)" % label, binary=binary, endian=endian, sparse=sparse, problems=pr[:4])
        return ev, None
    finally:
        shutil.rmtree(tmp, ignore_errors=True)


def witness_d3():
    """known finding D3: ASCII, negative value with a 3-digit exponent"""
    sys.path.insert(0, report.REPO)
    from pyyeti.nastran import op4
    tmp = tempfile.mkdtemp(prefix="verif_c04_")
    try:
        fn = os.path.join(tmp, "w.op4")
        M = np.array([[1.0, -1e-100, 3.0], [4.0, 5.0, 6.0]])
        try:
            with warnings.catch_warnings():
                warnings.simplefilter("ignore")
                op4.write(fn, "m", M, binary=False)
                back = op4.read(fn)["m"]
            return dict(fails=not np.allclose(back, M, rtol=1e-12, atol=0), got=np.asarray(back).tolist())
        except Exception as ex:
            return dict(fails=True, exception=repr(ex))
    finally:
        shutil.rmtree(tmp, ignore_errors=True)


def witness_d4():
    """known finding D4: binary nonbigmat, dense run of >= 16384 reals"""
    sys.path.insert(0, report.REPO)
    from pyyeti.nastran import op4
    tmp = tempfile.mkdtemp(prefix="verif_c04_")
    try:
        fn = os.path.join(tmp, "w.op4")
        M = np.zeros((20000, 1)); M[:16384, 0] = 1.0
        try:
            op4.write(fn, "m", M, binary=True, sparse="nonbigmat")
            back = op4.read(fn)["m"]
            return dict(fails=not np.array_equal(back, M))
        except Exception as ex:
            return dict(fails=True, exception=repr(ex))
    finally:
        shutil.rmtree(tmp, ignore_errors=True)


def run(tier, seed):
    run = report.Run(PID, tier, seed)
    run.trust("z3 (linear integer arithmetic; shifts by constants as multiplication/floor division)", "vc/strsym.py format contract for '%W.PE' (C printf: two exponent digits, three "
              "when |exponent| >= 100)", "ast extraction of the named assignments (fails closed: a renamed/restructured assignment makes the obligation undecided)")
    run.assume("struct.pack('i') accepts exactly -2^31 .. 2^31-1", "value codecs (struct/np.fromfile) decode what struct.pack encoded (exercised by the bounded part only)")
    run.not_covered += ["the file plumbing around the kernels (record lengths, column loops, header parsing, form/type inference): bounded write->read round trips only",
                        "single-precision files and 64-bit-integer files (the writer produces neither; see C11)"]
    for nm in ("_write_binary_nonbigmat", "_write_ascii_nonbigmat", "_write_binary_bigmat", "_rd_nonbigmat_binary", "_rd_nonbigmat_ascii", "_rd_bigmat_binary", "_write_ascii_header", "_sparse_col_stats"):
        nd = _find_func(ast.parse(report.read_source(OP4)), ["OP4", nm])
        run.add_function(OP4, "OP4." + nm, hashlib.sha256(ast.unparse(nd).encode()).hexdigest()[:16], {"note": "arithmetic assignments extracted by AST"})
    known = {k["obligation"]: k for k in run.known if k.get("status") == "open"}
    try:
        for d in kernel_obligations(tuple(known)):
            st = d["status"]
            run.add_verdicts([report.Verdict(d["name"], st, "z3-%s" % z3.get_version_string(), d["seconds"], "post", OP4, d["detail"])])
    except (LookupError, strsym.Unsupported) as ex:
        run.undecided.append("kernel extraction: %r" % ex)
    # loop contract of the dense binary writer on a ghost output file: every record it writes meets the reader contract's record definition (contracts/op4_writers.py)
    wfail = False
    try:
        from vc import pipeline
        from contracts import op4_writers as OW
        nb = len(run.verdicts)
        pipeline.verify_jobs(run, OW.jobs(report.read_source(OP4)))
        wfail = any(v.status == "failed" for v in run.verdicts[nb:])
        run.assume("_write_binary_header returns (columns, 2 if complex else 1) and appends the 32-byte header record (callee contract assumed in the writer proof; bounded round trips exercise it)",
                   "numpy: np.nonzero(v)[0] lists the non-zero rows in increasing order; slicing and .ravel() give views of the column; `v.dtype = float` reinterprets complex128 as pairs of doubles")
    except Exception as ex:          # noqa: BLE001
        run.undecided.append("op4 writer contract: checker error %r" % (ex,))
    # ASCII field width for every decade and sign
    es = sorted(set(range(-12, 13)) | {-324, -323, -308, -307, -101, -100, -99, -98, 98, 99, 100, 101, 307, 308} | (set(range(-324, 309)) if tier != "quick" else set(range(-300, 301, 60))))
    jobs = [(dg, neg, e) for dg in (16, 9) for neg in (False, True) for e in es]
    outs = report.pool().map(ascii_width_case, jobs, chunksize=8)
    unexpected = []
    for o in outs:
        bad = o["bad"]
        # known-finding region: negative value whose RENDERED exponent has three digits (includes -9.99..e99 rounding up to -1.0E+100)
        in_region = o["neg"] and all(re.search(r"e[+-]\d{3}$", b["field"]) for b in bad)
        name = "ASCII number field[digits=%d, %s, decade 1e%d]::len(numform %% x) == numlen == %d (the width the header announces and the reader slices)" % (o["digits"], "negative" if o["neg"] else "positive", o["e"], o["numlen"])
        if o["und"] or not o["paths"]:
            st = "undecided"
        elif bad and not (in_region and "ascii.field-width" in known):
            st = "failed"
            unexpected.append(o)
        else:
            st = "proved"
        det = {"paths": o["paths"], "numform": o["numform"], "bad": bad[:2], "reason": o["und"][:1] or None}
        if bad and st == "proved":
            det["note"] = "fails inside the recorded known-finding region (negative value, 3-digit exponent) only"
        run.add_verdicts([report.Verdict(name, st, "z3 + symbolic string domain", o["seconds"], "post", OP4, det)])
    for key, wit in (("ascii.field-width", witness_d3), ("nonbigmat.IS-overflow", witness_d4)):
        if key in known:
            run.known_finding(known[key], wit()["fails"])
    ev, cf = report.guarded(run, bounded_roundtrips, seed, tier == "quick")
    run.bounded.append(dict(name="float: real op4.write -> load/dir over binary x endian x layout x real/complex x ndarray/scipy-sparse input x read mode (dense/sparse/auto), several matrices per "
                                 "file, magnitudes to 1e+-308, empty rows/columns/all-zero, repeated names; SciPy inputs in coo/csr/csc/lil form incl. duplicate entries, explicit zeros and unsorted indices; default form (6/1/2) of structured matrices; 65535/65536 rows; runs >= 3000 values in both byte orders",
                            evaluations=ev, failures=0 if cf is None else 1, label="bounded (never counted as proved)"))
    failed = [v for v in run.verdicts if v.status == "failed"]
    if failed:
        v = failed[0]
        conc = None
        if "IS fits" in v.name:
            conc = witness_d4()
        elif "ASCII number field" in v.name:
            conc = witness_d3()
        if conc is None and cf is not None:
            conc = dict(cf, fails=True)            # the bounded round trips found a concrete failing file for the changed code
        if conc is None and wfail:
            try:
                conc = OW.concrete_search()
            except Exception as ex:          # noqa: BLE001
                run.notes.append("writer counterexample search: %r" % (ex,))
        run.violation(v.name, "; ".join(x.name[:100] for x in failed[:5]), dict(failed=[x.as_dict() for x in failed[:8]], verifier_output=v.detail, concrete=conc), concrete=bool(conc and conc.get("fails")))
    elif cf is not None:
        run.violation("bounded:roundtrip", cf["what"], dict(concrete=cf), concrete=True)
    return run.finish()


def replay(path):
    d = json.load(open(path))
    print(json.dumps(d.get("concrete"), indent=1)[:3000])
    return 1 if d.get("concrete") else 0
