"""C20 - tolerance-limit factors and order statistics meet their definitions (DESIGN.md section C20: definition conformance only).

The real functions of pyyeti/stats.py run with SciPy's distribution functions replaced by uninterpreted symbols (so what is
decided is the wiring: which quantile of which distribution with which arguments), and with norm.cdf = (1 + erf(x/sqrt 2))/2 for
the Newton solve of the two-sided factor: one Newton iteration must be r - g(r)/g'(r) with g the documented coverage residual and
g' its exact derivative.  Monotonicity, the large-n limit and integer extremality are theorems about SciPy's nct/binom/betainc
and brentq's convergence - not decidable by a contract on this code: bounded brute-force checks only (labelled bounded).
"""
import ast, hashlib, json, os, sys, time, traceback, types, warnings
import numpy as np
import sympy as sp
from vc import report, alg, npx

PID = "C20"
ST = "pyyeti/stats.py"


class UF:
    """namespace of uninterpreted functions standing for a scipy.stats distribution object"""

    def __init__(self, name):
        self.name = name

    def __getattr__(self, meth):
        f = sp.Function("%s_%s" % (self.name, meth))

        def call(*a):
            arrs = [np.asarray(x) for x in a]
            shape = np.broadcast(*arrs).shape
            if shape == ():
                return alg.S(f(*[alg.expr_of(x.item() if isinstance(x, np.ndarray) else x) for x in arrs]))
            out = np.empty(shape, dtype=object)
            bs = np.broadcast_arrays(*[x.astype(object) for x in arrs])
            for idx in np.ndindex(*shape):
                out[idx] = alg.S(f(*[alg.expr_of(b[idx]) for b in bs]))
            return out.view(alg.SymArr)
        return call


def _uf_identities(cls):
    """sf / isf are expressed through cdf / ppf, so that equivalent SciPy calls give the same term"""
    def sf(self, x, *a):
        return 1 - self.cdf(x, *a)

    def isf(self, q, *a):
        return self.ppf(1 - q, *a)
    cls.sf, cls.isf = sf, isf
    return cls


class NormErf(UF):
    def pdf(self, x):
        g = lambda v: alg.S(sp.exp(-alg.expr_of(v) ** 2 / 2) / sp.sqrt(2 * sp.pi))
        a = np.asarray(x)
        if a.shape == ():
            return g(a.item() if isinstance(x, np.ndarray) else x)
        return np.array([g(v) for v in a.reshape(-1)], dtype=object).reshape(a.shape).view(alg.SymArr)

    def sf(self, x):
        return 1 - self.cdf(x)

    def isf(self, q):
        return self.ppf(1 - q)

    def cdf(self, x):
        g = lambda v: alg.S((1 + sp.erf(alg.expr_of(v) / sp.sqrt(2))) / 2)
        a = np.asarray(x)
        if a.shape == ():
            return g(a.item() if isinstance(x, np.ndarray) else x)
        return np.array([g(v) for v in a.reshape(-1)], dtype=object).reshape(a.shape).view(alg.SymArr)


def _fn(name):
    return sp.Function(name)


def _betainc(a, b, x):
    """numeric arguments: SciPy's betainc (used while bracketing); symbolic argument: an uninterpreted symbol (used to read off the function handed to brentq)"""
    if any(isinstance(v, alg.S) for v in (a, b, x)):
        return alg.S(_fn("betainc")(alg.expr_of(a), alg.expr_of(b), alg.expr_of(x)))
    from scipy.special import betainc as _b
    return _b(a, b, x)


def conformance():
    st = alg.load_module(report.REPO, ST)
    p, c = sp.symbols("p c", positive=True)
    n = sp.Symbol("n", positive=True)
    r = sp.Symbol("r", positive=True)
    items = []
    reg = alg.HashRegime("stats")
    reg.witness.update({p: sp.Rational(1, 2), c: sp.Rational(9, 10), n: 2})
    calls = {}

    def fake_brentq(f, a, b, args=(), **kw):
        calls.setdefault("brentq", []).append(dict(a=a, b=b, args=args, kw=kw, f=f))
        return alg.S(sp.Symbol("ROOT", positive=True))
    nrm = NormErf("norm")
    UFI = _uf_identities(type("UFI", (UF,), {}))
    _el = lambda f: (lambda x: (lambda a: f(a.item() if isinstance(x, np.ndarray) else x) if a.shape == () else
                                np.array([f(v) for v in a.reshape(-1)], dtype=object).reshape(a.shape).view(alg.SymArr))(np.asarray(x)))
    shim = {"np": npx.NPX(), "norm": nrm, "nct": UFI("nct"), "chi2": UFI("chi2"), "binom": UFI("binom"), "brentq": fake_brentq,
            # scipy.special spellings of the same functions (a module that imports them gets the same terms)
            "ndtr": nrm.cdf, "ndtri": nrm.ppf, "erf": _el(lambda v: alg.S(sp.erf(alg.expr_of(v)))), "erfc": _el(lambda v: alg.S(1 - sp.erf(alg.expr_of(v))))}
    shim = {k_: v_ for k_, v_ in shim.items() if k_ in ("np", "norm", "nct", "chi2", "binom", "brentq") or k_ in st.__dict__}
    names = {"k1": "ksingle::== nct.ppf(c, n-1, sqrt(n) norm.ppf(p)) / sqrt(n)"}

    def guarded(name, thunk):
        try:
            items.append((name, thunk()))
        except Exception as ex:
            tb = traceback.extract_tb(ex.__traceback__)
            items.append((name, RuntimeError("symbolic run stopped (tool limit): %r at %s:%s" % (ex, os.path.basename(tb[-1].filename), tb[-1].lineno))))

    def _k1():
        with alg.Shimmed(st, reg, shim):
            k1 = st.ksingle(alg.S(p), alg.S(c), alg.S(n))
        want = _fn("nct_ppf")(c, n - 1, sp.sqrt(n) * _fn("norm_ppf")(p)) / sp.sqrt(n)
        return alg.expr_of(k1) - want
    guarded(names["k1"], _k1)
    # one Newton iteration of _getr
    for wit in ({p: sp.Rational(1, 2), n: 2}, {p: sp.Rational(19, 20), n: 10}, {p: sp.Rational(3, 4), n: 3}):
        reg = alg.HashRegime("getr")
        reg.witness.update(wit)
        r0 = sp.Symbol("R0", positive=True)
        reg.witness[r0] = sp.N(sp.sqrt(2) * sp.erfinv(wit[p]) * (1 + sp.Rational(1, 2) / wit[n]), 30)

        class NormStart(NormErf):
            def ppf(self, q):
                return alg.S(r0 / (1 + 1 / (2 * n)))        # so that the initial guess is the free symbol R0
        ns = NormStart("norm")
        shim2 = dict(shim, norm=ns)
        if "ndtri" in shim2:
            shim2["ndtri"] = ns.ppf

        def _g(reg=reg, shim2=shim2, r0=r0):
            with alg.Shimmed(st, reg, shim2):
                with warnings.catch_warnings():
                    warnings.simplefilter("ignore")
                    r1 = st._getr(alg.S(n), alg.S(p), 5)       # tol = 5: |r - rold| starts at 10 > 5, one iteration, then the step is < 5 at the witness
            rr = sp.Symbol("rr", positive=True)
            Phi = lambda x: (1 + sp.erf(x / sp.sqrt(2))) / 2
            g = Phi(1 / sp.sqrt(n) + rr) - Phi(1 / sp.sqrt(n) - rr) - p       # documented coverage residual
            newton = (rr - g / sp.diff(g, rr)).subs(rr, r0)
            return sp.simplify(alg.expr_of(r1) - newton)
        guarded("_getr::one iteration from R0 is the exact Newton step R0 - g(R0)/g'(R0), g(r) = Phi(1/sqrt n + r) - Phi(1/sqrt n - r) - p [witness p=%s, n=%s]" % (wit[p], wit[n]), _g)
    reg = alg.HashRegime("kdouble")
    reg.witness.update({p: sp.Rational(1, 2), c: sp.Rational(9, 10), n: 4})
    Rsym = sp.Symbol("Rsol", positive=True)
    def _k2(reg=reg):
        with alg.Shimmed(st, reg, dict(shim, _getr=lambda nn, pp, *a_, **k_: alg.S(Rsym))):
            k2 = st.kdouble(alg.S(p), alg.S(c), alg.S(n))
        return alg.expr_of(k2) - sp.sqrt((n - 1) / _fn("chi2_ppf")(1 - c, n - 1)) * Rsym
    guarded("kdouble::== sqrt((n-1)/chi2.ppf(1-c, n-1)) * r  with r the root of the coverage equation (_getr under contract)", _k2)
    reg = alg.HashRegime("order")

    def _oc(reg=reg):
        with alg.Shimmed(st, reg, shim):
            oc = st.order_stats("c", p=alg.S(p), n=alg.S(n), r=alg.S(r))
        return alg.expr_of(oc) - (1 - _fn("binom_cdf")(r - 1, n, 1 - p))
    guarded("order_stats('c')::== binom.sf(r-1, n, 1-p)  (P[at least r of n exceed... ] binomial tail)", _oc)
    # 'n': the function handed to brentq is (1-c) - (1 - betainc(r, n-r+1, 1-p)); the result is rounded up
    with alg.Shimmed(st, alg.HashRegime("order-n"), dict(shim, betainc=_betainc)):
        calls.clear()
        try:
            st.order_stats("n", p=0.9, c=0.95, r=2)
        except Exception:
            pass
        ok = False
        detail = {}
        if calls.get("brentq"):
            cl = calls["brentq"][0]
            nn = sp.Symbol("nn", positive=True)
            val = cl["f"](alg.S(nn), *cl["args"])
            want_f = sp.Rational(1 - 0.95) - (1 - _fn("betainc")(sp.Integer(2 - 1 + 1), nn - (2 - 1), sp.Rational(1 - 0.9)))   # exact binary values of the floats
            d = sp.simplify(alg.expr_of(val) - want_f)
            xtol = cl["kw"].get("xtol", 2e-12)
            ok = d == 0 and xtol <= 1e-9 and cl["kw"].get("rtol", 0) <= 1e-9
            detail = dict(residual=str(d), bracket=[str(cl["a"]), str(cl["b"])], brentq_kwargs={k_: str(v) for k_, v in cl["kw"].items()})
    items.append(("order_stats('n')::root of (1-c) - (1 - betainc(r, n-r+1, 1-p)) by brentq with a tolerance <= 1e-9 (so that ceil() is the smallest integer except within 1e-9 of a tie)",
                  sp.Integer(0 if ok else 1)))
    return items, detail


def term_replay(e):
    """evaluate a term over the uninterpreted SciPy functions with the real ones on a grid; -> (failing point or None, points evaluated)"""
    import scipy.stats as ss, scipy.special as sc
    from sympy.core.function import AppliedUndef
    table = {}
    for f in e.atoms(AppliedUndef):
        nm = f.func.__name__
        if nm == "betainc":
            table[nm] = sc.betainc
        elif "_" in nm and hasattr(ss, nm.split("_")[0]):
            table[nm] = getattr(getattr(ss, nm.split("_")[0]), nm.split("_", 1)[1])
        else:
            return dict(what="unknown function %s in the term" % nm), 0
    syms = sorted(e.free_symbols, key=str)
    grid = dict(p=(0.3, 0.5, 0.9, 0.99), c=(0.1, 0.5, 0.9, 0.95), n=(2, 5, 30), r=(1, 2), Rsol=(0.7, 2.5), ROOT=(10.0,), R0=(1.1,), nn=(7.0,))
    import itertools
    f = sp.lambdify(syms, e, modules=[table, "scipy", "numpy"])
    npts = 0
    for vals in itertools.product(*[grid.get(str(s_), (1.5,)) for s_ in syms]):
        with warnings.catch_warnings():
            warnings.simplefilter("ignore")
            try:
                d = complex(f(*vals))
            except Exception as ex:
                return dict(what="replay raised %r" % ex, point=dict(zip(map(str, syms), vals))), npts
        npts += 1
        if not (abs(d) <= 1e-9):
            return dict(point={str(k_): float(v_) for k_, v_ in zip(syms, vals)}, difference=abs(d)), npts
    return None, npts


def bounded(seed, quick):
    sys.path.insert(0, report.REPO)
    from pyyeti import stats
    from scipy.stats import norm, binom, chi2
    from scipy.integrate import quad
    rng = np.random.RandomState(seed)
    ev = 0
    # two-sided factor: coverage equation holds for low and high coverage, small and large n; monotone in p and c; limit
    for n in (2, 3, 4, 5, 10, 30, 200):
        for p in (0.3, 0.5, 0.7, 0.76, 0.8, 0.9, 0.99, 0.999, 0.9999, 0.99999, 0.999999):
            for c in (0.3, 0.5, 0.9, 0.99):
                with warnings.catch_warnings():
                    warnings.simplefilter("ignore")
                    k = float(stats.kdouble(p, c, n))
                ev += 1
                r = k / np.sqrt((n - 1) / chi2.ppf(1 - c, n - 1))
                cov = norm.cdf(1 / np.sqrt(n) + r) - norm.cdf(1 / np.sqrt(n) - r)
                if abs(cov - p) > 1e-9:
                    return ev, dict(what="kdouble: the r behind the returned factor does not solve the documented coverage equation", p=p, c=c, n=n, coverage=float(cov))
    for n in (2, 5, 30):
        ps = np.linspace(0.3, 0.995, 25)
        with warnings.catch_warnings():
            warnings.simplefilter("ignore")
            k1 = np.array([float(stats.ksingle(pp, 0.9, n)) for pp in ps])
            k2 = np.array([float(stats.kdouble(pp, 0.9, n)) for pp in ps])
            kc = np.array([float(stats.kdouble(0.9, cc, n)) for cc in np.linspace(0.3, 0.99, 20)])
        ev += 3
        if not (np.all(np.diff(k1) > 0) and np.all(np.diff(k2) > 0) and np.all(np.diff(kc) > 0)):
            return ev, dict(what="k-factors are not increasing with coverage/confidence", n=n)
    for p in (0.9, 0.99):
        for c in (0.5, 0.9):
            with warnings.catch_warnings():
                warnings.simplefilter("ignore")
                ks = [float(stats.ksingle(p, c, nn)) for nn in (10, 100, 10000)]
            ev += 1
            if not (ks[0] >= ks[1] >= ks[2] >= norm.ppf(p) - 1e-9 and abs(ks[2] - norm.ppf(p)) < 0.05):
                return ev, dict(what="ksingle does not converge to the normal quantile from above", p=p, c=c, ks=ks)
    # one-sided factor: the defining probability statement P[ xbar + k s >= mu + z_p sigma ] == c, by numerical integration over the chi-square density
    # (no nct), incl. confidence below 50 percent and coverage at/below 50 percent, scalar and broadcast calls
    def conf_of_k(k_, p_, n_):
        zp = norm.ppf(p_)
        from scipy.stats import chi2 as _c2
        f_ = lambda w: _c2.pdf(w, n_ - 1) * norm.cdf(np.sqrt(n_) * (k_ * np.sqrt(w / (n_ - 1)) - zp))
        return quad(f_, 0, np.inf, limit=200)[0]
    for n_ in (3, 8, 30):
        for p_ in (0.3, 0.5, 0.9, 0.99):
            for c_ in (0.1, 0.25, 0.5, 0.9):
                with warnings.catch_warnings():
                    warnings.simplefilter("ignore")
                    k_ = float(stats.ksingle(p_, c_, n_))
                ev += 1
                got_c = conf_of_k(k_, p_, n_)
                if abs(got_c - c_) > 2e-6:
                    return ev, dict(what="ksingle: the returned factor does not satisfy the defining probability statement (confidence of the bound is %.6f, requested %.6f)" % (got_c, c_), p=p_, c=c_, n=n_, k=k_)
    with warnings.catch_warnings():
        warnings.simplefilter("ignore")
        kb = stats.ksingle(np.array([[0.9], [0.5]]), np.array([0.25, 0.9]), 8)
        ks = np.array([[float(stats.ksingle(pp, cc, 8)) for cc in (0.25, 0.9)] for pp in (0.9, 0.5)])
    ev += 1
    if np.shape(kb) != (2, 2) or not np.allclose(kb, ks, rtol=1e-12):
        return ev, dict(what="ksingle with broadcast array arguments differs from the scalar calls")
    # order statistics 'r': the returned rank is the LARGEST rank whose confidence is >= c, element by element for broadcast arguments
    from math import comb as _comb
    def conf_r(r_, n_, p_):
        return sum(_comb(n_, j) * (1 - p_) ** j * p_ ** (n_ - j) for j in range(r_, n_ + 1)) if r_ >= 1 else 1.0
    pgrid, cgrid, ngrid = np.array([0.9, 0.95, 0.99, 0.5]), np.array([0.5, 0.9]), np.array([25, 90, 300])
    with warnings.catch_warnings():
        warnings.simplefilter("ignore")
        rr = stats.order_stats("r", p=pgrid[:, None, None], c=cgrid[None, :, None], n=ngrid[None, None, :])
    ev += 1
    if np.shape(rr) != (4, 2, 3):
        return ev, dict(what="order_stats('r') with broadcast arguments returns shape %s" % (np.shape(rr),))
    for i_, p_ in enumerate(pgrid):
        for j_, c_ in enumerate(cgrid):
            for k2, n_ in enumerate(ngrid):
                r_ = int(rr[i_, j_, k2])
                best = max([q for q in range(0, n_ + 1) if conf_r(q, int(n_), float(p_)) >= c_ - 1e-12])
                near_tie = any(abs(conf_r(q, int(n_), float(p_)) - c_) < 1e-9 for q in (r_, r_ + 1, best))
                if r_ != best and not near_tie:
                    return ev, dict(what="order_stats('r') (broadcast call) does not return the largest rank meeting the confidence", p=float(p_), c=float(c_), n=int(n_), got=r_, want=int(best))
    # order statistics 'p' over the whole range of ranks (1 .. n, i.e. also below the sample median) and confidences on both sides of 0.5: the returned coverage solves
    # P(at least r of n exceed the p-quantile) = sum_{j>=r} C(n,j) (1-p)^j p^(n-j) == c, and decreases as the rank grows
    for n_ in (5, 10, 23):
        for c_ in (0.1, 0.4, 0.5, 0.75, 0.9, 0.99):
            prev = None
            for r_ in range(1, n_ + 1):
                with warnings.catch_warnings():
                    warnings.simplefilter("ignore")
                    pr_ = float(stats.order_stats("p", c=c_, r=r_, n=n_))
                ev += 1
                got_c = conf_r(r_, n_, pr_)
                if not (0.0 <= pr_ <= 1.0) or abs(got_c - c_) > 1e-7:
                    return ev, dict(what="order_stats('p'): the returned coverage does not solve the confidence statement (confidence of the returned p is %.6f, requested %.6f)" % (got_c, c_),
                                    c=c_, r=r_, n=n_, p=pr_)
                if prev is not None and pr_ > prev + 1e-12:
                    return ev, dict(what="order_stats('p') is not decreasing in the rank", c=c_, n=n_, r=r_, p=pr_, p_of_previous_rank=prev)
                prev = pr_
    # order statistics with 2-D arguments in any memory layout (C order, Fortran order, transposed views): every element solves its own (c, r, n) / (p, c, n) problem
    from scipy.stats import beta as _beta
    C2 = np.array([[0.5, 0.9, 0.95], [0.6, 0.75, 0.99]])
    R2 = np.array([[1, 2, 1], [3, 1, 2]])
    N2 = np.array([[40, 90, 60], [120, 35, 200]])
    for lay_name, lay in (("C order", lambda a: np.ascontiguousarray(a)), ("Fortran order", lambda a: np.asfortranarray(a)), ("transposed view", lambda a: np.ascontiguousarray(a.T).T)):
        with warnings.catch_warnings():
            warnings.simplefilter("ignore")
            pp2 = stats.order_stats("p", c=lay(C2), r=lay(R2), n=lay(N2))
            rr2 = stats.order_stats("r", p=lay(np.full(C2.shape, 0.9) + 0.01 * R2), c=lay(C2), n=lay(N2))
        ev += 2
        if np.shape(pp2) != C2.shape or np.shape(rr2) != C2.shape:
            return ev, dict(what="order_stats with 2-D arguments (%s) returns shape %s / %s" % (lay_name, np.shape(pp2), np.shape(rr2)))
        for i_ in range(2):
            for j_ in range(3):
                ci_ = binom.sf(R2[i_, j_] - 1, N2[i_, j_], 1 - pp2[i_, j_])
                if abs(ci_ - C2[i_, j_]) > 1e-8:
                    return ev, dict(what="order_stats('p') with 2-D arguments in %s: element [%d,%d] does not solve its own confidence statement" % (lay_name, i_, j_),
                                    p=float(pp2[i_, j_]), confidence_of_p=float(ci_), requested=float(C2[i_, j_]))
                pij = 0.9 + 0.01 * R2[i_, j_]
                with warnings.catch_warnings():
                    warnings.simplefilter("ignore")
                    rs_ = int(stats.order_stats("r", p=pij, c=float(C2[i_, j_]), n=int(N2[i_, j_])))
                if int(rr2[i_, j_]) != rs_:
                    return ev, dict(what="order_stats('r') with 2-D arguments in %s: element [%d,%d] differs from the scalar call" % (lay_name, i_, j_), got=int(rr2[i_, j_]), scalar=rs_)
    # two-sided factor for very large samples: the defining chi-square statement P[chi2_(n-1) >= (n-1) (r/k)^2] == c with r from the coverage equation
    for n_ in (100000, 100001, 100002, 250000, 2000000):
        for p_ in (0.9, 0.99):
            ks_ = []
            for c_ in (0.1, 0.5, 0.9, 0.99):
                with warnings.catch_warnings():
                    warnings.simplefilter("ignore")
                    k_ = float(stats.kdouble(p_, c_, n_))
                ev += 1
                from scipy.optimize import brentq as _bq
                r_ = _bq(lambda x: norm.cdf(1 / np.sqrt(n_) + x) - norm.cdf(1 / np.sqrt(n_) - x) - p_, 0.1, 10, xtol=1e-14)
                got_c = chi2.sf((n_ - 1) * (r_ / k_) ** 2, n_ - 1)
                ks_.append(k_)
                if abs(got_c - c_) > 1e-6:
                    return ev, dict(what="kdouble for a very large sample: the chi-square statement behind the factor gives confidence %.6f, requested %.6f" % (got_c, c_), p=p_, c=c_, n=n_, k=k_)
            if not all(a_ < b_ for a_, b_ in zip(ks_, ks_[1:])):
                return ev, dict(what="kdouble is not increasing in the confidence for n = %d" % n_, p=p_, k=ks_)
    # order statistics 'c': the confidence that the r-th largest of n samples exceeds the p-quantile = P[at least r of n exceed it], exceedance probability 1-p
    from math import comb
    for n_ in (1, 5, 12, 40):
        for r_ in (1, 2, 5):
            if r_ > n_:
                continue
            for p_ in (0.5, 0.9, 0.99):
                got = float(stats.order_stats("c", p=p_, n=n_, r=r_))
                want = sum(comb(n_, j) * (1 - p_) ** j * p_ ** (n_ - j) for j in range(r_, n_ + 1))
                ev += 1
                if abs(got - want) > 1e-12:
                    return ev, dict(what="order_stats('c') is not the binomial tail P[at least r of n samples exceed the p-quantile]", p=p_, n=n_, r=r_, got=got, want=want)
                rr_ = stats.order_stats("r", p=p_, c=min(got, 0.999999) * 0.999, n=n_)
                ev += 1
                if float(stats.order_stats("c", p=p_, n=n_, r=max(int(rr_), 1))) < min(got, 0.999999) * 0.999 - 1e-12 and int(rr_) >= 1:
                    return ev, dict(what="order_stats('r') returns a rank that does not meet the requested confidence", p=p_, n=n_, rank=int(rr_))
    # order statistics: smallest n / extreme rank, incl. confidences that some N meets only narrowly
    cases = []
    for p in (0.5, 0.9, 0.95, 0.99):
        for r in (1, 2, 3, 6):
            for c in (0.5, 0.75, 0.9, 0.95):
                cases.append((p, c, r))
            for N in range(max(r + 1, 5), 80, 7):
                cN = binom.sf(r - 1, N, 1 - p)
                cNm = binom.sf(r - 1, N - 1, 1 - p)
                for frac in (1e-3, 1e-5, 1e-7):
                    cc = cN - (cN - cNm) * frac          # met by N, narrowly; not by N-1
                    if 0 < cc < 1:
                        cases.append((p, cc, r))
    if quick:
        cases = cases[:: max(1, len(cases) // 120)]
    for p, c, r in cases:
        try:
            with warnings.catch_warnings():
                warnings.simplefilter("ignore")
                n = int(stats.order_stats("n", p=p, c=c, r=r))
        except Exception as ex:
            continue
        ev += 1
        c_n = binom.sf(r - 1, n, 1 - p)
        c_m = binom.sf(r - 1, n - 1, 1 - p) if n - 1 >= r else 0.0
        if abs(c_n - c) < 1e-11 or abs(c_m - c) < 1e-11:
            continue        # exact tie: round-off decides, not the algorithm
        if not (c_n >= c > c_m):
            return ev, dict(what="order_stats('n') is not the smallest sample size meeting the confidence", p=p, c=float(c), r=r, n=n, conf_n=float(c_n), conf_n_minus_1=float(c_m))
    return ev, None


def run(tier, seed):
    run = report.Run(PID, tier, seed)
    run.trust("sympy (term equality, erf derivative)", "vc.alg shims; SciPy distribution functions replaced by uninterpreted function symbols")
    run.assume("what is decided deductively is DEFINITION CONFORMANCE only: which SciPy quantile/tail function is called with which arguments, and that the Newton "
               "iteration uses the exact derivative of the documented coverage residual",
               "norm.cdf(x) = (1 + erf(x / sqrt 2)) / 2")
    run.not_covered += ["monotonicity in p and c, the n -> infinity limit, integer extremality of r and n: theorems about scipy.stats nct/binom/betainc and brentq's "
                        "convergence, outside what a contract on this code can decide - bounded brute-force checks only", "order_stats('r') and ('p') wiring (list "
                        "comprehension over np.broadcast of Python scalars; exercised only by the bounded check)"]
    for nd in ast.walk(ast.parse(report.read_source(ST))):
        if isinstance(nd, ast.FunctionDef) and nd.name in ("ksingle", "kdouble", "_getr", "order_stats"):
            run.add_function(ST, nd.name, hashlib.sha256(ast.unparse(nd).encode()).hexdigest()[:16], {"note": "real function executed with uninterpreted distribution functions"})
    try:
        items, detail = conformance()
        for n_, e in items:
            if isinstance(e, Exception):
                run.undecided.append("%s: %s" % (n_, e))
        items = [(n_, e) for n_, e in items if not isinstance(e, Exception)]
        vs = report.discharge_alg([(n_, e, ST, "post") for n_, e in items], budget=150)
        from sympy.core.function import AppliedUndef
        exprs = dict(items)
        keep = []
        for v in vs:
            e = exprs.get(v.name)
            if v.status == "undecided" and e is not None and sp.sympify(e).atoms(AppliedUndef) and sp.simplify(e) != 0:
                # a definition-conformance obligation is an equality of TERMS over the uninterpreted SciPy functions.  Different terms may still be equal
                # functions (another spelling of the same quantile): replay both sides with the real SciPy functions on a grid of admissible arguments
                bad, npts = term_replay(sp.simplify(e))
                if bad is not None:
                    v.status = "failed"
                    v.detail = dict(v.detail, note="the returned term differs from the documented definition; replayed with the real SciPy functions", difference=str(sp.simplify(e))[:300],
                                    failing_input=bad)
                else:
                    run.bounded.append(dict(name="term replay for '%s': the returned term is spelled differently from the documented one and the identity is outside the rewriter; both sides "
                                                 "evaluated with the real SciPy functions" % v.name[:60], evaluations=npts, failures=0, label="bounded (never counted as proved)"))
                    continue
            keep.append(v)
        run.add_verdicts(keep)
        run.notes.append({"order_stats('n') brentq call": detail})
    except Exception as ex:
        tb = traceback.extract_tb(ex.__traceback__)
        run.undecided.append("conformance run stopped: %r at %s:%s" % (ex, tb[-1].filename, tb[-1].lineno))
    ev, cf = report.guarded(run, bounded, seed, tier == "quick")
    run.bounded.append(dict(name="float: kdouble coverage equation on a p x c x n grid incl. low coverage; monotonicity; ksingle limit from above; order_stats('n') minimality by "
                                 "brute force incl. narrowly met confidences", evaluations=ev, failures=0 if cf is None else 1, label="bounded (never counted as proved)"))
    failed = [v for v in run.verdicts if v.status == "failed"]
    if failed:
        v = failed[0]
        run.violation(v.name, "; ".join(x.name[:100] for x in failed[:5]), dict(failed=[x.as_dict() for x in failed[:8]], verifier_output=v.detail, concrete=cf),
                      concrete=cf is not None)
    elif cf is not None:
        run.violation("bounded:" + cf["what"][:50], cf["what"], dict(concrete=cf), concrete=True)
    return run.finish()


def replay(path):
    d = json.load(open(path))
    print(json.dumps(d.get("concrete"), indent=1)[:3000])
    return 1 if d.get("concrete") else 0
