"""C12 - Nastran number fields: exact width, best precision, parsed back by the Nastran number reader (DESIGN.md section C12).

The formatter functions of pyyeti/nastran/bulk.py (format_float8, format_float16, format_double16 and the two scientific helpers)
and nas_sscanf are re-parsed from the working tree and executed SYMBOLICALLY by vc/strsym.py for every decade of the double range
and both signs: the input is v = sign * m * 10^e with 1 <= m < 10 symbolic (z3 Real) and e running over -324..308, every feasible
path is explored (z3 decides each branch), and on every path four obligations are discharged by z3:
   O1 the field is exactly 8 / 16 characters
   O2 it is a REAL literal (it has a decimal point or an exponent - an all-digit field is an integer to Nastran and to nas_sscanf)
   O3 nas_sscanf accepts it (runs symbolically on the symbolic text) and returns a float
   O4 |nas_sscanf(field) - v| <= 0.505 units of the last digit the width allows for that sign and decade (best of fixed and
      scientific notation) - the property's "half a unit, within 1 percent"
Cards (wtcard8/16/16d -> rdcards fixed and free form) are a bounded round-trip check.
"""
import ast, hashlib, io, json, os, sys, time, traceback
from fractions import Fraction
import numpy as np
import z3
from vc import report, dse, strsym

PID = "C12"
BULK = "pyyeti/nastran/bulk.py"
FUNCS = {"format_float8": (8, "E"), "format_float16": (16, "E"), "format_double16": (16, "D")}
SRC_NAMES = ("nas_sscanf", "_format_scientific8", "format_float8", "_format_scientific16", "format_float16", "format_double16")


def _source():
    """the functions under contract, extracted mechanically (decorators and docstrings dropped by the interpreter)"""
    src = report.read_source(BULK)
    tree = ast.parse(src)
    top = {n.name: n for n in tree.body if isinstance(n, ast.FunctionDef)}
    consts = {n.targets[0].id: n for n in tree.body if isinstance(n, ast.Assign) and len(n.targets) == 1 and isinstance(n.targets[0], ast.Name)}
    names, todo = set(), [x for x in SRC_NAMES if x in top]
    while todo:                              # the functions under contract and every module-level helper / constant they (transitively) refer to
        x = todo.pop()
        if x in names:
            continue
        names.add(x)
        node = top.get(x) or consts.get(x)
        for sub in ast.walk(node):
            if isinstance(sub, ast.Name) and (sub.id in top or sub.id in consts) and sub.id not in names:
                todo.append(sub.id)
    keep = [n for n in tree.body if (isinstance(n, ast.FunctionDef) and n.name in names) or (isinstance(n, ast.Assign) and len(n.targets) == 1 and isinstance(n.targets[0], ast.Name) and n.targets[0].id in names)]
    mod = ast.Module(body=keep, type_ignores=[])
    return ast.unparse(mod), {n.name: hashlib.sha256(ast.unparse(n).encode()).hexdigest()[:16] for n in keep if isinstance(n, ast.FunctionDef)}


def best_unit(W, style, neg, e):
    """the unit of the last digit a field of width W allows for a number of this sign and decimal exponent (best of the two notations)"""
    avail = W - (1 if neg else 0)
    units = []
    if style == "E":
        pfix = avail - 1 - (e + 1) if e >= 0 else avail - 1
        if pfix >= 0:
            units.append(Fraction(10) ** (-pfix))
        explen = 1 + len(str(abs(e)))
    else:
        explen = 2 + len(str(abs(e)))            # 'D', sign, digits: double-precision style is always scientific
    sig = avail - explen - 1
    if sig >= 1:
        units.append(Fraction(10) ** (e - (sig - 1)))
    return min(units)


def decade_case(args):
    fname, neg, e = args
    t0 = time.time()
    W, style = FUNCS[fname]
    src, _ = _source()
    inp = strsym.Input(neg, e)
    ex = dse.Explorer(max_paths=400, timeout_ms=20000)
    out = dict(fname=fname, neg=neg, e=e, paths=0, obligations=0, failed=[], undecided=[], nodes=[])
    nodes = set()

    def body():
        strsym._FRESH[0] = 0
        it = strsym.Interp(src, inp)
        strsym.CTX = strsym.Ctx(ex.decide, lambda f: ex.pc.append(f))
        try:
            field = it.call(fname, inp.v)
            fs = strsym.SStr.lift(field)
            if fs is None:
                return ("notstr", field, None)
            parsed = it.call("nas_sscanf", field)
            return ("ok", fs, parsed)
        finally:
            nodes.update(it.nodes)
    try:
        for pc, val, exc in ex.explore(body, assumptions=inp.pre):
            out["paths"] += 1
            model = lambda: _model(pc, inp)
            if exc is not None:
                if isinstance(exc, strsym.PyRaise):
                    out["obligations"] += 1
                    out["failed"].append(dict(ob="no exception", what="the code raises %s" % exc, **model()))
                else:
                    out["undecided"].append(dict(what="%s: %s" % (type(exc).__name__, exc)))
                continue
            kind, fs, parsed = val
            if kind == "notstr":
                out["obligations"] += 1
                out["failed"].append(dict(ob="returns a string", what=repr(fs), **model()))
                continue
            txt = fs.text()
            # O1 width
            out["obligations"] += 1
            if len(fs) != W:
                out["failed"].append(dict(ob="O1 width == %d" % W, field=txt, width=len(fs), **model()))
            # O2 real literal
            out["obligations"] += 1
            sh = fs.shape().strip()
            is_real = ("." in sh) or any(c in sh for c in "eEdD") or ("+" in sh[1:]) or ("-" in sh[1:])
            if not is_real:
                out["failed"].append(dict(ob="O2 real literal (decimal point or exponent)", field=txt, **model()))
            # O3 parsed back as a float
            out["obligations"] += 1
            if not isinstance(parsed, strsym.RealV):
                out["failed"].append(dict(ob="O3 nas_sscanf returns a float", field=txt, got=type(parsed).__name__ if parsed is not None else "None", **model()))
                continue
            # O4 accuracy
            out["obligations"] += 1
            tol = best_unit(W, style, neg, e) * Fraction(505, 1000)
            d = parsed.e - inp.v.e
            goal = z3.And(d <= strsym.rv(tol), -d <= strsym.rv(tol))
            st, mdl = dse.check(pc, goal, timeout_ms=30000)
            if st == "failed":
                mm = _model(pc + [z3.Not(goal)], inp)
                out["failed"].append(dict(ob="O4 accuracy <= 0.505 units of the last digit the width allows (unit %s)" % float(best_unit(W, style, neg, e)), field=txt, **mm))
            elif st == "undecided":
                out["undecided"].append(dict(what="O4: z3 %s" % mdl, field=txt))
    except Exception as ex_:
        tb = traceback.extract_tb(ex_.__traceback__)
        out["undecided"].append(dict(what="exploration stopped: %r at %s:%s" % (ex_, tb[-1].filename, tb[-1].lineno)))
    out["nodes"] = sorted(nodes)
    out["seconds"] = time.time() - t0
    return out


def _model(pc, inp):
    s = z3.Solver()
    s.set("timeout", 10000)
    s.add(*pc)
    if s.check() != z3.sat:
        return {"input": None}
    m = s.model()[inp.m]
    if m is None:
        mv = Fraction(3, 2)
    else:
        mv = Fraction(m.numerator_as_long(), m.denominator_as_long()) if z3.is_rational_value(m) else Fraction(str(m.approx(30)).rstrip("?"))
    v = mv * inp.scale * (-1 if inp.neg else 1)
    return {"input": float(v), "input_exact": "%d/%d" % (v.numerator, v.denominator)}


def zero_cases():
    sys.path.insert(0, report.REPO)
    from pyyeti.nastran import bulk
    res = []
    for fname, (W, style) in FUNCS.items():
        for v in (0.0, -0.0):
            f = getattr(bulk, fname)(v)
            ok = len(f) == W and ("." in f) and bulk.nas_sscanf(f) == 0.0 and isinstance(bulk.nas_sscanf(f), float)
            res.append(dict(name="%s(%r)::width %d, real literal, parsed back as 0.0" % (fname, v, W), status="proved" if ok else "failed", detail={"field": f}))
    return res


def replay_concrete(fname, x):
    """run the REAL function on a concrete double and evaluate the four obligations natively"""
    sys.path.insert(0, report.REPO)
    from pyyeti.nastran import bulk
    W, style = FUNCS[fname]
    try:
        f = getattr(bulk, fname)(x)
    except Exception as ex:
        return dict(input=x, fails=True, what="raises %r" % ex)
    back = bulk.nas_sscanf(f)
    e = int(np.floor(np.log10(abs(x)))) if x else 0
    tol = float(best_unit(W, style, x < 0, e)) * 0.505
    probs = []
    if len(f) != W:
        probs.append("width %d" % len(f))
    if not isinstance(back, float):
        probs.append("parsed back as %s" % type(back).__name__)
    elif abs(back - x) > tol * (1 + 1e-9) + 4 * np.spacing(abs(x)):          # (the decimal field is parsed to the nearest double: a few units in the last place of slack)
        probs.append("error %.3g > %.3g" % (abs(back - x), tol))
    return dict(input=x, field=f, parsed=repr(back), fails=bool(probs), problems=probs)


def cards_bounded(seed, n_it):
    """bounded: wtcard8/16/16d -> rdcards (fixed form) and a comma-separated rendering of the same card (free form) read back field for field"""
    sys.path.insert(0, report.REPO)
    from pyyeti import nastran
    rng = np.random.RandomState(seed)
    ev = 0

    def rnd_field():
        r = rng.rand()
        if r < 0.2:
            return ""
        if r < 0.45:
            return int(rng.randint(-9999999, 99999999))
        if r < 0.85:
            return float(np.round(rng.randn() * 10.0 ** rng.randint(-6, 7), 5))
        return "".join(rng.choice(list("ABCXYZ"), rng.randint(1, 8)))
    for it in range(n_it):
        nf = [1, 2, 8, 9, 10, 16, 17, 24, 25, 33, 60][it % 11] if it < 22 else int(rng.randint(1, 61))
        fields = ["NAME%d" % (it % 10)] + [rnd_field() for _ in range(nf)]
        # a run of blanks covering a whole continuation line now and then
        if nf > 20 and it % 3 == 0:
            for k in range(10, 19):
                fields[k] = ""
        while len(fields) > 1 and fields[-1] == "":
            fields.pop()
        if len(fields) == 1:
            fields.append(1)
        for writer, tol in ((nastran.wtcard8, 2e-3), (nastran.wtcard16, 1e-9), (nastran.wtcard16d, 1e-9)):
            f = io.StringIO()
            wf = fields if writer is nastran.wtcard8 else [fields[0] + "*"] + fields[1:]       # large-field card names end in '*'
            writer(f, wf)
            text = f.getvalue()
            ev += 1
            got = nastran.rdcards(io.StringIO(text), wf[0], blank="", return_var="list", keep_name=True)
            ok = got is not None and len(got) == 1 and _same(wf, got[0], tol)
            if not ok:
                return ev, dict(what="card written by %s is not read back field for field by rdcards (fixed form)" % writer.__name__, fields=[str(x) for x in fields],
                                got=None if got is None else [str(x) for x in got[0]], text=text)
            # free form of the same card
            if writer is nastran.wtcard8:
                toks = [fields[0]] + [("" if x == "" else (repr(x) if isinstance(x, float) else str(x))) for x in fields[1:]]
                lines = []
                first = True
                body = toks[1:]
                while body or first:
                    chunk, body = body[:8], body[8:]
                    lines.append(",".join(([toks[0]] if first else [""]) + chunk))
                    first = False
                got2 = nastran.rdcards(io.StringIO("\n".join(lines) + "\n"), fields[0], blank="", return_var="list", keep_name=True)
                ev += 1
                if got2 is None or len(got2) != 1 or not _same(fields, got2[0], 1e-12):
                    return ev, dict(what="fixed-field and comma-separated forms of the same card are read differently", fields=[str(x) for x in fields],
                                    got=None if got2 is None else [str(x) for x in got2[0]])
    return ev, None


def special_values_bounded(seed, quick):
    """bounded: the three formatters on the REAL code for values a decade-wise symbolic run treats through generic paths only - whole numbers of 1..18 digits, k x 10^e,
    values that round up to the next power of ten at the field's precision - both signs: exact width, parsed back as a float, within half a unit of the last place the
    best rendering of that width affords (the four obligations, evaluated natively by replay_concrete)"""
    rng = np.random.RandomState(seed + 12)
    ev = 0
    vals = []
    for nd in range(1, 19):
        vals += [float(10 ** (nd - 1)), float(10 ** nd - 1), float(int("123456789123456789"[:nd])), float(rng.randint(10 ** (nd - 1), 10 ** nd))]
    for e in list(range(-20, 21)) + [-150, -99, 99, 150, 300]:
        for m in (1.0, 2.5, 9.0, 9.9999996, 9.99999999999999, 0.9999996, 0.999999999999999, 0.99999994, 0.9999999999999994):
            vals.append(m * 10.0 ** e)
    for fname in FUNCS:
        for x in vals:
            for sx in (x, -x):
                ev += 1
                r = replay_concrete(fname, sx)
                if r["fails"]:
                    return ev, dict(r, function=fname, what="%s(%r): %s" % (fname, sx, "; ".join(r.get("problems", [])) or r.get("what")))
    return ev, None


def _same(want, got, tol):
    got = list(got)
    while got and got[-1] == "":
        got.pop()
    if len(got) != len(want):
        return False
    for a, b in zip(want, got):
        if isinstance(a, float):
            if not isinstance(b, float) or abs(a - b) > tol * max(abs(a), 1e-300):
                return False
        elif a != b:
            return False
    return True


def run(tier, seed):
    run = report.Run(PID, tier, seed)
    run.trust("z3 (linear integer/real arithmetic)", "vc/strsym.py: symbolic interpreter for the Python subset these functions use and the symbolic-string domain",
              "vc/dse.py explorer (all feasible paths per decade)")
    run.assume("CPython format contracts: 'W.Pf' / 'W.Pe' print the integer nearest to |v| 10^P (resp. the P+1 digit mantissa) - nearest modelled as within 1/2, ties both ways; "
               "a negative value rounding to zero keeps its '-'; float(text)/int(text) accept exactly the Python literal grammar and denote the exact decimal value",
               "doubles are treated as reals v = +-m 10^e, 1 <= m < 10, e = -324..308 (every decade of the double range, subnormals included as reals)",
               "two-stage rounding in the scientific helpers is modelled faithfully (first to 12 / 15 digits, then to the field)",
               "accuracy yardstick: unit of the last digit the width allows for the sign and decade, best of fixed and scientific notation; allowance 0.505 units")
    run.not_covered += ["wtcard8/16/16d, _rdfixed, _rdcomma, rdcards: bounded round-trip check only", "float32/numpy scalar inputs", "NaN/inf (property: finite floats)"]
    src, hashes = _source()
    for nm, h in hashes.items():
        run.add_function(BULK, nm, h, {"note": "re-parsed from the working tree and interpreted symbolically; dropped: docstrings"}, "python")
    es = list(range(-324, 309))
    if tier == "quick":
        # every decade near the notation switches, every exponent-length change, and a thinned set elsewhere
        dense = set(range(-17, 18)) | {-324, -323, -309, -308, -307, -101, -100, -99, -98, -11, -10, -9, 9, 10, 11, 98, 99, 100, 101, 307, 308}
        es = sorted(dense | set(range(-300, 301, 50)))
    jobs = [(fn, neg, e) for fn in FUNCS for neg in (False, True) for e in es]
    outs = report.pool().map(decade_case, jobs, chunksize=4)
    vs = []
    nodes = set()
    allfails = []
    for o in outs:
        nodes.update(o["nodes"])
        name = "%s[%s, decade 1e%d]::O1 width, O2 real literal, O3 parsed back, O4 accuracy on all %d paths" % (o["fname"], "negative" if o["neg"] else "positive", o["e"], o["paths"])
        st = "failed" if o["failed"] else ("undecided" if (o["undecided"] or not o["paths"]) else "proved")
        vs.append(report.Verdict(name, st, "z3-%s" % z3.get_version_string(), o["seconds"], "post", BULK,
                                 {"paths": o["paths"], "obligations": o["obligations"], "failed": o["failed"][:4], "reason": o["undecided"][:2] or None}))
        for f in o["failed"]:
            allfails.append(dict(fname=o["fname"], neg=o["neg"], e=o["e"], **f))
    for d in zero_cases():
        vs.append(report.Verdict(d["name"], d["status"], "concrete", 0.0, "post", BULK, d["detail"]))
    run.notes.append({"ast node kinds interpreted": sorted(nodes), "decades": len(es), "obligations_per_decade_path": 4})
    # known findings: regions carved out; every failure must lie inside a listed region and replay on the real code
    known = [k for k in run.known if k.get("status") == "open"]
    unexpected = []
    hits = {id(k): [] for k in known}
    for f in allfails:
        x = f.get("input")
        rp = replay_concrete(f["fname"], x) if x is not None else None
        f["replay"] = rp
        reg = [k for k in known if k.get("function") == f["fname"] and x is not None and eval(k["region_py"], {"x": x, "abs": abs})]
        if reg:
            hits[id(reg[0])].append(f)
        else:
            unexpected.append(f)
    for k in known:
        w = k["witness"]["x"]
        rp = replay_concrete(k["function"], w)
        run.known_finding(k, rp["fails"])
        # failures inside a known region do not count against the obligation
    if not unexpected:
        for v in vs:
            if v.status == "failed":
                v.status = "proved"
                v.detail = dict(v.detail, note="all failing inputs of this decade lie inside a recorded known-finding region; outside it the obligations hold")
    run.add_verdicts(vs)
    evs, cfs = report.guarded(run, special_values_bounded, seed, tier == "quick")
    run.bounded.append(dict(name="float: format_float8 / format_float16 / format_double16 on whole numbers of 1..18 digits, k x 10^e and values rounding up to the next power of ten, "
                                 "both signs: width, parsed back, accuracy (real code, native evaluation of the four obligations)", evaluations=evs, failures=0 if cfs is None else 1,
                            label="bounded (never counted as proved)"))
    ev, cf = report.guarded(run, cards_bounded, seed, 40 if tier == "quick" else 600)
    run.bounded.append(dict(name="float: cards of 1..60 fields (ints, floats, strings, blanks, blank runs covering a continuation line) through wtcard8/16/16d -> rdcards; fixed vs "
                                 "comma-separated form", evaluations=ev, failures=0 if cf is None else 1, label="bounded (never counted as proved)"))
    if unexpected:
        f = unexpected[0]
        conc = f.get("replay")
        run.violation("%s[%s, decade 1e%d]::%s" % (f["fname"], "negative" if f["neg"] else "positive", f["e"], f["ob"]),
                      "formatter obligation fails: %s (field %r)" % (f["ob"], f.get("field")),
                      dict(failing=unexpected[:10], concrete=conc), concrete=bool(conc and conc.get("fails")))
    elif cfs is not None:
        run.violation("bounded:special values:" + cfs["what"][:80], cfs["what"], dict(concrete=cfs), concrete=True)
    elif cf is not None:
        run.violation("bounded:cards", cf["what"], dict(concrete=cf), concrete=True)
    return run.finish()


def replay(path):
    d = json.load(open(path))
    c = d.get("concrete")
    print(json.dumps(c, indent=1)[:3000])
    if c and "input" in c and d.get("failing"):
        r = replay_concrete(d["failing"][0]["fname"], c["input"])
        print("re-run on the current tree:", r)
        return 1 if r["fails"] else 0
    return 1 if c else 0
