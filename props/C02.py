"""C02 - Frequency-domain solution satisfies the dynamic-stiffness equation (DESIGN.md section C02)."""
import ast, hashlib, itertools, json, os, sys, time
import numpy as np
import sympy as sp
from vc import report, alg

PID = "C02"
SU, FD, UT, BASE = "pyyeti/ode/solveunc.py", "pyyeti/ode/freqdirect.py", "pyyeti/ode/_utilities.py", "pyyeti/ode/_base_ode_class.py"
R = sp.Rational
I_ = sp.I


def _guard(f, args):
    try:
        return f(args)
    except Exception as ex:
        import traceback
        tb = traceback.extract_tb(ex.__traceback__)
        fr_ = ([fr for fr in tb if "/pyyeti/" in fr.filename] or [tb[-1]])[-1]
        return (args, 1, [dict(item="symbolic run completes", undecided=True, detail="exception while the real code ran on SYMBOLIC stand-ins (%r at %s:%s): not a violation unless a "
                               "concrete run reproduces it - tool limit" % (ex, fr_.filename, fr_.lineno))])


def syms():
    ms = sp.symbols("m0:3", positive=True)
    bs = sp.symbols("b0:3", positive=True)
    ks = sp.symbols("k0:3", positive=True)
    fq = sp.symbols("f0:2", positive=True)
    fr = sp.symbols("fr0:9", real=True)
    fi = sp.symbols("fi0:9", real=True)
    wit = {}
    for i in range(3):
        wit.update({ms[i]: 2 + i, bs[i]: R(3, 10) + i, ks[i]: 50 + 7 * i})
    wit.update({fq[0]: R(3, 2), fq[1]: R(5, 2)})
    for i in range(9):
        wit[fr[i]], wit[fi[i]] = R(i - 4, 3), R(2 * i - 7, 5)
    return ms, bs, ks, fq, fr, fi, wit


def unc_case_impl(args):
    cls, incrb, rfdo, mform = args
    su = alg.load_module(report.REPO, SU)
    fd = alg.load_module(report.REPO, FD)
    util = alg.load_module(report.REPO, UT)
    base = alg.load_module(report.REPO, BASE)
    ms, bs, ks, fq, fr, fi, wit = syms()
    reg = alg.Regime("freq", wit)
    freqs = [fq[0], 0, fq[1]] if cls == "SolveUnc" else [fq[0], fq[1]]
    nf = len(freqs)
    mv = [1, 1, 1] if mform == "none" else list(ms)
    bv, kv = [0, bs[1], bs[2]], [0, ks[1], ks[2]]
    F = sp.Matrix(3, nf, lambda i, j: fr[i * 3 + j] + I_ * fi[i * 3 + j])
    with alg.Multi([su, fd, util, base], reg):
        marg = None if mform == "none" else alg.sym_array(mv)
        ts = getattr(su if cls == "SolveUnc" else fd, cls)(marg, alg.sym_array(bv), alg.sym_array(kv), rb=[0], rf=[2])
        Fm = alg.sym_array(list(F)).reshape(3, nf)
        sol = ts.fsolve(Fm, alg.sym_array(freqs) if cls == "SolveUnc" else alg.sym_array(freqs), incrb=incrb, rf_disp_only=rfdo)
    E = alg.expr_of
    fails, n = [], 0
    for j, f in enumerate(freqs):
        W = 2 * sp.pi * f
        want = {}
        # elastic mode: dynamic stiffness
        d1 = F[1, j] / (-W ** 2 * mv[1] + I_ * W * bv[1] + kv[1])
        want[1] = (d1, I_ * W * d1, -W ** 2 * d1)
        # residual flexibility: static, v/a per rf_disp_only
        d2 = F[2, j] / kv[2]
        want[2] = (d2, 0 if rfdo else I_ * W * d2, 0 if rfdo else -W ** 2 * d2)
        # rigid body: a = F/m ; v, d only away from 0 Hz ; each switched by incrb
        a0 = F[0, j] / mv[0]
        zero = (f == 0)
        want[0] = ((0 if zero else -a0 / W ** 2) if "d" in incrb else 0, (0 if zero else -I_ * a0 / W) if "v" in incrb else 0, a0 if "a" in incrb else 0)
        for r in range(3):
            for q, nm in enumerate("dva"):
                n += 1
                got = E(getattr(sol, nm)[r, j])
                st, det = alg.prove_zero(sp.sympify(got - want[r][q]), budget=30)
                if st in ("failed", "undecided"):
                    fails.append(dict(item="%s[%s row, freq %s]" % (nm, ("rigid-body", "elastic", "residual-flexibility")[r], f), detail=det, undecided=(st == "undecided")))
    return args, n, fails


def unc_case(args):
    return _guard(unc_case_impl, args)


def psd_case_impl(args):
    rbduf, elduf, nullcol = args
    su = alg.load_module(report.REPO, SU)
    util = alg.load_module(report.REPO, UT)
    base = alg.load_module(report.REPO, BASE)
    ms, bs, ks, fq, fr, fi, wit = syms()
    P = sp.symbols("P0:6", positive=True)
    T = sp.symbols("T0:4", real=True)
    Da = sp.symbols("Da0:4", real=True)
    Dd = sp.symbols("Dd0:4", real=True)
    Df = sp.symbols("Df0:4", real=True)
    f2 = sp.Symbol("f2", positive=True)
    for i in range(6):
        wit[P[i]] = R(i + 2, 3)
    for i in range(4):
        wit[T[i]], wit[Da[i]], wit[Dd[i]], wit[Df[i]] = R(i + 1, 2), R(2 * i - 3, 4), R(i - 1, 5), R(3 - i, 7)
    wit[f2] = R(9, 2)
    reg = alg.Regime("psd", wit)
    freqs = [fq[0], fq[1], f2]
    Tm = sp.Matrix(2, 2, list(T))
    if nullcol:
        Tm[:, 1] = sp.zeros(2, 1)          # a force that does not load the modal equations (only feeds through drmf)
    Pm = sp.Matrix(2, 3, list(P))
    DA, DD, DF = sp.Matrix(2, 2, list(Da)), sp.Matrix(2, 2, list(Dd)), sp.Matrix(2, 2, list(Df))
    mv, bv, kv = [ms[0], ms[1]], [0, bs[1]], [0, ks[1]]
    ru = sp.Symbol("rbduf", positive=True) if rbduf == "s" else sp.Integer(1)
    eu = sp.Symbol("elduf", positive=True) if elduf == "s" else sp.Integer(1)
    wit[sp.Symbol("rbduf", positive=True)] = R(5, 4)
    wit[sp.Symbol("elduf", positive=True)] = R(6, 5)

    def mk(M):
        a = np.empty(M.shape, dtype=object)
        for i in range(M.shape[0]):
            for j in range(M.shape[1]):
                a[i, j] = alg.S(M[i, j])
        return a.view(alg.SymArr)

    with alg.Multi([su, util, base], reg):
        fs = su.SolveUnc(alg.sym_array(mv), alg.sym_array(bv), alg.sym_array(kv), rb=[0])
        rms, psd = util.solvepsd(fs, mk(Pm), mk(Tm), alg.sym_array(freqs), [(mk(DA), None, mk(DD), mk(DF))],
                                 rbduf=(alg.S(ru) if rbduf == "s" else 1.0), elduf=(alg.S(eu) if elduf == "s" else 1.0))
    E = alg.expr_of
    fails, n = [], 0
    spec = sp.zeros(2, 3)
    for j, f in enumerate(freqs):
        W = 2 * sp.pi * f
        for i in range(2):            # force i, unit spectrum
            g = Tm[:, i]
            a0 = ru * g[0] / mv[0]
            sol_a = sp.Matrix([a0, -W ** 2 * eu * g[1] / (-W ** 2 * mv[1] + I_ * W * bv[1] + kv[1])])
            sol_d = sp.Matrix([-a0 / W ** 2, eu * g[1] / (-W ** 2 * mv[1] + I_ * W * bv[1] + kv[1])])
            H = DA * sol_a + DD * sol_d + DF[:, i]
            for r in range(2):
                spec[r, j] += Pm[i, j] * (sp.re(H[r]) ** 2 + sp.im(H[r]) ** 2)
    for r in range(2):
        for j in range(3):
            n += 1
            st, det = alg.prove_zero(sp.sympify(E(psd[0][r, j]) - spec[r, j]), budget=60)
            if st in ("failed", "undecided"):
                fails.append(dict(item="psd[%d, freq %d] == sum_i PSD_i |H_i|^2" % (r, j), detail=det, undecided=(st == "undecided")))
        # modular: the area is taken over the function's own psd values (each already proved equal to the specification above)
        area = sum((freqs[j + 1] - freqs[j]) * (E(psd[0][r, j]) + E(psd[0][r, j + 1])) / 2 for j in range(2))
        n += 1
        st, det = alg.prove_zero(sp.sympify(E(rms[0][r]) ** 2 - area), budget=60)
        if st in ("failed", "undecided"):
            fails.append(dict(item="rms[%d]^2 == trapezoidal area of the response PSD" % r, detail=det, undecided=(st == "undecided")))
    return args, n, fails


def psd_case(args):
    return _guard(psd_case_impl, args)


def fd_coupled_impl(args):
    """FreqDirect.fsolve, coupled loop: NON-symmetric m, b, k (2x2, all entries symbolic), frequency vector starting at 0 Hz"""
    from vc import symla, npx
    cls, mform, zero_first = args
    fd = alg.load_module(report.REPO, FD)
    su = alg.load_module(report.REPO, SU)
    util = alg.load_module(report.REPO, UT)
    base = alg.load_module(report.REPO, BASE)
    n = 2
    M = sp.Matrix(n, n, lambda i, j: sp.Symbol("M%d%d" % (i, j), real=True)) if mform == "matrix" else sp.eye(n)
    Bm = sp.Matrix(n, n, lambda i, j: sp.Symbol("B%d%d" % (i, j), real=True))
    Km = sp.Matrix(n, n, lambda i, j: sp.Symbol("K%d%d" % (min(i, j), max(i, j)), real=True))      # symmetric stiffness, non-symmetric damping/mass
    f1, f2 = sp.symbols("f1 f2", positive=True)
    freqs = [0, f1, f2] if zero_first else [f1, f2]
    F = sp.Matrix(n, len(freqs), lambda i, j: sp.Symbol("Fr%d_%d" % (i, j), real=True) + I_ * sp.Symbol("Fi%d_%d" % (i, j), real=True))
    reg = alg.HashRegime("fd-coupled")
    extra = {mm.__name__: {"np": npx.NPX(), "la": symla} for mm in (fd, su, util, base)}
    with alg.Multi([fd, su, util, base], reg, extra):
        ts = fd.FreqDirect(None if mform == "none" else symla.toarr(M), symla.toarr(Bm), symla.toarr(Km), rb=[])
        sol = ts.fsolve(symla.toarr(F), alg.sym_array(freqs))
    fails, nchk = [], 0

    def iszero(e):
        e = sp.expand(e)
        return e == 0 or sp.expand(sp.numer(sp.together(e))) == 0
    for j, f in enumerate(freqs):
        W = 2 * sp.pi * f
        D = sp.Matrix(n, 1, lambda i, _: alg.expr_of(sol.d[i, j]))
        r = (-W ** 2 * M + I_ * W * Bm + Km) * D - F[:, j]
        for i in range(n):
            nchk += 3
            if not iszero(r[i]):
                fails.append(dict(item="(-W^2 M + i W B + K) d == F, row %d, frequency %s" % (i, f), detail={"residual_numerator_terms": len(sp.Add.make_args(sp.expand(sp.numer(sp.together(r[i])))))}))
            if not iszero(alg.expr_of(sol.v[i, j]) - I_ * W * D[i]) or not iszero(alg.expr_of(sol.a[i, j]) + W ** 2 * D[i]):
                fails.append(dict(item="v == iWd, a == -W^2 d, row %d, frequency %s" % (i, f), detail={}))
    return args, nchk, fails


def fd_coupled_case(args):
    return _guard(fd_coupled_impl, args)


def concrete(repo, seed, n):
    """bounded float checks: coupled systems (complex modes via scipy eig), pre_eig, SolveUnc vs FreqDirect, residual of the dynamic-stiffness equation"""
    sys.path.insert(0, repo)
    from pyyeti import ode
    import scipy.linalg as la
    rng = np.random.RandomState(seed)
    ev = 0
    for it in range(n):
        nd = rng.randint(2, 5)
        A = rng.randn(nd, nd)
        M = A @ A.T + nd * np.eye(nd)
        Bq = rng.randn(nd, nd)
        K = Bq @ Bq.T + nd * np.eye(nd) * 30
        C = rng.randn(nd, nd)
        B = C @ C.T * 0.2
        freq = np.sort(rng.rand(6) * 8 + 0.2)
        if it % 2:
            freq = freq[::-1].copy()
        F = rng.randn(nd, freq.size) + 1j * rng.randn(nd, freq.size)
        W = 2 * np.pi * freq
        ref = np.column_stack([np.linalg.solve(-w * w * M + 1j * w * B + K, F[:, j]) for j, w in enumerate(W)])
        # solvers built for the frequency domain only (h = None), built WITH a time step (the eigensolution then keeps one of each conjugate pair) and a real force as well
        for cls, kw in (("SolveUnc", {}), ("SolveUnc", {"pre_eig": True}), ("FreqDirect", {}), ("SolveUnc", {"h": 0.001}), ("SolveUnc", {"h": 0.01, "pre_eig": True}),
                        ("SolveUnc", {"h": 0.002, "real_force": True})):
            kw = dict(kw)
            Fuse = F.real.copy() if kw.pop("real_force", False) else F
            if Fuse is not F:
                ref_keep, ref = ref, np.column_stack([np.linalg.solve(-w * w * M + 1j * w * B + K, Fuse[:, j]) for j, w in enumerate(W)])
            sol = getattr(ode, cls)(M, B, K, **kw).fsolve(Fuse, freq)
            ev += 1
            err = abs(sol.d - ref).max() / abs(ref).max()
            ok = err < 1e-8 and np.allclose(sol.v, 1j * W * sol.d, rtol=1e-9, atol=0) and np.allclose(sol.a, -W ** 2 * sol.d, rtol=1e-9, atol=0)
            if not ok:
                return ev, dict(solver=cls, options=kw, rel_err=float(err), m=M.tolist(), b=B.tolist(), k=K.tolist(), freq=freq.tolist(), complex_force=bool(Fuse is F),
                                what="coupled frequency response does not solve (-W^2 M + iW B + K) d = F (or v, a not iW d, -W^2 d)")
            if Fuse is not F:
                ref = ref_keep
        # mass given as a 1-D vector (non-uniform) or None with coupled stiffness / damping, with and without the pre-eigensolution
        mv = rng.rand(nd) * 3 + 0.5
        for mform, Mref in ((mv, np.diag(mv)), (None, np.eye(nd))):
            refv = np.column_stack([np.linalg.solve(-w * w * Mref + 1j * w * B + K, F[:, j]) for j, w in enumerate(W)])
            for cls, kw in (("SolveUnc", {"pre_eig": True}), ("SolveUnc", {}), ("FreqDirect", {}), ("SolveUnc", {"pre_eig": True, "h": 0.01})):
                solv = getattr(ode, cls)(mform, B, K, **kw).fsolve(F, freq)
                ev += 1
                errv = abs(solv.d - refv).max() / abs(refv).max()
                if not errv < 1e-8:
                    return ev, dict(solver=cls, options=kw, rel_err=float(errv), mass="1-D vector" if mform is not None else "None",
                                    what="coupled frequency response with the mass given as %s does not solve (-W^2 M + iW B + K) d = F" % ("a 1-D vector" if mform is not None else "None"))
        # solvepsd in floating point: rigid-body, elastic and residual-flexibility modes with uncertainty factors; the response PSD of every recovery row is
        # sum_i PSD_i |sum_k drm_k * u_k * H_k,i|^2 with u = rbduf on rigid-body rows, elduf on elastic rows and 1 on residual-flexibility rows; rms = trapezoid area
        mS, bS, kS = np.array([2.0, 1.5, 3.0, 1.0]), np.array([0.0, 0.7, 1.1, 0.0]), np.array([0.0, 120.0, 400.0, 9000.0])
        fqS = np.sort(rng.rand(9) * 6 + 0.3)
        if it % 2:
            # a zoom grid at high absolute frequency: steps of 0.04 Hz refined to 0.002 Hz and back (non-uniform, but uniform to 1e-5 of the frequency itself)
            fqS = 5000.0 + np.cumsum(np.hstack((0.0, [0.04] * 4, [0.002] * 6, [0.04] * 4)))
            kS = kS.copy(); kS[2] = mS[2] * (2 * np.pi * 5000.05) ** 2          # an elastic mode inside the zoom
        psdS = rng.rand(2, fqS.size) + 0.1
        tfS = rng.randn(4, 2)
        drmA, drmD = rng.randn(3, 4), rng.randn(3, 4)
        for rbduf_, elduf_ in ((1.0, 1.0), (1.2, 1.0), (1.0, 1.5), (1.3, 0.8)):
            for rfS in (None, [3]):
                for cls_ in ("SolveUnc", "FreqDirect"):
                    fsS = getattr(ode, cls_)(mS, bS, kS, rf=rfS) if cls_ == "SolveUnc" else getattr(ode, cls_)(mS, bS, kS, rf=rfS, rb=[0])
                    rmsS, psdoS = ode.solvepsd(fsS, psdS, tfS, fqS, [[drmA, None, None, None], [None, None, drmD, None]], rbduf=rbduf_, elduf=elduf_)
                    ev += 1
                    WS = 2 * np.pi * fqS
                    u = np.array([rbduf_, elduf_, elduf_, elduf_ if rfS is None else 1.0])
                    wantA, wantD = np.zeros((3, fqS.size)), np.zeros((3, fqS.size))
                    for i_ in range(2):
                        Hd = np.empty((4, fqS.size), complex)
                        for k_ in range(4):
                            if rfS is not None and k_ == 3:
                                Hd[k_] = tfS[k_, i_] / kS[k_]                                  # residual flexibility: static
                            else:
                                Hd[k_] = tfS[k_, i_] / (-WS ** 2 * mS[k_] + 1j * WS * bS[k_] + kS[k_])
                        Ha = -WS ** 2 * Hd           # (rf rows: v = iW d, a = -W^2 d of the static displacement - the default rf_disp_only=False)
                        wantA += psdS[i_] * abs(drmA @ (u[:, None] * Ha)) ** 2
                        wantD += psdS[i_] * abs(drmD @ (u[:, None] * Hd)) ** 2
                    okS = np.allclose(psdoS[0], wantA, rtol=1e-8) and np.allclose(psdoS[1], wantD, rtol=1e-8)
                    for got_, w_ in ((rmsS[0], wantA), (rmsS[1], wantD)):
                        area = np.sqrt(np.sum(np.diff(fqS) * (w_[:, :-1] + w_[:, 1:]), axis=1) / 2)
                        okS = okS and np.allclose(got_, area, rtol=1e-8)
                    if not okS:
                        return ev, dict(solver=cls_, what="solvepsd: response PSD / rms differ from sum_i PSD_i |drm (u * H_i)|^2 with u = rbduf / elduf / 1 on rigid-body / elastic / "
                                        "residual-flexibility rows", rbduf=rbduf_, elduf=elduf_, rf=rfS)
        # residual-flexibility / rigid-body partition vectors in any order (ascending, shuffled with a contiguous span, descending, boolean mask): same solution
        m6, b6, k6 = np.array([2.0, 1.0, 3.0, 1.5, 2.5, 1.2, 0.7]), np.array([0.0, 0.4, 0.6, 0.0, 0.0, 0.0, 0.0]), np.array([0.0, 90.0, 150.0, 5000.0, 7000.0, 9000.0, 12000.0])
        fq6 = np.sort(rng.rand(5) * 5 + 0.3)
        F6 = rng.randn(7, 5) + 1j * rng.randn(7, 5)
        W6 = 2 * np.pi * fq6
        ref6 = np.array([F6[k_] / (k6[k_] if k_ >= 3 else (-W6 ** 2 * m6[k_] + 1j * W6 * b6[k_] + k6[k_])) for k_ in range(7)])
        for rf6 in ([3, 4, 5, 6], [3, 5, 4, 6], [6, 5, 4, 3], [4, 3, 6, 5], [3, 6, 5, 4], np.array([False, False, False, True, True, True, True])):
            for cls_ in ("SolveUnc", "FreqDirect"):
                s6 = getattr(ode, cls_)(m6, b6, k6, rf=rf6, rb=[0]).fsolve(F6, fq6)
                ev += 1
                if not np.allclose(s6.d, ref6, rtol=1e-9, atol=1e-14):
                    return ev, dict(solver=cls_, what="frequency response with the residual-flexibility modes listed as %s differs from the closed form (static F/k on rf rows)" % (np.asarray(rf6).tolist(),))
        K6 = np.diag(k6).copy(); K6[1, 2] = K6[2, 1] = -20.0
        B6 = np.diag(b6).copy(); B6[1, 2] = B6[2, 1] = 0.05
        A6 = [-w * w * np.diag(m6)[:3, :3] + 1j * w * B6[:3, :3] + K6[:3, :3] for w in W6]
        refc = np.vstack((np.column_stack([np.linalg.solve(A6[j], F6[:3, j]) for j in range(5)]), F6[3:] / k6[3:, None]))
        for rf6 in ([3, 4, 5, 6], [3, 5, 4, 6], [5, 3, 6, 4]):
            s6 = ode.FreqDirect(np.diag(m6), B6, K6, rf=rf6).fsolve(F6, fq6)
            ev += 1
            if not np.allclose(s6.d, refc, rtol=1e-8, atol=1e-14):
                return ev, dict(solver="FreqDirect", what="coupled frequency response with rf = %s differs from the direct solve" % (rf6,))
        # element type of the arrays: integer-typed m, b, k (all, or one at a time) give what the same numbers give as floats - rigid-body, elastic and rf rows
        mI, bI, kI = np.array([2, 1, 3, 1, 2]), np.array([0, 1, 2, 0, 0]), np.array([0, 90, 150, 5000, 7000])
        fqI = np.sort(rng.rand(5) * 5 + 0.3)
        FI_ = rng.randn(5, 5) + 1j * rng.randn(5, 5)
        WI = 2 * np.pi * fqI
        refI = np.array([FI_[k_] / (kI[k_] if k_ >= 3 else (-WI ** 2 * mI[k_] + 1j * WI * bI[k_] + kI[k_])) for k_ in range(5)])
        for which_, (ma, ba, ka) in (("m, b, k", (mI, bI, kI)), ("k", (mI.astype(float), bI.astype(float), kI)), ("m", (mI, bI.astype(float), kI.astype(float)))):
            for cls_ in ("SolveUnc", "FreqDirect"):
                sI = getattr(ode, cls_)(ma, ba, ka, rf=[3, 4], rb=[0]).fsolve(FI_, fqI)
                ev += 1
                if not np.allclose(sI.d, refI, rtol=1e-9, atol=1e-14):
                    return ev, dict(solver=cls_, what="frequency response with integer-typed %s differs from the closed form (same numbers as floats are correct)" % which_,
                                    m=np.asarray(ma).tolist(), b=np.asarray(ba).tolist(), k=np.asarray(ka).tolist())
        # pre-eigensolution + residual-flexibility modes + rf_disp_only: modal solution by hand (own eigh, modal dynamic stiffness, static rf, v = a = 0 on rf when asked)
        Mp_ = np.diag([2.0, 1.5, 3.0, 1.0])
        Kp_ = np.array([[90.0, -30.0, 0.0, 0.0], [-30.0, 60.0, -20.0, 0.0], [0.0, -20.0, 45.0, -5.0], [0.0, 0.0, -5.0, 4000.0]])
        w2_, ph_ = la.eigh(Kp_, Mp_)
        zt_ = np.array([0.02, 0.03, 0.01, 0.05])
        Bp_ = Mp_ @ ph_ @ np.diag(2 * zt_ * np.sqrt(w2_)) @ ph_.T @ Mp_
        fqP = np.sort(rng.rand(6) * 6 + 0.3)
        FP_ = rng.randn(4, 6) + 1j * rng.randn(4, 6)
        WP = 2 * np.pi * fqP
        Fq_ = ph_.T @ FP_
        for rfdo in (False, True):
            for rfm in ([3], [2, 3]):
                dq = np.empty((4, 6), complex); vq = np.empty((4, 6), complex); aq = np.empty((4, 6), complex)
                for k_ in range(4):
                    if k_ in rfm:
                        dq[k_] = Fq_[k_] / w2_[k_]
                        vq[k_], aq[k_] = (0, 0) if rfdo else (1j * WP * dq[k_], -WP ** 2 * dq[k_])
                    else:
                        dq[k_] = Fq_[k_] / (-WP ** 2 + 1j * WP * 2 * zt_[k_] * np.sqrt(w2_[k_]) + w2_[k_])
                        vq[k_], aq[k_] = 1j * WP * dq[k_], -WP ** 2 * dq[k_]
                sP = ode.SolveUnc(Mp_, Bp_, Kp_, pre_eig=True, rf=rfm).fsolve(FP_, fqP, rf_disp_only=rfdo)
                ev += 1
                okP = all(np.allclose(g_, ph_ @ w_, rtol=1e-7, atol=1e-9 * abs(ph_ @ w_).max()) for g_, w_ in ((sP.d, dq), (sP.v, vq), (sP.a, aq)))
                if not okP:
                    return ev, dict(solver="SolveUnc", what="pre_eig=True with residual-flexibility modes %s, rf_disp_only=%s: d, v, a differ from phi times the modal solution computed by hand "
                                    "(static rf displacement; rf velocity / acceleration zero when rf_disp_only)" % (rfm, rfdo))
        # diagonal system with rb + 0 Hz anywhere in the frequency vector, permutation invariance
        m_, b_, k_ = np.array([2.0, 1.0, 3.0]), np.array([0.0, 0.4, 0.6]), np.array([0.0, 90.0, 150.0])
        fq = np.array([1.5, 0.0, 4.0, 2.5])[rng.permutation(4)]
        Fq = rng.randn(3, 4) + 1j * rng.randn(3, 4)
        s1 = ode.SolveUnc(m_, b_, k_).fsolve(Fq, fq)
        ev += 1
        order = np.argsort(fq)
        s2 = ode.SolveUnc(m_, b_, k_).fsolve(Fq[:, order], fq[order])
        if not (np.all(np.isfinite(s1.d)) and np.allclose(s1.d[:, order], s2.d) and np.allclose(s1.v[:, order], s2.v) and np.all(s1.d[0, fq == 0] == 0)):
            return ev, dict(solver="SolveUnc", freq=fq.tolist(), what="result depends on the position of 0 Hz in the frequency vector / not finite")
    return ev, None


def rb_damping_witness(entry):
    """known finding: uncoupled path, rigid-body mode with damping is solved as a = F/m"""
    sys.path.insert(0, report.REPO)
    from pyyeti import ode
    w_ = entry["witness"]
    m, b, k = np.array(w_["m"]), np.array(w_["b"]), np.array(w_["k"])
    freq, F = np.array(w_["freq"]), np.array(w_["F"], dtype=complex)
    sol = ode.SolveUnc(m, b, k).fsolve(F, freq)
    W = 2 * np.pi * freq
    ref = F[0] / (-W ** 2 * m[0] + 1j * W * b[0] + k[0])
    err = abs(sol.d[0] - ref).max() / abs(ref).max()
    return dict(fails=bool(err > 1e-9), relative_error=float(err))


def run(tier, seed):
    run = report.Run(PID, tier, seed)
    run.trust("sympy (50-digit numeric identity test on the symbolic outputs of the real code)", "vc.alg symbolic shims")
    run.assume("floats are exact complex numbers (no rounding; conditioning not decided)",
               "system sizes fixed per configuration (3 modes: rigid, elastic, residual-flexibility); all values, frequencies and forces symbolic")
    run.not_covered += ["coupled path through scipy.linalg.eig and pre_eig: bounded float checks only", "FreqDirect coupled loop (scipy.linalg.solve): bounded only"]
    for rel, names in ((SU, ("_solve_freq_unc", "_solve_freq_rb", "fsolve")), (FD, ("fsolve",)), (UT, ("solvepsd",)), (BASE, ("_init_dva",))):
        for nd in ast.walk(ast.parse(report.read_source(rel))):
            if isinstance(nd, ast.FunctionDef) and nd.name in names:
                run.add_function(rel, nd.name, hashlib.sha256(ast.unparse(nd).encode()).hexdigest()[:16], {"note": "real function executed on symbolic inputs"})
    subsets = ["", "d", "v", "a", "dv", "da", "va", "dva"]
    cases = [(c, inc, rfdo, mf) for c in ("SolveUnc", "FreqDirect") for inc in subsets for rfdo in (False, True) for mf in ("vector", "none")]
    pcases = [("1", "1", False), ("s", "s", False), ("1", "1", True), ("s", "1", True)]
    P = report.pool()
    r1 = P.map_async(unc_case, cases, chunksize=2)
    r2 = P.map_async(psd_case, pcases, chunksize=1)
    r3 = P.map_async(fd_coupled_case, [("FreqDirect", mf, z0) for mf in ("matrix", "none") for z0 in (True, False)], chunksize=1)
    vs = []
    allfails = []
    for tag, rr in (("fsolve", r1), ("solvepsd", r2), ("FreqDirect.fsolve[coupled, non-symmetric m/b, symmetric k]", r3)):
        for args, n, fails in rr.get():
            name = "%s%s::all %d output entries equal the specification" % (tag, args, n)
            und_ = [f_ for f_ in fails if f_.get("undecided")]
            fails = [f_ for f_ in fails if not f_.get("undecided")]
            vs.append(report.Verdict(name, "failed" if fails else ("undecided" if und_ else "proved"), "sympy-%s (normal form of the symbolic outputs)" % sp.__version__, 0.0, "post",
                                     SU if tag == "fsolve" else UT, {"entries": n, "fails": fails[:4], "reason": und_[:2] if und_ else None}))
            allfails += [dict(case=str(args), **f) for f in fails]
    run.add_verdicts(vs)
    ev, cf = report.guarded(run, concrete, report.REPO, seed, 6 if tier == "quick" else 400)
    run.bounded.append(dict(name="float: coupled random systems (SolveUnc, SolveUnc pre_eig, FreqDirect) vs numpy solve of the dynamic-stiffness system; v=iWd, a=-W^2 d; "
                                 "0 Hz anywhere in the frequency vector", evaluations=ev, failures=0 if cf is None else 1, label="bounded (never counted as proved)"))
    kf = [k_ for k_ in run.known if k_.get("obligation") == "fsolve.rigid-body-damping" and k_.get("status") == "open"]
    if kf:
        kw_ = rb_damping_witness(kf[0])
        run.known_finding(kf[0], kw_["fails"])
        run.bounded.append(dict(name="known-finding witness: damped rigid-body mode in the uncoupled frequency-domain path", evaluations=1, failures=int(kw_["fails"]), detail=kw_))
    run.assume("rigid-body modal equations are undamped (b = 0) in the proved configurations; a damped rigid-body mode is a recorded known finding")
    if allfails:
        run.violation(vs and [v for v in vs if v.status == "failed"][0].name, "frequency-domain output differs from the specification",
                      dict(concrete=allfails[0], all=allfails[:10]), concrete=True)
    elif cf is not None:
        run.violation("bounded:" + cf["what"], cf["what"], dict(concrete=cf), concrete=True)
    return run.finish()


def replay(path):
    d = json.load(open(path))
    print(json.dumps(d.get("concrete"), indent=1)[:3000])
    return 1 if d.get("concrete") else 0
