"""C07 - matrix exponential, its integrals (expmint), getEPQ variants and SSModel c2d/d2c (DESIGN.md section C07).

Technique: the REAL functions of pyyeti/expmint.py run on matrices A = a*J whose step h is a formal indeterminate:
scalars are exact truncated power series in h (vc/pseries.py), scipy's `solve` is replaced by its contract (exact series
solution).  The postcondition is stated against the Taylor series of exp(Ah), int exp(At)dt and int t exp(At)dt, i.e. the
definition, and must hold to the order the Pade degree promises - which pins every literal of every table, the h factors,
the scaling-and-squaring recurrences and the E/P/Q bookkeeping.  SSModel.c2d/d2c run on sympy symbols (vc/alg.py).
"""
import ast, hashlib, json, os, sys, time, warnings, traceback
from fractions import Fraction as Fr
import numpy as np
import sympy as sp
from vc import report, alg, pseries as ps, symla

PID = "C07"
EM, SS = "pyyeti/expmint.py", "pyyeti/ssmodel.py"
LIT_TOL = 2.0 ** -44        # a literal stored as a double may be off by one rounding; anything larger is a wrong coefficient

MATS = {
    "general": [[Fr(1), Fr(2)], [Fr(3), Fr(-1)]],
    "upper-triangular": [[Fr(1), Fr(2)], [Fr(0), Fr(-1)]],
    "nearly-triangular": [[Fr(1), Fr(2)], [Fr(1, 10 ** 9), Fr(-1)]],
    "singular": [[Fr(1), Fr(2)], [Fr(2), Fr(4)]],
    "defective": [[Fr(2), Fr(1)], [Fr(0), Fr(2)]],
}
SCALE = Fr(3, 2)
# forced norm estimates that select each branch of expmint/_expm_SS (the thresholds themselves are NOT verified)
BRANCH = {3: 0.01, 5: 0.2, 7: 0.9, 9: 2.0, "13s0": 4.0, "13s1": 8.0, "13s3": 30.0}


class _Linalg:
    def norm(self, x, ord=None):
        x = np.asarray(x)
        return float(max(sum(abs(ps.PS.lift(v).num()) for v in col) for col in x.T))


class NPX:
    """numpy proxy for the module under test: allocation -> series arrays; predicates decided numerically at the witness"""
    linalg = _Linalg()

    def __getattr__(self, name):
        return getattr(np, name)

    def eye(self, n, m=None, k=0, dtype=float, **kw):
        return ps.eye(n, m, k)

    def zeros(self, shape, dtype=float, order="C"):
        return ps.zeros(shape)

    def allclose(self, x, y, rtol=1e-5, atol=1e-8, **k):
        f = lambda a: np.array([float(ps.PS.lift(v).num()) for v in np.asarray(a).reshape(-1)])
        return bool(np.allclose(f(x), f(y), rtol=rtol, atol=atol))

    def triu(self, a, k=0):
        return np.triu(a, k)

    # validation predicates meeting a series stand-in: a series stands for a finite, valid real number (array or scalar)
    def _pred(self, x, value, real):
        a = np.asarray(x)
        if isinstance(x, ps.PS):
            return value
        if a.dtype == object:
            return np.full(a.shape, value, dtype=bool) if a.ndim else value
        return real(x)

    def isfinite(self, x):
        return self._pred(x, True, np.isfinite)

    def isinf(self, x):
        return self._pred(x, False, np.isinf)

    def isnan(self, x):
        return self._pred(x, False, np.isnan)

    def isscalar(self, x):
        return isinstance(x, ps.PS) or np.isscalar(x)

    def ndim(self, x):
        return 0 if isinstance(x, ps.PS) else np.ndim(x)


def _truth(Jm, n_terms):
    """Taylor series (the definition): E = sum (Ah)^k/k!, I1 = sum A^k h^(k+1)/(k+1)!, I2 = sum A^k h^(k+2)/(k!(k+2))"""
    n = len(Jm)
    A = [[SCALE * x for x in r] for r in Jm]
    X = [[Fr(int(i == j)) for j in range(n)] for i in range(n)]
    E = [[[Fr(0)] * ps.N for _ in range(n)] for _ in range(n)]
    I1 = [[[Fr(0)] * ps.N for _ in range(n)] for _ in range(n)]
    I2 = [[[Fr(0)] * ps.N for _ in range(n)] for _ in range(n)]
    fact = Fr(1)
    for k in range(ps.N):
        if k:
            fact *= k
        for i in range(n):
            for j in range(n):
                E[i][j][k] = X[i][j] / fact
                if k + 1 < ps.N:
                    I1[i][j][k + 1] = X[i][j] / (fact * (k + 1))
                if k + 2 < ps.N:
                    I2[i][j][k + 2] = X[i][j] / (fact * (k + 2))
        X = [[sum(X[i][l] * A[l][j] for l in range(n)) for j in range(n)] for i in range(n)]
    mk = lambda T: ps.lift_array([[ps.PS(T[i][j]) for j in range(n)] for i in range(n)])
    return mk(E), mk(I1), mk(I2)


class Forced:
    """patch scipy's helper so that the norm estimates take a forced value (branch selection) and solve is the series contract"""

    def __init__(self, em, eta, ell=0):
        self.em, self.mf, self.eta, self.ell = em, em.mf, eta, ell

    def __enter__(self):
        mf = self.mf
        self.names = [k for k in ("d4_loose", "d6_loose", "d8_loose", "d10_loose", "d4_tight", "d6_tight", "d8_tight", "d10_tight")]
        self.saved = {k: mf._ExpmPadeHelper.__dict__[k] for k in self.names}
        for k in self.names:
            setattr(mf._ExpmPadeHelper, k, property(lambda s, v=self.eta: v))
        self.sv2 = (mf.solve, mf.solve_triangular, mf._ell)
        mf.solve, mf.solve_triangular, mf._ell = ps.solve, ps.solve_triangular, (lambda A, m, e=self.ell: e)
        g = self.em.__dict__
        self.g_saved = {k: g[k] for k in ("np", "la")}
        g["np"], g["la"] = NPX(), ps
        return self

    def __exit__(self, *a):
        mf = self.mf
        for k, v in self.saved.items():
            setattr(mf._ExpmPadeHelper, k, v)
        mf.solve, mf.solve_triangular, mf._ell = self.sv2
        self.em.__dict__.update(self.g_saved)


def _amat(Jm):
    return ps.lift_array([[SCALE * x for x in r] for r in Jm])


def _grade(name, got, want, need, where=EM):
    """obligation: got == want mod h^need, except for coefficient differences explainable by one double rounding of a literal"""
    try:
        k, rel = ps.mismatch_order(got, want, need)
    except Exception as ex:
        return report.Verdict(name, "undecided", "series", 0.0, "post", where, {"reason": "checker could not compare: %r" % ex})
    det = {"required_order": need, "first_mismatch_order": k, "relative_size_of_first_mismatch": rel}
    if k >= need:
        return report.Verdict(name, "proved", "series(exact rationals)", 0.0, "post", where, det)
    # graded: a literal that is not exactly representable as a double perturbs every coefficient by ~1e-16 of the series' scale;
    # such differences are accepted up to 2^-44 of the LARGEST true coefficient (i.e. round-off level for |A h| of order one)
    got, want = ps.lift_array(got), ps.lift_array(want)
    scale = max(abs(x) for w in want.reshape(-1) for x in w.c[:need])
    worst, wk = 0.0, None
    for kk in range(need):
        d = max(abs(g.c[kk] - w.c[kk]) for g, w in zip(got.reshape(-1), want.reshape(-1)))
        if d:
            r = float(d / scale) if scale else float("inf")
            if r > worst:
                worst, wk = r, kk
    det["worst_mismatch_relative_to_largest_true_coefficient"] = worst
    if worst <= LIT_TOL:
        det["note"] = "differences are at the level of one rounding of a literal stored as a double (<= 2^-44 of the series scale)"
        return report.Verdict(name, "proved", "series(exact rationals, literal rounding graded)", 0.0, "post", where, det)
    det["order_of_worst"] = wk
    return report.Verdict(name, "failed", "series(exact rationals)", 0.0, "post", where, det)


def _guard(f, args):
    t0 = time.time()
    try:
        return f(args)
    except Exception as ex:
        tb = traceback.extract_tb(ex.__traceback__)
        inrepo = [fr for fr in tb if "/pyyeti/" in fr.filename and "/verif/" not in fr.filename]
        last = tb[-1]
        line = (last.line or "").strip()
        # an exception during a run on series/symbolic stand-ins is a tool limit (e.g. input validation meeting a stand-in object), never a violation by itself:
        # real exceptions on valid input are found by the concrete float sweep, which calls the same functions on real numbers
        st, why = "undecided", "symbolic run stopped: %r at %s:%s" % (ex, last.filename, last.lineno)
        return [report.Verdict("%s%s::runs to completion" % (f.__name__, args), st, "series", time.time() - t0, "post", EM, {"reason": why}).as_dict()]


def expmint_case_impl(args):
    matname, br = args
    ps.N = 34
    em = alg.load_module(report.REPO, EM)
    Jm = MATS[matname]
    m = br if isinstance(br, int) else 13
    with warnings.catch_warnings():
        warnings.simplefilter("ignore")
        with Forced(em, BRANCH[br]):
            E, I, I2 = em.expmint(_amat(Jm), ps.PS.var(), True)
    Et, It, I2t = _truth(Jm, ps.N)
    out = []
    tag = "expmint[A=%s, Pade %s]" % (matname, br)
    need = {"E": 2 * m + 1, "I": 2 * m + 2, "I2": (2 * m + 3) if m <= 9 else 2 * m}
    if matname == "singular" and m == 13:
        # the power-series fallback stops when the next term is below 1e-15: what it has summed must be the true series
        need["I2"] = min(need["I2"], 14)
    out.append(_grade(tag + "::E == exp(A h) to order h^%d" % (need["E"] - 1), E, Et, need["E"]))
    out.append(_grade(tag + "::I == int_0^h exp(A t) dt to order h^%d" % (need["I"] - 1), I, It, need["I"]))
    out.append(_grade(tag + "::I2 == int_0^h t exp(A t) dt to order h^%d" % (need["I2"] - 1), I2, I2t, need["I2"]))
    return [v.as_dict() for v in out]


def expmint_case(args):
    return _guard(expmint_case_impl, args)


def epq_case_impl(args):
    fn, order, bmode, br = args
    ps.N = 34
    em = alg.load_module(report.REPO, EM)
    Jm = [[Fr(0), Fr(0), Fr(1), Fr(0)], [Fr(0), Fr(0), Fr(0), Fr(1)], [Fr(-3), Fr(1), Fr(-1, 2), Fr(1, 5)], [Fr(1), Fr(-2), Fr(1, 7), Fr(-1, 3)]] \
        if bmode in ("half", "B+half") else MATS["general"]
    n = len(Jm)
    B = None
    if bmode == "B":
        B = ps.lift_array([[Fr(2)], [Fr(-1, 3)]])
    elif bmode == "B+half":
        # an input matrix with non-zero rows everywhere, passed together with half=True (documented: `half` is ignored when B is given)
        B = ps.lift_array([[Fr(2), Fr(1)], [Fr(-1, 3), Fr(0)], [Fr(5, 7), Fr(-2)], [Fr(1, 2), Fr(3)]])
    m = br if isinstance(br, int) else 13
    with warnings.catch_warnings():
        warnings.simplefilter("ignore")
        with Forced(em, BRANCH[br]):
            ps.HWIT = Fr(1, 10) if fn != "getEPQ_hi" else Fr(3)          # getEPQ: norm switch decided at the witness (both sides exercised)
            f = getattr(em, "getEPQ" if fn.startswith("getEPQ_") and fn != "getEPQ_pow" else fn)
            E, P, Q = f(_amat(Jm), ps.PS.var(), order=order, B=B, half=(bmode in ("half", "B+half")))
            ps.HWIT = Fr(1, 10)
    Et, It, I2t = _truth(Jm, ps.N)
    hh = ps.PS.var()
    I2h = ps.lift_array([[x / hh for x in r] for r in I2t])
    if order == 1:
        Pt, Qt = I2h, It - I2h
    else:
        Pt, Qt = It, None
    if B is not None:
        Pt = Pt.dot(B)
        Qt = Qt.dot(B) if Qt is not None else None
    elif bmode == "half":
        Pt = Pt[:, : n // 2]
        Qt = Qt[:, : n // 2] if Qt is not None else None
    tag = "%s[order=%d, %s, Pade %s]" % (fn, order, {"none": "B=None", "B": "B given", "half": "half=True", "B+half": "B given and half=True"}[bmode], br)
    if fn == "getEPQ_pow":
        need = 12           # the loop stops on a numeric tolerance at the witness; whatever it summed must be the series
    elif fn in ("getEPQ2", "getEPQ_hi"):
        need = 2 * m - 1
    else:
        need = 2 * m if m <= 9 else 2 * m - 2
    out = [_grade(tag + "::E == exp(A h)", E, Et, need)]
    out.append(_grade(tag + "::P == %s" % ("(I2/h) B" if order else "I1 B"), P, Pt, need - 1))
    if order == 1:
        out.append(_grade(tag + "::Q == (I1 - I2/h) B", Q, Qt, need - 1))
    else:
        ok = isinstance(Q, float) and Q == 0.0
        out.append(report.Verdict(tag + "::Q == 0.0", "proved" if ok else "failed", "term", 0.0, "post", EM, {"got": repr(Q)[:80]}))
    return [v.as_dict() for v in out]


def epq_case(args):
    return _guard(epq_case_impl, args)


# ------------------------------------------------------------------------------------------------------------------
# SSModel.c2d / d2c on sympy symbols
def _symmat(name, r, c, **kw):
    return sp.Matrix(r, c, lambda i, j: sp.Symbol("%s%d%d" % (name, i, j), **kw))


def _S(M):
    return symla.toarr(M)


class NPS(alg.NumpyProxy):
    def eye(self, n, m=None, **k):
        return symla.toarr(sp.eye(n))


def tustin_case_impl(args):
    prewarp, = args
    ssm = alg.load_module(report.REPO, SS)
    A, B, C, D = _symmat("a", 2, 2, real=True), _symmat("b", 2, 1, real=True), _symmat("c", 1, 2, real=True), _symmat("d", 1, 1, real=True)
    K = sp.Symbol("k", positive=True)
    w = sp.Symbol("w", positive=True)
    T = sp.Symbol("T", positive=True)           # stands for tan(w h / 2): the only way h enters when prewarping
    h = 2 / K                                   # so that the code's k = 2/h is the plain symbol k
    wit = {s: sp.Rational(i + 2, 7) * (-1) ** i for i, s in enumerate(sorted(A.free_symbols | B.free_symbols | C.free_symbols | D.free_symbols, key=str))}
    wit.update({K: 40, w: 3, T: sp.Rational(3, 40)})
    # prewarp == "stored": the discrete model CARRIES a prewarp frequency (it came from a prewarped c2d) but the conversions are asked for WITHOUT prewarping
    # (argument omitted / 0): the documented constant is then k = 2/h; the prewarp constant is a different symbol here, so using it instead shows
    stored = prewarp == "stored"
    prewarp = bool(prewarp) and not stored
    K2 = sp.Symbol("k2", positive=True)
    wit[K2] = 55
    reg = alg.Regime("tustin", wit)
    pw = alg.S(w) if prewarp else 0
    tan_args = []

    class NPT(NPS):
        def tan(self, x):
            tan_args.append(alg.expr_of(x))
            return alg.S(w / (K2 if stored else K))          # i.e. tan(w h/2) =: w/k, so that the code's k = prewarp/tan(...) is the plain symbol k (k2 in the "stored" variant)
    with alg.Shimmed(ssm, reg, {"np": NPT(), "la": symla}):
        c = ssm.SSModel(_S(A), _S(B), _S(C), _S(D))
        d = c.c2d(alg.S(h), method="tustin", prewarp=pw)
        if stored:
            d.prewarp = alg.S(w)
            c2 = d.d2c(method="tustin") if True else None
        else:
            c2 = d.d2c(method="tustin", prewarp=pw)
        dd = ssm.SSModel(_S(A), _S(B), _S(C), _S(D), alg.S(h), "tustin", alg.S(w) if stored else pw)     # an arbitrary DISCRETE model
        cc = dd.d2c(method="tustin", prewarp=pw) if not stored else dd.d2c(method="tustin", prewarp=0)
        d2 = cc.c2d(alg.S(h), method="tustin", prewarp=pw)
    items = []
    tag = "SSModel tustin%s" % ("+prewarp" if prewarp else (" [model carries a prewarp frequency, conversion asked without]" if stored else ""))
    kk = K                                      # the bilinear constant (2/h, or w/tan(w h/2) when prewarping)
    for lab, m1 in (("d2c(c2d(model))", c2), ("c2d(d2c(discrete model))", d2)):
        for nm, X0 in (("A", A), ("B", B), ("C", C), ("D", D)):
            M1 = symla.tomat(getattr(m1, nm))
            for i in range(M1.rows):
                for j in range(M1.cols):
                    items.append(("%s::%s.%s[%d,%d] == model.%s[%d,%d]" % (tag, lab, nm, i, j, nm, i, j), M1[i, j] - X0[i, j], SS, "post"))
    if prewarp:
        bad = [a_ for a_ in tan_args if sp.simplify(a_ - w * h / 2) != 0]
        items.append(("%s::tan is taken of prewarp*h/2 at every use (%d uses)" % (tag, len(tan_args)), sp.Integer(1 if bad or not tan_args else 0), SS, "post"))
    # input-output equivalence with the bilinear map s = k (z-1)/(z+1), k = 2/h or w/tan(w h/2)
    z = sp.Symbol("z")
    s_ = kk * (z - 1) / (z + 1)
    Hc = (C * (s_ * sp.eye(2) - A).inv() * B + D)[0, 0]
    Ad, Bd, Cd, Dd = [symla.tomat(getattr(d, n)) for n in "ABCD"]
    Hd = (Cd * (z * sp.eye(2) - Ad).inv() * Bd + Dd)[0, 0]
    items.append(("%s::H_d(z) == H_c(k (z-1)/(z+1)) with k = %s" % (tag, "w/tan(w h/2)" if prewarp else "2/h"), Hd - Hc, SS, "post"))
    return items, reg.path


def hold_case_impl(args):
    """zoh / zoha / foh: c2d and d2c checked MODULARLY against getEPQ's contract (E, P, Q abstract but consistent):
    the discrete model must be the state transformation of  x+ = E x + P u + Q u+  and d2c must undo c2d."""
    method, = args
    ssm = alg.load_module(report.REPO, SS)
    A, B, C, D = _symmat("a", 2, 2, real=True), _symmat("b", 2, 1, real=True), _symmat("c", 1, 2, real=True), _symmat("d", 1, 1, real=True)
    E, P, Q = _symmat("e", 2, 2, real=True), _symmat("p", 2, 2, real=True), _symmat("q", 2, 2, real=True)
    h = sp.Symbol("h", positive=True)
    allsyms = sorted(set().union(*[M.free_symbols for M in (A, B, C, D, E, P, Q)]), key=str)
    wit = {s: sp.Rational((i * 7) % 11 + 1, 13) * (-1) ** i for i, s in enumerate(allsyms)}
    wit[h] = sp.Rational(1, 20)
    reg = alg.Regime(method, wit)
    calls = []

    class FakeExpmint:
        """getEPQ under contract: returns the abstract E, P(B), Q(B) of the continuous A it is given; records the call"""
        @staticmethod
        def getEPQ(Ac, hh, order=1, B=None, half=False):
            calls.append(dict(order=order, hasB=B is not None, A=symla.tomat(Ac), h=alg.expr_of(hh)))
            Pm = P if B is None else P * symla.tomat(B)
            Qm = Q if B is None else Q * symla.tomat(B)
            if order == 1:
                return _S(E), _S(Pm), _S(Qm)
            return _S(E), _S(Pm), 0.0

    class FakeLa:
        solve = staticmethod(symla.solve)
        lu_factor = staticmethod(symla.lu_factor)
        lu_solve = staticmethod(symla.lu_solve)

        @staticmethod
        def eig(M):
            calls.append(dict(eig_of=symla.tomat(M)))
            raise _NeedLog()

    class _NeedLog(Exception):
        pass

    items = []
    tag = "SSModel %s" % method
    with alg.Shimmed(ssm, reg, {"np": NPS(), "la": FakeLa, "expmint": FakeExpmint}):
        c = ssm.SSModel(_S(A), _S(B), _S(C), _S(D))
        d = c.c2d(alg.S(h), method=method)
    Ad, Bd, Cd, Dd = [symla.tomat(getattr(d, n)) for n in "ABCD"]
    order = 1 if method == "foh" else 0
    if method == "zoh":
        want = (E, P * B, C, D)
    elif method == "zoha":
        Qh = P * B / 2
        want = (E, Qh + E * Qh, C, C * Qh + D)
    else:
        want = (E, P * B + E * (Q * B), C, C * (Q * B) + D)
    for nm, got, w_ in zip("ABCD", (Ad, Bd, Cd, Dd), want):
        for i in range(got.rows):
            for j in range(got.cols):
                items.append(("%s::c2d.%s[%d,%d] is the %s-hold model of x+ = E x + P u + Q u+" % (tag, nm, i, j, method), got[i, j] - w_[i, j], SS, "post"))
    ok = len(calls) == 1 and calls[0]["order"] == order and calls[0]["hasB"] and calls[0]["A"] == A and calls[0]["h"] == h
    items.append(("%s::c2d calls getEPQ(A, h, order=%d, B=B)" % (tag, order), sp.Integer(0 if ok else 1), SS, "call"))
    return items, reg.path


def d2c_case_impl(args):
    """d2c for zoh / zoha / foh, modular: la.eig and np.log are replaced by their contracts on a discrete A_d = phi diag(lam) phi^-1
    (lam > 0 symbols, L(lam) an opaque real logarithm with exp(L(l)) = l), getEPQ by ITS contract on the continuous matrix the code
    passes in (E = A_d provided that matrix is phi diag(L(lam)/h) phi^-1, which is itself an obligation; P, Q from the hold integrals
    written with A^-1).  Obligations: d2c recovers B, C, D of the continuous model whose c2d image the discrete model is."""
    method, = args
    ssm = alg.load_module(report.REPO, SS)
    h = sp.Symbol("h", positive=True)
    l = sp.symbols("l0:2", positive=True)
    Lf = sp.Function("L", real=True)
    phi = sp.Matrix([[1, 2], [sp.Symbol("p10", real=True), sp.Symbol("p11", real=True)]])
    B, C, D = _symmat("b", 2, 1, real=True), _symmat("c", 1, 2, real=True), _symmat("d", 1, 1, real=True)
    Ad = (phi * sp.diag(*l) * phi.inv()).applyfunc(sp.cancel)
    mu = [Lf(x) / h for x in l]
    Ac = (phi * sp.diag(*mu) * phi.inv()).applyfunc(sp.cancel)            # the continuous A with exp(Ac h) = Ad
    I2 = sp.eye(2)
    # hold integrals of the true continuous model (scalar functions of Ac, written through the eigen-decomposition)
    f_I1 = [(x - 1) / m for x, m in zip(l, mu)]                           # int_0^h e^{mu t} dt
    f_I2 = [(x * h - (x - 1) / m) / m for x, m in zip(l, mu)]             # int_0^h t e^{mu t} dt
    I1m = (phi * sp.diag(*f_I1) * phi.inv()).applyfunc(sp.cancel)
    I2m = (phi * sp.diag(*f_I2) * phi.inv()).applyfunc(sp.cancel)
    if method == "foh":
        Pm, Qm = I2m / h, I1m - I2m / h
        Bd, Dd = (Pm + Ad * Qm) * B, C * Qm * B + D
    elif method == "zoh":
        Pm, Qm = I1m, None
        Bd, Dd = Pm * B, D
    else:
        Pm, Qm = I1m, None
        Bd, Dd = (Pm / 2 + Ad * Pm / 2) * B, C * (Pm / 2) * B + D
    syms = sorted(set().union(*[M.free_symbols for M in (phi, B, C, D)]) | set(l), key=str)
    wit = {s_: sp.Rational((i * 5) % 7 + 2, 9) for i, s_ in enumerate(syms)}
    wit[h] = sp.Rational(1, 20)
    reg = alg.Regime("d2c-" + method, wit)
    seen = {}

    class FakeLa:
        solve = staticmethod(symla.solve)

        @staticmethod
        def eig(M):
            seen["eig_arg"] = symla.tomat(M)
            return alg.sym_array(list(l)), symla.toarr(phi)

    class NPL(NPS):
        def log(self, x):
            x = np.asarray(x)
            seen["log_arg"] = [alg.expr_of(v) for v in x.reshape(-1)]
            return alg.sym_array([Lf(alg.expr_of(v)) for v in x.reshape(-1)])

    class FakeExpmint:
        @staticmethod
        def getEPQ(Ain, hh, order=1, B=None, half=False):
            seen["epq_A"] = symla.tomat(Ain)
            seen["epq_args"] = (alg.expr_of(hh), order, B is None, half)
            if order == 1:
                return symla.toarr(Ad), symla.toarr(Pm), symla.toarr(Qm)
            return symla.toarr(Ad), symla.toarr(Pm), 0.0

    with alg.Shimmed(ssm, reg, {"np": NPL(), "la": FakeLa, "expmint": FakeExpmint}):
        dmod = ssm.SSModel(symla.toarr(Ad), symla.toarr(Bd), symla.toarr(C), symla.toarr(Dd), alg.S(h), method)
        cm = dmod.d2c(method=method)
    items = []
    tag = "SSModel %s d2c" % method
    Arec = symla.tomat(cm.A)
    for i in range(2):
        for j in range(2):
            items.append(("%s::A[%d,%d] == phi diag(log(lam)/h) phi^-1" % (tag, i, j), Arec[i, j] - Ac[i, j], SS, "post"))
    for nm, got, want in (("B", symla.tomat(cm.B), B), ("C", symla.tomat(cm.C), C), ("D", symla.tomat(cm.D), D)):
        for i in range(got.rows):
            for j in range(got.cols):
                items.append(("%s::%s[%d,%d] == the continuous model's %s (d2c undoes c2d)" % (tag, nm, i, j, nm), got[i, j] - want[i, j], SS, "post"))
    if "epq_A" in seen:
        dA = seen["epq_A"] - Ac
        ok = all(sp.simplify(x) == 0 for x in dA) and seen["epq_args"][0] == h and seen["epq_args"][1] == (1 if method == "foh" else 0) and seen["epq_args"][2]
        items.append(("%s::getEPQ is called on the recovered A with (h, order=%d, B=None)" % (tag, 1 if method == "foh" else 0), sp.Integer(0 if ok else 1), SS, "call"))
    return items, reg.path


def log_case(seed):
    """bounded (numeric): d2c recovers A with exp(A h) == A_d for modes up to the Nyquist frequency, all hold methods, real code, floats"""
    sys.path.insert(0, report.REPO)
    from pyyeti import ssmodel
    import scipy.linalg as la
    rng = np.random.RandomState(seed)
    ev = 0
    for it in range(12):
        h = 0.01
        # oscillatory modes placed in (0, pi/h): fractions of Nyquist from 0.05 to 0.95
        frs = rng.uniform(0.05, 0.95, size=2)
        blocks = []
        for fr_ in frs:
            wd = fr_ * np.pi / h
            sig = -rng.uniform(0.5, 20)
            blocks.append(np.array([[sig, wd], [-wd, sig]]))
        A = la.block_diag(*blocks)
        T = rng.randn(4, 4) + 2 * np.eye(4)
        A = T @ A @ np.linalg.inv(T)
        B = rng.randn(4, 2)
        C = rng.randn(3, 4)
        D = rng.randn(3, 2)
        for method in ("zoh", "zoha", "foh", "tustin"):
            c = ssmodel.SSModel(A, B, C, D)
            d = c.c2d(h, method=method)
            c2 = d.d2c(method=method)
            ev += 1
            for nm in "ABCD":
                X0, X1 = getattr(c, nm), getattr(c2, nm)
                if not np.allclose(X0, X1, rtol=1e-6, atol=1e-6 * abs(X0).max()):
                    return ev, dict(method=method, matrix=nm, A=A.tolist(), h=h, fractions_of_nyquist=frs.tolist(),
                                    what="d2c(c2d(model)).%s != model.%s (max abs diff %.3g)" % (nm, nm, abs(X0 - X1).max()))
            if method != "tustin" and not np.allclose(la.expm(A * h), d.A, rtol=1e-8, atol=1e-10):
                return ev, dict(method=method, what="c2d A != expm(A h)", A=A.tolist(), h=h)
    return ev, None


def sampled_case(seed):
    """bounded (numeric): zoh/foh discrete models reproduce the exactly sampled response to piecewise-constant/linear inputs"""
    sys.path.insert(0, report.REPO)
    from pyyeti import ssmodel
    import scipy.linalg as la
    from scipy.integrate import solve_ivp
    rng = np.random.RandomState(seed + 5)
    ev = 0
    for it in range(3):
        n = 3
        A = rng.randn(n, n) - 2 * np.eye(n)
        B = rng.randn(n, 1)
        C = rng.randn(1, n)
        D = rng.randn(1, 1)
        h = 0.05
        u = rng.randn(7)
        for method in ("zoh", "foh"):
            d = ssmodel.SSModel(A, B, C, D).c2d(h, method=method)
            x = np.zeros(n)
            if method == "foh":
                x = x - 0  # discrete state differs from the physical state by Q u; compare OUTPUTS
            ys = []
            for k in range(len(u)):
                ys.append((d.C @ x + d.D @ u[k:k + 1])[0])
                x = d.A @ x + d.B @ u[k:k + 1]
            # reference: integrate the continuous model with the held input

            def uin(t):
                k = min(int(np.floor(t / h + 1e-12)), len(u) - 2)
                if method == "zoh":
                    return u[min(int(np.floor(t / h + 1e-12)), len(u) - 1)]
                return u[k] + (u[k + 1] - u[k]) * (t - k * h) / h
            xs = np.zeros(n) if method == "zoh" else None
            yref = []
            xc = np.zeros(n)
            if method == "foh":
                # discrete foh model started at z0 = 0 means physical x0 = Q u0; start the reference there
                E, P, Q = __import__("pyyeti.expmint", fromlist=["x"]).getEPQ(A, h, 1, B=B)
                xc = (Q @ u[0:1])
            for k in range(len(u)):
                yref.append((C @ xc + D @ u[k:k + 1])[0])
                if k < len(u) - 1:
                    sol = solve_ivp(lambda t, y: A @ y + B[:, 0] * uin(t), (k * h, (k + 1) * h), xc, rtol=1e-11, atol=1e-13)
                    xc = sol.y[:, -1]
            ev += 1
            if not np.allclose(ys[:-1], yref[:-1], rtol=1e-6, atol=1e-8):
                return ev, dict(method=method, what="discrete %s model does not reproduce the sampled response under the hold" % method,
                                got=list(map(float, ys)), want=list(map(float, yref)))
    return ev, None


def _alg_job(job):
    fname, c = job
    fn = globals()[fname]
    try:
        it, path = fn(c)
        return it, {str((fname, c)): path[:20]}, None
    except Exception as ex:
        tb = traceback.extract_tb(ex.__traceback__)
        return [], {}, "%s%s: symbolic run stopped: %r at %s:%s" % (fname, c, ex, tb[-1].filename, tb[-1].lineno)


def run(tier, seed):
    run = report.Run(PID, tier, seed)
    run.trust("vc/pseries.py: exact arithmetic in Q[[h]]/h^34 (Python fractions)", "sympy (rational normal forms) for SSModel",
              "scipy.linalg.solve / solve_triangular / lu_factor+lu_solve replaced by their contracts (exact solution; trtrs reads one triangle only)",
              "scipy's _ExpmPadeHelper (A2..A10 products, pade7/pade9/pade13 U,V tables) is executed for real (it is part of what is checked)")
    run.assume("floats are exact rationals (literal tables enter with their exact binary value; a mismatch <= 2^-44 relative is graded as literal rounding)",
               "branch selection in expmint/_expm_SS is FORCED by the harness (norm estimates d4..d10 and _ell replaced): the theta thresholds, _ell and the "
               "2.0978 norm switch value are not verified, only that every branch satisfies the same contract",
               "matrices are 2x2 (4x4 for half=True) with fixed rational entries scaled by 3/2; h is a formal indeterminate, so each identity holds "
               "for all h as a power series (functions of one matrix: the series identity to order n is matrix-size independent for the table literals, "
               "the 2x2 non-commuting/non-symmetric/triangular/nearly-triangular/singular/defective instances pin dot-vs-elementwise, transposes and structure handling)",
               "truncation-error SIZE (that order 2m+1 is enough for round-off below each threshold) is Higham's analysis, not re-proved")
    run.not_covered += ["accuracy for stiff/defective A in floating point", "sparse-matrix inputs", "eig/log route of d2c for zoh/zoha/foh: bounded numeric check only",
                        "SSModel zoh/foh 'reproduces the sampled response': algebraic state-transformation identity proved against getEPQ's contract; "
                        "end-to-end numeric run is bounded"]
    for rel, names in ((EM, ("pade3_i", "pade5_i", "pade7_i", "pade9_i", "pade13_scaled_i", "expmint", "_geti2", "_solve_P_Q_2", "expmint_pow", "_procBhalf",
                              "getEPQ1", "getEPQ_pow", "A2", "A4", "A6", "A8", "A10", "pade3", "pade5", "pade7", "pade9", "pade13_scaled", "_expm_SS",
                              "getEPQ2", "getEPQ")), (SS, ("c2d", "d2c"))):
        for nd in ast.walk(ast.parse(report.read_source(rel))):
            if isinstance(nd, ast.FunctionDef) and nd.name in names:
                run.add_function(rel, nd.name, hashlib.sha256(ast.unparse(nd).encode()).hexdigest()[:16], {"note": "real function executed on series/symbolic inputs"})
    brs = [3, 5, 7, 9, "13s0", "13s1", "13s3"]
    ecases = [(mn, br) for mn in ("general", "upper-triangular", "nearly-triangular", "defective") for br in brs]
    ecases += [("singular", br) for br in (3, 9, "13s0", "13s1")]
    pcases = [(fn, o, bm, br) for fn in ("getEPQ1", "getEPQ2") for o in (0, 1) for bm in ("none", "B", "half") for br in (3, 5, 7, 9, "13s0", "13s1")]
    pcases += [(fn, o, "B+half", br) for fn in ("getEPQ1", "getEPQ2", "getEPQ_pow", "getEPQ_lo", "getEPQ_hi") for o in (0, 1) for br in ((3,) if fn in ("getEPQ_pow", "getEPQ_lo") else (5, "13s0"))]
    pcases += [("getEPQ_pow", o, bm, 3) for o in (0, 1) for bm in ("none", "B", "half")]
    pcases += [(fn, o, bm, br) for fn, br in (("getEPQ_lo", 5), ("getEPQ_hi", 9), ("getEPQ_hi", "13s1")) for o in (0, 1) for bm in ("none", "B", "half")]
    P = report.pool()
    r1 = P.map_async(expmint_case, ecases, chunksize=1)
    r2 = P.map_async(epq_case, pcases, chunksize=1)
    r3 = P.map_async(_alg_job, [("tustin_case_impl", (False,)), ("tustin_case_impl", (True,)), ("tustin_case_impl", ("stored",)), ("hold_case_impl", ("zoh",)),
                                ("hold_case_impl", ("zoha",)), ("hold_case_impl", ("foh",)), ("d2c_case_impl", ("zoh",)),
                                ("d2c_case_impl", ("zoha",)), ("d2c_case_impl", ("foh",))], chunksize=1)
    items, paths = [], {}
    for it, pth, err in r3.get():
        items += it
        paths.update(pth)
        if err:
            run.undecided.append(err)
    vs = report.discharge_alg(items, budget=90)
    run.add_verdicts(vs)
    svs = []
    for rr in (r1, r2):
        for lst in rr.get():
            for d in lst:
                svs.append(report.Verdict(d["name"], d["status"], d["backend"], d["seconds"], d["kind"], d["where"], d["detail"]))
    run.add_verdicts(svs)
    run.notes.append({"SSModel regime decisions": paths})
    ev1, f1 = report.guarded(run, log_case, seed)
    run.bounded.append(dict(name="float: d2c(c2d(model)) == model for zoh/zoha/foh/tustin with oscillatory modes anywhere below Nyquist (eig/log route), c2d A == expm(A h)",
                            evaluations=ev1, failures=0 if f1 is None else 1, label="bounded (never counted as proved)"))
    ev2, f2 = report.guarded(run, sampled_case, seed)
    run.bounded.append(dict(name="float: zoh/foh discrete models vs solve_ivp of the continuous model under the hold", evaluations=ev2,
                            failures=0 if f2 is None else 1, label="bounded (never counted as proved)"))
    known = {k_["obligation"]: k_ for k_ in run.known if k_.get("status") == "open"}
    stats = {}
    ev3, f3 = report.guarded(run, float_sweep, report.REPO, quick=(tier == "quick"), known=tuple(known), stats=stats)
    run.bounded.append(dict(name="float: real expmint/getEPQ1/getEPQ2/getEPQ/getEPQ_pow with their own norm-based branch selection vs 100-digit Taylor sums, "
                                 "5 matrices x %d steps + 4 stiff matrices (slow pole 1e-3..1e-7, soft spring) at ||A h||_1 on both sides of every switch" % (8 if tier == "quick" else 40),
                            evaluations=ev3, failures=0 if f3 is None else 1, inside_known_finding_region=len(stats.get("d11_hits", [])),
                            label="bounded (never counted as proved)"))
    if "expmint.I2-direct-solution" in known:
        run.known_finding(known["expmint.I2-direct-solution"], bool(stats.get("d11_hits")))
    failed = [v for v in run.verdicts if v.status == "failed"]
    if failed:
        v = failed[0]
        conc = _concrete_for(v) if any("expmint" in x.name or "getEPQ" in x.name for x in failed) else dict(obligation=v.name, detail=v.detail, concrete_failing_input=None)
        run.violation(v.name, "series/algebraic obligation fails: " + "; ".join(x.name for x in failed[:6]),
                      dict(failed=[x.as_dict() for x in failed[:12]], concrete=conc), concrete=bool(conc.get("concrete_failing_input")))
    elif f3 is not None:
        run.violation("bounded:float-sweep", f3["what"], dict(concrete=f3), concrete=True)
    elif f1 is not None:
        run.violation("bounded:d2c-log", f1["what"], dict(concrete=f1), concrete=True)
    elif f2 is not None:
        run.violation("bounded:sampled-response", f2["what"], dict(concrete=f2), concrete=True)
    return run.finish()


def stiff_matrices():
    """stiff plants: one slow pole (1e-3 .. 1e-7) next to fast ones, well-conditioned eigenvectors; [[-C, -K], [I, 0]] with a soft spring"""
    rng = np.random.RandomState(77)
    T = np.eye(5) + 0.25 * rng.randn(5, 5)
    out = {}
    for slow in (1e-3, 1e-5, 1e-7):
        lam = -np.array([slow, 0.7, 1.3, 2.1, 3.0])
        out["stiff, slow pole %g" % slow] = (T * lam) @ np.linalg.inv(T)
    K = np.diag([1e-6, 4.0]); C = np.diag([0.02, 0.3])
    out["second-order form with a soft spring"] = np.block([[-C, -K], [np.eye(2), np.zeros((2, 2))]])
    return out


def in_d11_region(fname, order, A, h):
    """known finding D11: the I2 'direct solution' route of expmint (Pade-13 branch) applies the inverse of A h twice - for an ill-conditioned A h the second integral
    loses ~eps*cond^2.  Affects expmint(geti2=True) [I2] and getEPQ1(order=1) [P, Q] once the Pade-13 branch is taken; getEPQ switches to getEPQ2 there and is exact"""
    if not (fname == "expmint" or (fname == "getEPQ1" and order == 1)):
        return False
    Ah = A * h
    return abs(Ah).sum(axis=0).max() >= 1.0 and np.linalg.cond(Ah, 1) >= 1e3


def float_sweep(repo, quick=True, known=(), stats=None):
    """bounded: the REAL float code with its own (unforced) branch selection against 100-digit Taylor sums, h over 4 decades.
    Returns (evaluations, first failure or None)."""
    import mpmath
    sys.path.insert(0, repo)
    import importlib
    em = importlib.import_module("pyyeti.expmint")
    mpmath.mp.dps = 100
    ev = 0
    hs = [1e-3, 0.02, 0.11, 0.3, 0.7, 1.3, 2.9, 7.0] if quick else list(np.logspace(-4, 1.2, 40))
    allm = [(k_, np.array([[float(SCALE * x) for x in r] for r in Jm]), None) for k_, Jm in MATS.items()]
    for k_, A_ in stiff_matrices().items():
        nr_ = abs(A_).sum(axis=0).max()
        # steps placed by ||A h||_1 on both sides of every switch of expmint / getEPQ
        allm.append((k_, A_, [t_ / nr_ for t_ in ((0.3, 1.5, 2.05, 2.2, 4.0, 5.6, 20.0) if quick else (0.01, 0.3, 0.9, 1.5, 2.05, 2.2, 3.0, 4.0, 5.0, 5.6, 8.0, 20.0, 60.0))]))
    # a single-state system over a wide range of |a h| (the exact scalar formulas cancel badly for small |a h|), and integer-typed state matrices with integer steps
    allm.append(("1x1 decaying", np.array([[-0.37]]), [1e-6 / 0.37, 1e-5 / 0.37, 1e-4 / 0.37, 1e-3 / 0.37, 1e-2 / 0.37, 0.3, 2.0, 9.0]))
    allm.append(("1x1 growing", np.array([[0.52]]), [2e-6, 3e-4, 0.05, 1.0, 5.0]))
    allm.append(("integer-typed 2x2 with integer steps", np.array([[0, 1], [-2, -1]]), [1, 2, 3]))
    allm.append(("integer-typed 3x3 with integer steps", np.array([[-1, 2, 0], [0, -2, 1], [1, 0, -3]]), [1, 2]))
    for matname, A, hs_own in allm:
        n = A.shape[0]
        Amp = mpmath.matrix(A.tolist())
        for h in (hs_own or hs):
            X = mpmath.eye(n)
            E = mpmath.zeros(n); I1 = mpmath.zeros(n); I2 = mpmath.zeros(n)
            f = mpmath.mpf(1)
            hm = mpmath.mpf(h)
            for k in range(400):
                if k:
                    f *= k
                E += X * hm ** k / f
                I1 += X * hm ** (k + 1) / (f * (k + 1))
                I2 += X * hm ** (k + 2) / (f * (k + 2))
                X = X * Amp
            tof = lambda M: np.array([[float(M[i, j]) for j in range(n)] for i in range(n)])
            Et, I1t, I2t = tof(E), tof(I1), tof(I2)
            with warnings.catch_warnings():
                warnings.simplefilter("ignore")
                got = {}
                try:
                    got["expmint"] = em.expmint(A, h, True)
                except RuntimeError:
                    pass                 # the power-series fallback refuses explicitly (maximum loops exceeded): a refusal is not a wrong answer
                Bfl = None
                if A.dtype.kind in "iu":
                    Bfl = (np.arange(1, 2 * n + 1).reshape(n, 2) % 5 - 1.75) / 3.0          # a non-integer input matrix next to the integer-typed A and h
                for fn in ("getEPQ1", "getEPQ2", "getEPQ", "getEPQ_pow"):
                    if fn == "getEPQ_pow" and h * abs(A).sum() > 30:
                        continue
                    for order in (0, 1):
                        try:
                            got["%s(order=%d)" % (fn, order)] = getattr(em, fn)(A, h, order=order)
                            if Bfl is not None:
                                eb, pb, qb = getattr(em, fn)(A, h, order=order, B=Bfl)
                                e0, p0, q0 = got["%s(order=%d)" % (fn, order)]
                                scb = max(abs(np.asarray(p0) @ Bfl).max(), 1e-300)
                                okb = np.allclose(eb, e0, rtol=1e-10, atol=1e-12) and abs(pb - np.asarray(p0) @ Bfl).max() <= 1e-9 * scb and \
                                    (order == 0 or abs(qb - np.asarray(q0) @ Bfl).max() <= 1e-9 * max(abs(np.asarray(q0) @ Bfl).max(), 1e-300))
                                ev += 1
                                if not okb:
                                    return ev, dict(function="%s(order=%d, B)" % (fn, order), output="P/Q with an input matrix", A=A.tolist(), h=h,
                                                    what="pyyeti.expmint.%s with an input matrix B does not return (P B, Q B) of the call without B for A=%s h=%g" % (fn, matname, h))
                        except RuntimeError:
                            pass
            for nm, val in got.items():
                ev += 1
                if nm == "expmint":
                    want = (Et, I1t, I2t)
                elif nm.endswith("1)"):
                    want = (Et, I2t / h, I1t - I2t / h)
                else:
                    want = (Et, I1t, None)
                for lab, g, w_ in zip(("E", "P/I1", "Q/I2"), val, want):
                    if w_ is None:
                        continue
                    tol = 1e-9 * max(abs(w_).max(), abs(Et).max() * h * (h if (lab == "Q/I2" and nm == "expmint") else 1.0))
                    if not np.all(np.isfinite(g)) or abs(np.asarray(g) - w_).max() > tol:
                        fname_, order_ = nm.split("(")[0], (1 if nm.endswith("1)") else 0)
                        if "expmint.I2-direct-solution" in known and in_d11_region(fname_, order_, A, h) and not (fname_ == "expmint" and lab != "Q/I2") and lab != "E":
                            if stats is not None:
                                stats.setdefault("d11_hits", []).append(dict(function=nm, output=lab, matrix=matname, h=h, rel_error=float(abs(np.asarray(g) - w_).max() / abs(w_).max())))
                            continue
                        return ev, dict(function=nm, output=lab, A=A.tolist(), h=h, max_abs_error=float(abs(np.asarray(g) - w_).max()),
                                        tolerance=float(tol), what="pyyeti.expmint.%s differs from the 100-digit Taylor sum for A=%s h=%g (%s)" % (nm, matname, h, lab))
    return ev, None


def _concrete_for(v):
    """replay: look for a concrete float input on which the real code (own branch selection) shows the defect"""
    ev, f = float_sweep(report.REPO, quick=False)
    return dict(obligation=v.name, detail=v.detail, float_sweep_evaluations=ev, concrete_failing_input=f)


def replay(path):
    d = json.load(open(path))
    print(json.dumps(d.get("concrete"), indent=1)[:3000])
    return 1 if d.get("concrete") else 0
