"""C09 - Parallel execution returns bit-identical results to serial execution (DESIGN.md section C09)."""
import ast, hashlib, itertools, json, os, sys, time
import numpy as np
from vc import report, rel
from vc.rel import T, Interp, ArrayModel, Unsupported

PID = "C09"
SRS, FDE = "pyyeti/srs.py", "pyyeti/fdepsd.py"
J = T("global", "j")


def V(name, st, det=None, where=SRS):
    return report.Verdict(name, st, "rel (term-level equality over uninterpreted operations)", 0.0, "refine", where, det or {})


def norm(t):
    """normal form used for comparison: np.zeros(shape, ...) == zeros(shape); np.empty contents are arbitrary (only written entries are compared)"""
    if not isinstance(t, tuple):
        return t
    t = tuple(norm(x) for x in t)
    if t[:2] == ("call", ("attr", ("global", "np"), "zeros")):
        return T("zeros", t[2])
    return rel.simplify(t)


def find_if(stmts, test_src):
    for s in stmts:
        if isinstance(s, ast.If) and ast.unparse(s.test) == test_src:
            return s
    raise Unsupported("`if %s:` not found" % test_src)


def pool_with(stmts):
    """the `with mp.Pool(processes=ncpu, initializer=F, initargs=G) as pool: for _ in pool.imap_unordered(func, zip(range(LF), it.repeat(args, LF))): pass`"""
    w = [s for s in stmts if isinstance(s, ast.With)]
    if len(w) != 1:
        raise Unsupported("expected exactly one `with mp.Pool(...)`")
    w = w[0]
    call = w.items[0].context_expr
    if ast.unparse(call.func) != "mp.Pool":
        raise Unsupported("not mp.Pool")
    kw = {k.arg: k.value for k in call.keywords}
    pool = w.items[0].optional_vars.id
    body = w.body
    ok = (len(body) == 1 and isinstance(body[0], ast.For) and isinstance(body[0].iter, ast.Call)
          and ast.unparse(body[0].iter.func) == pool + ".imap_unordered" and len(body[0].body) == 1 and isinstance(body[0].body[0], ast.Pass))
    if not ok:
        raise Unsupported("pool loop is not `for _ in pool.imap_unordered(...): pass`")
    ia = body[0].iter.args
    if len(ia) < 2 or len(ia) > 3 or any(k.arg != "chunksize" for k in body[0].iter.keywords):
        raise Unsupported("imap_unordered arguments")
    func, tasks = ia[0], ia[1]          # a third argument / keyword is the chunk size: scheduling only (Pool contract: every task runs exactly once)
    tsrc = ast.unparse(tasks)
    return w, kw, ast.unparse(func), tsrc


def run_worker(tree, fname, argsterm, genv, arrays, concrete):
    fn = rel.find_function(tree, fname)
    it = Interp(dict(genv), arrays, concrete)
    it.assign(ast.Name(id=fn.args.args[0].arg), (J, argsterm))
    it.run(fn.body)
    return it


def init_globals(tree, fname, initargs, concrete):
    fn = rel.find_function(tree, fname)
    it = Interp({}, {}, concrete)
    for p, v in zip(fn.args.args, initargs):
        it.env[p.arg] = v
    it.run(fn.body)
    return {k: norm(v) for k, v in it.env.items() if k.endswith("_")}


def srs_case(tree, doic, getresp, stype):
    """-> list of (label, status, detail)"""
    out = []
    fn = rel.find_function(tree, "srs")
    G = lambda n: T("global", n)
    base = {n: G(n) for n in ("wn", "sig", "icvals", "sr", "Q", "S", "LF", "H", "N", "M", "coeffunc", "methfunc", "ncpu")}
    base.update(stype=stype, getresp=getresp, doic=1 if doic else 0)
    conc = {"getresp": getresp}
    # the shared-array set-up statements of the parallel configuration
    par0 = find_if(fn.body, "parallel == 'yes'")
    it0 = Interp(dict(base), {}, conc)
    it0.run([s for s in par0.body if isinstance(s, ast.Assign)])
    if getresp:
        for s in ast.walk(fn):
            if isinstance(s, ast.Assign) and ast.unparse(s.targets[0]) == "HIST" and "createSharedArray((N, H, LF))" in ast.unparse(s.value):
                it0.run([s])
    arm = find_if(fn.body, "doic").body if doic else find_if(fn.body, "doic").orelse
    par = find_if(arm, "parallel == 'yes'")
    pre = [s for s in par.body if isinstance(s, ast.Assign) and not ast.unparse(s).startswith(("SRSmax =", "HIST =", 'resp["hist"]', "resp['hist']"))]
    itp = Interp(dict(it0.env), {}, conc)
    itp.run(pre[: [i for i, s in enumerate(par.body) if isinstance(s, ast.With)][0]] if False else [s for s in pre if s.lineno < [w for w in par.body if isinstance(w, ast.With)][0].lineno])
    w, kw, func, tsrc = pool_with(par.body)
    want_tasks = "zip(range(LF), it.repeat(args, LF))"
    out.append(("task set is {0..LF-1}, each once, same args (%s)" % tsrc, "proved" if tsrc == want_tasks else "undecided", {}))
    fsel = itp.env.get("func")
    wname = func if func != "func" else None
    # func = A if getresp else B   was interpreted with concrete getresp
    if isinstance(fsel, tuple) and fsel[0] == "global":
        wname = fsel[1]
    if wname is None:
        raise Unsupported("worker function not determined")
    initf = ast.unparse(kw["initializer"])
    initargs = itp.ev(kw["initargs"])
    genv = init_globals(tree, initf, initargs, conc)
    outs = {"SRSmax_": ArrayModel("SRSmax_"), "HIST_": ArrayModel("HIST_")}
    shared_inputs = {k: v for k, v in genv.items() if k not in outs}
    for nm in outs:
        if nm in genv and isinstance(genv[nm], tuple) and genv[nm][0] == "zeros":
            outs[nm].init = (lambda key, z=genv[nm]: T("init0", key))
    wi = run_worker(tree, wname, itp.env["args"], shared_inputs, outs, conc)
    # serial arm
    ser = par.orelse
    sarr = {"SRSmax": ArrayModel("SRSmax"), 'resp["hist"]': ArrayModel('resp["hist"]'), "resp['hist']": ArrayModel("resp['hist']")}
    its = Interp(dict(base), sarr, conc)
    pre_s = [s for s in ser if not isinstance(s, ast.For)]
    its.run(pre_s)
    loop = [s for s in ser if isinstance(s, ast.For)]
    if len(loop) != 1 or ast.unparse(loop[0].iter) != "range(LF)":
        raise Unsupported("serial loop is not `for j in range(LF)`")
    its.assign(loop[0].target, J)
    its.run(loop[0].body)
    # compare stores
    sw = {("SRSmax", k): v for k, v in sarr["SRSmax"].store.items()}
    for nm in ('resp["hist"]', "resp['hist']"):
        sw.update({("HIST", k): v for k, v in sarr[nm].store.items()})
    pw = {("SRSmax", k): v for k, v in outs["SRSmax_"].store.items()}
    pw.update({("HIST", k): v for k, v in outs["HIST_"].store.items()})
    same_keys = set(sw) == set(pw)
    out.append(("worker %s and serial iteration j write the same locations %s" % (wname, sorted(map(str, pw))), "proved" if same_keys else "failed",
                {"serial": sorted(map(str, sw)), "worker": sorted(map(str, pw))}))
    for k in sorted(set(sw) & set(pw), key=str):
        a, b = norm(sw[k]), norm(pw[k])
        out.append(("value stored at %s[%s] is the same term" % k, "proved" if a == b else "failed",
                    {} if a == b else {"serial": rel.show(a)[:600], "worker": rel.show(b)[:600]}))
    # frame: every write of task j is indexed by j in the task axis, no read of a shared output
    wk = [k for k in outs["SRSmax_"].writes] + [k[-1] if isinstance(k, tuple) else k for k in outs["HIST_"].writes]
    out.append(("frame: task j writes only SRSmax_[j] / HIST_[..., j]", "proved" if all(k == J for k in wk) and wk else "failed", {"keys": list(map(str, wk))}))
    rd = outs["SRSmax_"].reads + outs["HIST_"].reads
    out.append(("frame: task j reads no shared output", "proved" if not rd else "failed", {"reads": list(map(str, rd))}))
    # the post-pool views are the shared buffers themselves
    post = [ast.unparse(s) for s in par.body if isinstance(s, ast.Assign) and s.lineno > w.lineno]
    okpost = "SRSmax = np.frombuffer(SRSmax[0]).reshape(SRSmax[1])" in post
    out.append(("result arrays are views of the shared buffers the tasks wrote", "proved" if okpost else "undecided", {"post": post}))
    return out


def fde_case(tree):
    out = []
    fn = rel.find_function(tree, "fdepsd")
    G = lambda n: T("global", n)
    base = {n: G(n) for n in ("Wn", "sig", "Q", "dT", "LF", "nbins", "coeffunc", "verbose", "ncpu", "pi")}
    conc = {"verbose": False, "nbins": 2, "BinAmps_.shape[1]": 2}
    base["verbose"] = False
    base["nbins"] = 2
    par = find_if(fn.body, "parallel == 'yes'")
    w, kw, func, tsrc = pool_with(par.body)
    itp = Interp(dict(base), {"a": ArrayModel("a")}, conc)
    pre = [s for s in par.body if isinstance(s, (ast.Assign, ast.AugAssign)) and s.lineno < w.lineno]
    # `a = _to_np_array(BinAmps); a += arange/nbins`  : the shared BinAmps buffer starts as zeros + arange(nbins)/nbins
    itp2 = Interp(dict(base), {}, conc)
    itp2.run(pre)
    out.append(("task set is {0..LF-1}, each once, same args (%s)" % tsrc, "proved" if tsrc == "zip(range(LF), it.repeat(args, LF))" else "undecided", {}))
    genv = init_globals(tree, ast.unparse(kw["initializer"]), itp2.ev(kw["initargs"]), conc)
    a_term = norm(itp2.env.get("a"))
    outs = {"ASV_": ArrayModel("ASV_"), "BinAmps_": ArrayModel("BinAmps_"), "Count_": ArrayModel("Count_")}
    outs["BinAmps_"].init = lambda key: T("initrow", "zeros+arange(nbins)/nbins", key)
    binit_par = a_term
    shared_inputs = {k: v for k, v in genv.items() if k not in outs}
    wname = itp2.env["func"][1] if isinstance(itp2.env.get("func"), tuple) else func
    wi = run_worker(tree, wname, itp2.env["args"], shared_inputs, outs, conc)
    # serial
    ser = par.orelse
    sarr = {n: ArrayModel(n) for n in ("Amax", "SRSmax", "Var", "BinAmps", "Count")}
    sarr["BinAmps"].init = lambda key: T("initrow", "zeros+arange(nbins)/nbins", key)
    its = Interp(dict(base), {}, conc)
    pre_s = [s for s in ser if not isinstance(s, ast.For)]
    its.run(pre_s)
    binit_ser = norm(its.env.get("BinAmps"))
    out.append(("BinAmps starts as zeros((LF, nbins)) + arange(nbins)/nbins in both arms", "proved" if binit_ser == binit_par else "failed",
                {"serial": rel.show(binit_ser)[:300], "parallel": rel.show(binit_par)[:300]}))
    its = Interp(dict(base), sarr, conc)
    loop = [s for s in ser if isinstance(s, ast.For)]
    if len(loop) != 1 or ast.unparse(loop[0].iter) != "enumerate(Wn)":
        raise Unsupported("serial loop is not `for j, wn in enumerate(Wn)`")
    its.assign(loop[0].target, (J, T("getitem", G("Wn"), J)))
    its.run(loop[0].body)
    ren = {"Amax": ("ASV", 0), "SRSmax": ("ASV", 1), "Var": ("ASV", 2)}
    sw = {}
    for nm, arrm in sarr.items():
        for k, v in arrm.store.items():
            sw[(ren[nm][0], (ren[nm][1], k)) if nm in ren else (nm, k)] = v
    pw = {}
    for nm, arrm in outs.items():
        for k, v in arrm.store.items():
            pw[(nm.rstrip("_"), k)] = v

    def canon(t):
        """serial names -> shared names inside value terms (read-own-write already resolved by the array models)"""
        return norm(t)
    same_keys = set(sw) == set(pw)
    out.append(("worker and serial iteration j write the same locations", "proved" if same_keys else "failed",
                {"serial": sorted(map(str, sw)), "worker": sorted(map(str, pw))}))
    for k in sorted(set(sw) & set(pw), key=str):
        a, b = canon(sw[k]), canon(pw[k])
        out.append(("value stored at %s%s is the same term" % (k[0], list(k[1]) if isinstance(k[1], tuple) else [k[1]]), "proved" if a == b else "failed",
                    {} if a == b else {"serial": rel.show(a)[:600], "worker": rel.show(b)[:600]}))
    keys_ok = all((k[1] == J if isinstance(k, tuple) else k == J) for k in outs["ASV_"].writes) and all(k == J for k in outs["BinAmps_"].writes) \
        and all(isinstance(k, tuple) and k[0] == J for k in outs["Count_"].writes)
    out.append(("frame: task j writes only ASV_[:, j], BinAmps_[j], Count_[j, :]", "proved" if keys_ok else "failed", {}))
    reads = [k for k in outs["ASV_"].reads if not (isinstance(k, tuple) and k[1] == J)] + [k for k in outs["BinAmps_"].reads if not (k == J or (isinstance(k, tuple) and k[0] == J))] \
        + list(outs["Count_"].reads)
    out.append(("frame: task j reads shared outputs only in its own column/row", "proved" if not reads else "failed", {"reads": list(map(str, reads))}))
    post = [ast.unparse(s) for s in par.body if isinstance(s, ast.Assign) and s.lineno > w.lineno]
    want = ["ASV = _to_np_array(ASV)", "Amax = ASV[0]", "SRSmax = ASV[1]", "Var = ASV[2]", "Count = _to_np_array(Count)", "BinAmps = a"]
    out.append(("result arrays are the shared buffers (Amax, SRSmax, Var = rows 0, 1, 2 of ASV)", "proved" if post == want else "undecided", {"post": post}))
    return out


# ----------------------------------------------------------------------------------------------------------------
class FakePool:
    """in-process stand-in for multiprocessing.Pool: runs the real initializer once per 'worker' and the real tasks in a chosen order"""
    order = None

    def __init__(self, processes=None, initializer=None, initargs=(), **kw):
        self.n = processes or 1
        for _ in range(self.n):
            initializer(*initargs)

    def __enter__(self):
        return self

    def __exit__(self, *a):
        return False

    def imap_unordered(self, func, it, chunksize=1):
        tasks = list(it)
        order = FakePool.order(len(tasks)) if FakePool.order else range(len(tasks))
        for k in order:
            yield func(tasks[k])


def concrete(repo, seed, tier):
    sys.path.insert(0, repo)
    from pyyeti import srs, fdepsd
    import types
    assert os.path.abspath(srs.__file__).startswith(os.path.abspath(repo))
    rng = np.random.RandomState(seed)
    ev = 0
    sr = 200.0
    sig = rng.randn(300) + 0.7
    fakemp = types.SimpleNamespace(Pool=FakePool, RawArray=__import__("multiprocessing").RawArray, cpu_count=lambda: 4)
    real_mp = srs.mp
    try:
        srs.mp = fakemp
        fdepsd.mp = fakemp
        freqsets = [np.array([10.0, 30.0, 20.0]), np.array([0.0, 15.0, 40.0, 5.0]), np.array([25.0, 12.0])]
        perms = [None] + [lambda n, p=p: list(p) for p in itertools.permutations(range(3))]
        for freq in freqsets:
            for stype in ("absacce", "relacce", "reldisp", "relvelo", "pvelo", "pacce"):
                for ic in ("zero", "steady", "shift"):
                    for getresp in (False, True):
                        for tm in (("primary",) if tier == "quick" else ("primary", "total", "residual")):
                            with np.errstate(all="ignore"):
                                ref = srs.srs(sig, sr, freq, 20, ic=ic, stype=stype, getresp=getresp, time=tm, parallel="no")
                                for pi_, perm in enumerate(perms if len(freq) == 3 else [None, lambda n: list(range(n))[::-1]]):
                                    FakePool.order = perm
                                    for ncpu in (1, 3):
                                        got = srs.srs(sig, sr, freq, 20, ic=ic, stype=stype, getresp=getresp, time=tm, parallel="yes", maxcpu=ncpu)
                                        ev += 1
                                        a = ref[0] if getresp else ref
                                        b = got[0] if getresp else got
                                        same = np.array_equal(a, b, equal_nan=True) and (not getresp or np.array_equal(ref[1]["hist"], got[1]["hist"], equal_nan=True))
                                        if not same:
                                            return ev, dict(function="srs", freq=freq.tolist(), stype=stype, ic=ic, getresp=getresp, time=tm, workers=ncpu,
                                                            order=None if perm is None else perm(len(freq)), what="parallel result is not bit-identical to serial",
                                                            serial=np.asarray(a).tolist(), parallel=np.asarray(b).tolist())
        # several input columns (2-D signals), with and without response histories, default and explicit roll-off resampling
        for ncol_ in (2, 3):
            sigm = rng.randn(240, ncol_) + 0.3 * np.arange(ncol_)
            for freq in (np.array([10.0, 30.0, 20.0]), np.array([0.0, 15.0, 40.0, 5.0])):
                for stype, ic in (("absacce", "zero"), ("reldisp", "steady"), ("pvelo", "shift")):
                    for getresp in (False, True):
                        for roll in ("none", "lanczos"):
                            with np.errstate(all="ignore"):
                                ref = srs.srs(sigm, sr, freq, 20, ic=ic, stype=stype, getresp=getresp, parallel="no", rolloff=roll, ppc=8)
                                for perm in (None, lambda n: list(range(n))[::-1]):
                                    FakePool.order = perm
                                    for ncpu in (1, 2):
                                        got = srs.srs(sigm, sr, freq, 20, ic=ic, stype=stype, getresp=getresp, parallel="yes", maxcpu=ncpu, rolloff=roll, ppc=8)
                                        ev += 1
                                        a = ref[0] if getresp else ref
                                        b = got[0] if getresp else got
                                        same = np.array_equal(a, b, equal_nan=True) and (not getresp or (np.array_equal(ref[1]["hist"], got[1]["hist"], equal_nan=True)
                                                                                                          and np.array_equal(ref[1]["t"], got[1]["t"])))
                                        if not same:
                                            return ev, dict(function="srs", freq=freq.tolist(), stype=stype, ic=ic, getresp=getresp, columns=ncol_, rolloff=roll, workers=ncpu,
                                                            what="parallel result (%d input columns) is not bit-identical to serial" % ncol_)
        # how the caller stores the inputs is not part of the problem: strided views of a larger record, Fortran order, float32 / integer-typed signals; frequencies as
        # float32 / integer arrays or lists - the workers must see the numbers the serial loop sees
        raw = rng.randn(480, 6) + 0.2
        sigviews = [("strided view raw[::2, 1:4]", raw[::2, 1:4]), ("Fortran-ordered", np.asfortranarray(raw[:240, :3])), ("transposed view", np.ascontiguousarray(raw[:240, :3].T).T),
                    ("float32", raw[:240, :3].astype(np.float32)), ("int16", np.round(40 * raw[:240, :3]).astype(np.int16)), ("1-D strided view", raw[::2, 2])]
        fbase = np.array([10.0, 30.0, 20.0, 45.0])
        freqforms = [("float64", fbase), ("float32", fbase.astype(np.float32)), ("int64", fbase.astype(np.int64)), ("list", [10.0, 30.0, 20.0, 45.0]), ("strided view", np.repeat(fbase, 2)[::2])]
        for vname, sv in sigviews:
            for fname, fq in (freqforms if vname.startswith("strided") else freqforms[:2]):
                for ic, getresp in (("zero", False), ("zero", True), ("steady", False)):
                    with np.errstate(all="ignore"):
                        keep_ = np.array(sv, copy=True)
                        ref = srs.srs(sv, sr, fq, 20, ic=ic, getresp=getresp, parallel="no", rolloff="none")
                        FakePool.order = lambda n: list(range(n))[::-1]
                        got = srs.srs(sv, sr, fq, 20, ic=ic, getresp=getresp, parallel="yes", maxcpu=2, rolloff="none")
                    ev += 1
                    a = ref[0] if getresp else ref
                    b = got[0] if getresp else got
                    same = np.array_equal(a, b, equal_nan=True) and (not getresp or np.array_equal(ref[1]["hist"], got[1]["hist"], equal_nan=True)) and np.array_equal(keep_, sv)
                    if not same:
                        return ev, dict(function="srs", signal=vname, frequencies=fname, ic=ic, getresp=getresp, max_difference=float(np.nanmax(abs(np.asarray(a, float) - np.asarray(b, float)))),
                                        what="parallel result is not bit-identical to serial when the signal is given as a %s array and the frequencies as %s" % (vname, fname))
        sigf = rng.randn(900)
        for fname, fq in freqforms:
            reff = fdepsd.fdepsd(sigf, 400.0, fq, 20, nbins=10, parallel="no")
            FakePool.order = None
            gotf = fdepsd.fdepsd(sigf, 400.0, fq, 20, nbins=10, parallel="yes", maxcpu=2)
            ev += 1
            for nm in ("psd", "peakamp", "binamps", "count", "var", "srs", "di_sig"):
                if not np.array_equal(np.asarray(getattr(reff, nm)), np.asarray(getattr(gotf, nm)), equal_nan=True):
                    return ev, dict(function="fdepsd", frequencies=fname, output=nm, what="parallel result is not bit-identical to serial when the frequencies are given as %s" % fname)
        # peak statistics that sum over time (rms) on several columns; long frequency vectors relative to the number of workers (23, 31, 45 frequencies on 1-2 workers)
        sigr = rng.randn(260, 3)
        for pk in ("rms", "abs", "poss"):
            for freq, ncpu in ((np.array([10.0, 30.0, 20.0]), 2), (np.linspace(5.0, 60.0, 23), 1), (np.linspace(5.0, 60.0, 31), 1), (np.linspace(4.0, 70.0, 45), 2)):
                for getresp in ((False, True) if len(freq) == 3 else (False,)):
                    with np.errstate(all="ignore"):
                        ref = srs.srs(sigr, sr, freq, 20, peak=pk, getresp=getresp, parallel="no")
                        FakePool.order = None if len(freq) > 3 else (lambda n: list(range(n))[::-1])
                        got = srs.srs(sigr, sr, freq, 20, peak=pk, getresp=getresp, parallel="yes", maxcpu=ncpu)
                    ev += 1
                    a = ref[0] if getresp else ref
                    b = got[0] if getresp else got
                    if not np.array_equal(a, b, equal_nan=True):
                        bad_ = np.argwhere(~(np.asarray(a) == np.asarray(b)))
                        return ev, dict(function="srs", peak=pk, n_freq=int(len(freq)), workers=ncpu, getresp=getresp, columns=3, first_differing_entries=bad_[:5].tolist(),
                                        what="parallel result (peak=%r, %d frequencies, %d worker(s)) is not bit-identical to serial" % (pk, len(freq), ncpu))
        sig2 = rng.randn(1200)
        for freq in (np.array([10.0, 36.0, 20.0, 14.0, 28.0]), np.array([30.0, 20.0, 10.0]), np.array([10.0, 30.0, 20.0])):
            for resp in ("absacce", "pvelo"):
                ref = fdepsd.fdepsd(sig2, 400.0, freq, 20, resp=resp, nbins=12, parallel="no")
                for perm in (None, lambda n: list(range(n))[::-1], lambda n: list(np.random.RandomState(n).permutation(n))):
                    FakePool.order = perm
                    for ncpu in (1, 2):
                        got = fdepsd.fdepsd(sig2, 400.0, freq, 20, resp=resp, nbins=12, parallel="yes", maxcpu=ncpu)
                        ev += 1
                        for nm in ("psd", "peakamp", "binamps", "count", "bincount", "var", "srs", "di_sig", "var_test"):
                            if not np.array_equal(np.asarray(getattr(ref, nm)), np.asarray(getattr(got, nm)), equal_nan=True):
                                return ev, dict(function="fdepsd", freq=freq.tolist(), resp=resp, workers=ncpu, output=nm,
                                                what="parallel result is not bit-identical to serial")
    finally:
        srs.mp = real_mp
        fdepsd.mp = real_mp
        FakePool.order = None
    if tier == "thorough":      # one run through the real multiprocessing pool
        ref = srs.srs(sig, sr, [10.0, 30.0, 20.0], 20, ic="steady", stype="reldisp", getresp=True, parallel="no")
        got = srs.srs(sig, sr, [10.0, 30.0, 20.0], 20, ic="steady", stype="reldisp", getresp=True, parallel="yes", maxcpu=3)
        ev += 1
        if not (np.array_equal(ref[0], got[0]) and np.array_equal(ref[1]["hist"], got[1]["hist"])):
            return ev, dict(function="srs (real pool)", what="parallel result is not bit-identical to serial")
    return ev, None


def run(tier, seed):
    run = report.Run(PID, tier, seed)
    run.trust("vc.rel: term interpreter over the real AST (all operations uninterpreted)", "Python ast")
    run.assume("multiprocessing.Pool runs the initializer once per worker before any task and every task exactly once; RawArray is zero-initialised shared memory; "
               "NumPy/SciPy functions are deterministic functions of their arguments in every process",
               "frombuffer(copyToSharedArray(x)).reshape(x.shape) == x and frombuffer(createSharedArray(d)).reshape(d) == zeros(d) (rewrite axioms in vc/rel.py)",
               "non-interference + term-equal task bodies => the final shared arrays are a function of the task SET: equal to the serial result for every worker count "
               "and completion order")
    run.not_covered += ["the numeric kernels themselves (lfilter, findap, rainflow): uninterpreted", "srs._process_parallel's choice of ncpu (any ncpu >= 1 is covered by the argument)"]
    vs = []
    undec = []
    for rel_, fn_names in ((SRS, ("srs", "_dosrs", "_dosrs_nohist", "_dosrs_ic", "_dosrs_nohist_ic", "_mk_par_globals", "_mk_par_globals_ic")), (FDE, ("fdepsd", "_dofde", "_mk_par_globals"))):
        for nd in ast.walk(ast.parse(report.read_source(rel_))):
            if isinstance(nd, ast.FunctionDef) and nd.name in fn_names:
                run.add_function(rel_, nd.name, hashlib.sha256(ast.unparse(nd).encode()).hexdigest()[:16],
                                 {"dropped": "print/verbose statements; only the parallel/serial arms and worker bodies are interpreted"})
    tree = ast.parse(report.read_source(SRS))
    for doic in (False, True):
        for getresp in (False, True):
            for stype in (("absacce",) if not doic else ("reldisp", "pvelo", "absacce")):
                tag = "srs[doic=%s,getresp=%s,stype=%s]" % (doic, getresp, stype)
                try:
                    for lab, st, det in srs_case(tree, doic, getresp, stype):
                        vs.append(V("%s::%s" % (tag, lab), st, det, SRS))
                except Unsupported as ex:
                    undec.append("%s: %s" % (tag, ex))
                except Exception as ex:           # a shape of the code the term interpreter was not written for: tool limit, never a crash
                    undec.append("%s: term interpreter stopped: %r" % (tag, ex))
    try:
        for lab, st, det in fde_case(ast.parse(report.read_source(FDE))):
            vs.append(V("fdepsd::%s" % lab, st, det, FDE))
    except Unsupported as ex:
        undec.append("fdepsd: %s" % ex)
    except Exception as ex:
        undec.append("fdepsd: term interpreter stopped: %r" % (ex,))
    run.add_verdicts(vs)
    try:
        ev, cf = concrete(report.REPO, seed, tier)
    except Exception as ex:
        import traceback as _tb
        fr = _tb.extract_tb(ex.__traceback__)
        ev = 0
        if "/pyyeti/" in fr[-1].filename:
            cf = dict(what="the real code raised %r at %s:%s in the serial-vs-parallel comparison" % (ex, fr[-1].filename.split("/pyyeti/")[-1], fr[-1].lineno))
        else:
            cf = None
            undec.append("bounded schedule exploration could not run (harness limit): %r at %s:%s" % (ex, os.path.basename(fr[-1].filename), fr[-1].lineno))
    run.bounded.append(dict(name="real srs/fdepsd with an in-process pool that runs the real initializer and the real tasks in chosen completion orders (all 6 orders of 3 tasks, "
                                 "1 and 3 workers) vs serial, bitwise; unsorted frequency vectors and 0 Hz; every stype x ic x getresp",
                            evaluations=ev, failures=0 if cf is None else 1, label="bounded schedule exploration (never counted as proved)"))
    failed = [v for v in vs if v.status == "failed"]
    und = [v for v in vs if v.status == "undecided"]
    if cf is not None:
        run.violation((failed[0].name if failed else "bounded:schedule"), cf["what"], dict(concrete=cf, failed=[v.as_dict() for v in failed[:8]]), concrete=True)
    elif failed:
        # term mismatch without a concrete difference: a relational proof that no longer goes through is NOT a violation
        for v in failed:
            v.status = "undecided"
            v.detail["reason"] = "term-level mismatch; the concrete schedule exploration found no difference"
    for u in undec:
        run.undecided.append(u)
    return run.finish()


def replay(path):
    d = json.load(open(path))
    print(json.dumps(d.get("concrete"), indent=1)[:3000])
    return 1 if d.get("concrete") else 0
