"""C10 - Cycle-counting pipeline and fatigue-damage PSD invariants (DESIGN.md section C10)."""
import ast, hashlib, itertools, json, os, sys, time
from fractions import Fraction
import numpy as np
import z3
from vc import report, dse, alg
from vc.dse import Z, same

PID = "C10"
CC = "pyyeti/cyclecount.py"
LOC = "pyyeti/locate.py"
FDE = "pyyeti/fdepsd.py"


def V(name, st, det=None, where=CC):
    return report.Verdict(name, st if st in ("proved", "failed") else "undecided", "z3-" + z3.get_version_string(), 0.0, "post", where,
                          det if isinstance(det, dict) else ({"model": det} if det else {}))


class NPZ(dse.NumpyProxyZ):
    """extra assumed contracts for the NumPy calls of cyclecount.py on symbolic arrays"""

    def zeros(self, shape, dtype=float, order="C"):
        a = np.zeros(shape, dtype)
        if np.issubdtype(a.dtype, np.floating):
            o = np.empty(a.shape, dtype=object)
            for i in range(o.size):
                o.reshape(-1)[i] = Z(0)
            return o
        return a

    def linspace(self, a, b, n):
        """np.linspace(a, b, n)[i] == a + i*(b-a)/(n-1), endpoints exact"""
        a, b = Z.lift(a), Z.lift(b)
        out = np.empty(n, dtype=object)
        for i in range(n):
            out[i] = a if i == 0 else (b if i == n - 1 else a + (b - a) * Fraction(i, n - 1).__float__())
        return out

    def digitize(self, x, bins, right=False):
        """np.digitize for increasing bins: i with bins[i-1] <= x < bins[i] (right=False) / bins[i-1] < x <= bins[i] (right=True)"""
        x = np.asarray(x)
        bins = np.asarray(bins)
        out = np.empty(x.shape, dtype=int)
        for k in range(x.size):
            xv = Z.lift(x.reshape(-1)[k])
            i = 0
            for bnd in bins.reshape(-1):
                bz = Z.lift(bnd)
                if (bz < xv) if right else (bz <= xv):
                    i += 1
                else:
                    break
            out.reshape(-1)[k] = i
        return out

    def sign(self, x):
        x = np.asarray(x)
        if x.dtype != object:
            return np.sign(x)
        out = np.empty(x.shape, dtype=int)
        for k in range(x.size):
            e = Z.lift(x.reshape(-1)[k])
            out.reshape(-1)[k] = 1 if e > 0 else (-1 if e < 0 else 0)
        return out

    def array(self, obj, *a, **k):
        try:
            return np.array(obj, *a, **k)
        except TypeError:
            return np.array(obj, dtype=object)


class Shim:
    def __init__(self, *mods, extra=None):
        self.mods, self.saved, self.extra = mods, [], extra or {}

    def __enter__(self):
        for m in self.mods:
            for k, v in list(m.__dict__.items()):
                if v is np:
                    self.saved.append((m, k, v))
                    m.__dict__[k] = NPZ()
        return self

    def __exit__(self, *a):
        for m, k, v in self.saved:
            m.__dict__[k] = v


def loop_findap(repo):
    """the `else:` (numba) definition of findap, extracted mechanically from the file's AST and compiled as plain Python.
    DROPPED by the extraction: the numba.njit decoration (applied later in the file), numba_bool := bool."""
    src = open(os.path.join(repo, CC)).read()
    tree = ast.parse(src)
    defs = [n for n in ast.walk(tree) if isinstance(n, ast.FunctionDef) and n.name == "findap"]
    loopdef = [d for d in defs if any(isinstance(x, ast.While) for x in ast.walk(d))]
    if len(defs) != 2 or len(loopdef) != 1:
        raise RuntimeError("expected two findap definitions, one of them loop based (found %d/%d)" % (len(defs), len(loopdef)))
    mod = ast.Module(body=[loopdef[0]], type_ignores=[])
    ns = {"np": NPZ(), "numba_bool": bool}
    exec(compile(mod, os.path.join(repo, CC), "exec"), ns)
    return ns["findap"], hashlib.sha256(ast.unparse(loopdef[0]).encode()).hexdigest()[:16]


def findap_case(args):
    n, tol = args
    cc = alg.load_module(report.REPO, CC)
    loc = alg.load_module(report.REPO, LOC)
    loopfn, _ = loop_findap(report.REPO)
    y = [Z(z3.Real("y%d" % i)) for i in range(n)]
    tolq = Fraction(tol)
    res, npth = [], 0
    ex = dse.Explorer(max_paths=20000)

    def body():
        arr = dse.objarray(list(y))
        return np.asarray(cc.findap(arr, float(tolq))), np.asarray(loopfn(dse.objarray(list(y)), float(tolq)))

    yv = [e.val for e in y]
    absz = lambda v: z3.If(v >= 0, v, -v)
    diffs = [absz(yv[i + 1] - yv[i]) for i in range(n - 1)]
    with Shim(cc, loc):
        for pc, val, exc in ex.explore(body):
            npth += 1
            nm = "findap[n=%d,tol=%s]::path%d" % (n, tol, npth)
            if exc is not None:
                res.append((nm + (".no exception" if dse.genuine_exception(exc) else ".symbolic execution"), "failed" if dse.genuine_exception(exc) else "undecided", {"exception": repr(exc)}))
                continue
            for which, pv in (("vectorised definition", val[0]), ("loop definition", val[1])):
                sel = [i for i in range(n) if bool(pv[i])]
                res.append(("%s.%s: first sample selected" % (nm, which), "proved" if sel and sel[0] == 0 else "failed", {"selected": sel}))
                goals = []
                for a_, b_ in zip(sel, sel[1:]):
                    goals.append(yv[a_] != yv[b_])
                for a_, b_, c_ in zip(sel, sel[1:], sel[2:]):
                    goals.append(z3.Or(z3.And(yv[b_] > yv[a_], yv[b_] > yv[c_]), z3.And(yv[b_] < yv[a_], yv[b_] < yv[c_])))
                st, det = dse.check(pc, z3.And(*goals) if goals else z3.BoolVal(True))
                res.append(("%s.%s: selected points strictly alternate between local maxima and minima" % (nm, which), st, det))
                if n >= 2:
                    # global extremes reached to within the stated tolerance  stol = |tol * max|diff||
                    mx = z3.Real("MXD")
                    defs_ = [mx >= d for d in diffs] + [z3.Or(*[mx == d for d in diffs])]
                    stol = mx * z3.RealVal(str(tolq))
                    selmax = [yv[i] for i in sel]
                    gmax = z3.And(*[z3.Or(*[yv[i] <= s + stol for s in selmax]) for i in range(n)])
                    gmin = z3.And(*[z3.Or(*[yv[i] >= s - stol for s in selmax]) for i in range(n)])
                    st, det = dse.check(pc + defs_, z3.And(gmax, gmin))
                    lab = "%s.%s: global max and min reached within the tolerance" % (nm, which)
                    if st == "failed":
                        # known-finding region R: some increment is non-zero but within the tolerance (the tolerance matters at all)
                        R = z3.Or(*[z3.And(d_ > 0, d_ <= stol) for d_ in diffs])
                        st2, det2 = dse.check(pc + defs_ + [z3.Not(R)], z3.And(gmax, gmin))
                        res.append((lab, "failed", {"model": det, "inside_known_region_only": st2 == "proved"}))
                    else:
                        res.append((lab, st, det))
            same_sel = all(bool(a_) == bool(b_) for a_, b_ in zip(val[0], val[1])) and len(val[0]) == len(val[1])
            if same_sel:
                res.append((nm + ".both definitions select the same points", "proved", {}))
            else:
                # this path was executed, so it is feasible: the definitions differ on it.  Is it confined to the known-finding region R?
                mx = z3.Real("MXD")
                defs_ = [mx >= d_ for d_ in diffs] + [z3.Or(*[mx == d_ for d_ in diffs])]
                stol = mx * z3.RealVal(str(tolq))
                R = z3.Or(*[z3.And(d_ > 0, d_ <= stol) for d_ in diffs])
                st2, _ = dse.check(pc + defs_ + [z3.Not(R)], z3.BoolVal(False))
                res.append((nm + ".both definitions select the same points", "failed",
                            {"vectorised": [bool(x) for x in val[0]], "loop": [bool(x) for x in val[1]], "model": dse.check(pc + defs_, z3.BoolVal(False))[1],
                             "inside_known_region_only": st2 == "proved"}))
    return args, npth, res


def binify_case(args):
    mode, right, nrows = args
    cc = alg.load_module(report.REPO, CC)
    amp = [Z(z3.Real("amp%d" % i)) for i in range(nrows)]
    mean = [Z(z3.Real("mean%d" % i)) for i in range(nrows)]
    cnt = [Z(z3.Real("cnt%d" % i)) for i in range(nrows)]
    e = [Z(z3.Real("e%d" % i)) for i in range(3)]
    pre = [a.val >= 0 for a in amp] + [c.val > 0 for c in cnt]
    if mode == "explicit":
        pre += [e[0].val < e[1].val, e[1].val < e[2].val]
    res, npth = [], 0
    ex = dse.Explorer(max_paths=20000)

    def body():
        rf = dse.objarray([x for r in zip(amp, mean, cnt) for x in r], (nrows, 3))
        bins = 2 if mode == "scalar" else dse.objarray(list(e))
        return cc.binify(rf, ampbins=bins, meanbins=1, right=right, retbins=True, use_pandas=False)

    with Shim(cc):
        for pc, val, exc in ex.explore(body, assumptions=pre):
            npth += 1
            nm = "binify[%s bins,right=%s,%d cycles]::path%d" % (mode, right, nrows, npth)
            if exc is not None:
                res.append((nm + (".no exception" if dse.genuine_exception(exc) else ".symbolic execution"), "failed" if dse.genuine_exception(exc) else "undecided", {"exception": repr(exc)}))
                continue
            table, ampb, aveb = val
            nb = len(ampb) - 1
            tot = sum((Z.lift(table[0, j]) for j in range(nb)), Z(0))
            inbin = lambda a_, j: (z3.And(Z.lift(ampb[j]).val < a_.val, a_.val <= Z.lift(ampb[j + 1]).val) if right
                                   else z3.And(Z.lift(ampb[j]).val <= a_.val, a_.val < Z.lift(ampb[j + 1]).val))
            covered = [z3.Or(*[inbin(a_, j) for j in range(nb)]) for a_ in amp]
            # each cell holds exactly the counts of the cycles whose amplitude lies in its documented half-open interval
            goals = []
            for j in range(nb):
                want = sum((Z(z3.If(inbin(a_, j), c_.val, 0)) for a_, c_ in zip(amp, cnt)), Z(0))
                goals.append(Z.lift(table[0, j]).val == want.val)
            st, det = dse.check(pc, z3.And(*goals))
            res.append((nm + ".each cycle is counted in the bin whose half-open interval contains it (and nowhere else)", st, det))
            allc = sum((c_ for c_ in cnt), Z(0))
            if mode == "scalar":
                st, det = dse.check(pc, tot.val == allc.val)
                res.append((nm + ".automatic bins: total count conserved", st, det))
            else:
                st, det = dse.check(pc + covered, tot.val == allc.val)
                res.append((nm + ".bins cover the data => total count conserved", st, det))
    return args, npth, res


# ----------------------------------------------------------------------------------------------------------------
def concrete(repo, seed, tier):
    """bounded: fdepsd invariants on real signals, findap on long drifting plateaus (known finding D5), sigcount pipeline"""
    sys.path.insert(0, repo)
    from pyyeti import fdepsd, cyclecount
    assert os.path.abspath(fdepsd.__file__).startswith(os.path.abspath(repo))
    rng = np.random.RandomState(seed)
    ev = 0
    out = dict(failure=None, d5=None)
    sr = 400.0
    t = np.arange(0, 4.0, 1 / sr)
    sig = rng.randn(t.size) * np.exp(-((t - 2) / 1.2) ** 2) + 0.3 * np.sin(2 * np.pi * 35 * t)
    freq = np.array([20.0, 35.0, 60.0])
    for resp in ("absacce", "pvelo"):
        base = fdepsd.fdepsd(sig, sr, freq, 25, resp=resp, nbins=40, parallel="no")
        ev += 1
        cnt = base.count.values
        if np.any(np.diff(cnt, axis=1) > 1e-9):
            out["failure"] = dict(what="cumulative count increases with amplitude", resp=resp); return ev, out
        tot = base.bincount.values.sum(axis=1)
        if not np.allclose(cnt[:, 0], tot):
            out["failure"] = dict(what="first cumulative column != total cycle count", resp=resp); return ev, out
        if np.any(base.peakamp.values[:, 0] > base.srs.values * (1 + 1e-12)):
            out["failure"] = dict(what="largest cycle amplitude exceeds the SRS peak", resp=resp); return ev, out
        if np.any(base.psd.values[:, 1] < base.psd.values[:, 0] * (1 - 1e-12)):
            out["failure"] = dict(what="G2 < G1", resp=resp); return ev, out
        for bi, bexp in enumerate((4, 8, 12)):
            di = ((base.binamps.values ** bexp) * base.bincount.values).sum(axis=1)
            if not np.allclose(di, base.di_sig.values[:, bi], rtol=1e-10):
                out["failure"] = dict(what="damage indicator != sum(amp^b * count)", resp=resp, b=bexp); return ev, out
        vt = base.var_test.values if hasattr(base, "var_test") else None
        # all PSD outputs scale with the square of the input amplitude (powers of two: exact in floating point)
        for p2 in (3, -6, -24, 20):
            c = 2.0 ** p2
            sc = fdepsd.fdepsd(c * sig, sr, freq, 25, resp=resp, nbins=40, parallel="no")
            ev += 1
            if not (np.array_equal(sc.count.values, base.count.values) and np.allclose(sc.psd.values, c * c * base.psd.values, rtol=1e-9)
                    and np.allclose(sc.peakamp.values, c * base.peakamp.values, rtol=1e-9)):
                out["failure"] = dict(what="outputs do not scale with the square of the input amplitude", resp=resp, factor="2**%d" % p2,
                                      count_diff=float(abs(sc.count.values - base.count.values).max())); return ev, out
    # the frequency vector given as integers (ndarray / list) gives what the same numbers as floats give (serial path)
    sig_s = 0.4 * sig                         # responses below one unit, so that a truncation to integers would show
    ff = np.array([20.0, 35.0, 60.0])
    for resp in ("absacce", "pvelo"):
        base = fdepsd.fdepsd(sig_s, sr, ff, 25, resp=resp, nbins=30, parallel="no")
        for what_, fq_ in (("an integer ndarray", ff.astype(np.int64)), ("a list of ints", [20, 35, 60]), ("an int32 ndarray", ff.astype(np.int32))):
            got = fdepsd.fdepsd(sig_s, sr, fq_, 25, resp=resp, nbins=30, parallel="no")
            ev += 1
            for nm in ("psd", "peakamp", "binamps", "count", "bincount", "var", "srs", "di_sig"):
                a_, b_ = np.asarray(getattr(base, nm), float), np.asarray(getattr(got, nm), float)
                if a_.shape != b_.shape or not np.allclose(a_, b_, rtol=1e-12, atol=0, equal_nan=True):
                    out["failure"] = dict(what="fdepsd with the frequencies given as %s: output '%s' differs from the result for the same frequencies given as floats" % (what_, nm), resp=resp)
                    return ev, out
    # findap on integer-typed samples (ADC counts in int8 / int16 / int32) selects what it selects on the float copy of the same samples
    for it in range(30 if tier == "quick" else 300):
        nlen = rng.randint(2, 120)
        for dt_, amp_ in ((np.int8, 120), (np.int16, 30000), (np.int32, 2 ** 30)):
            yi = (rng.randint(-amp_, amp_ + 1, size=nlen)).astype(dt_)
            if it % 3 == 0:
                yi = np.repeat(yi, rng.randint(1, 3, size=nlen))[:nlen]        # plateaus
            ev += 1
            pi_, pf_ = cyclecount.findap(yi), cyclecount.findap(yi.astype(float))
            if not np.array_equal(pi_, pf_):
                out["failure"] = dict(what="findap on %s samples differs from findap on the float64 copy of the same samples" % np.dtype(dt_).name, y=yi.tolist()[:60],
                                      selected_int=np.nonzero(pi_)[0].tolist()[:30], selected_float=np.nonzero(pf_)[0].tolist()[:30])
                return ev, out
    # the threshold is |tol * max|diff||: a negative tol selects what |tol| selects (findap, locate.find_unique), also on signals with exact plateaus
    from pyyeti import locate as loc_
    for it in range(40 if tier == "quick" else 400):
        nlen = rng.randint(2, 40)
        yv = rng.randint(-4, 5, size=nlen).astype(float)
        if it % 2:
            yv = np.repeat(yv, rng.randint(1, 4, size=nlen))[:max(2, nlen)]
        for tl in (1e-6, 0.25, 0.5):
            ev += 1
            a_, b_ = cyclecount.findap(yv, tl), cyclecount.findap(yv, -tl)
            u1, u2 = loc_.find_unique(yv, tl), loc_.find_unique(yv, -tl)
            if not (np.array_equal(a_, b_) and np.array_equal(u1, u2)):
                out["failure"] = dict(what="a negative tolerance (threshold |tol * max|diff||) selects differently from its absolute value: %s" % ("findap" if not np.array_equal(a_, b_) else "find_unique"),
                                      y=yv.tolist(), tol=-tl, with_abs=np.nonzero(a_)[0].tolist(), with_negative=np.nonzero(b_)[0].tolist())
                return ev, out
    # sigcount / binify conservation on the real pipeline
    for it in range(20 if tier == "quick" else 300):
        y = np.cumsum(rng.randn(rng.randint(5, 60))).round(1)
        pv = cyclecount.findap(y)
        ev += 1
        if y.size > 1 and y.max() != y.min():
            rf = cyclecount.rainflow(y[pv], use_pandas=False)
            for right in (True, False):
                tab = cyclecount.binify(rf, ampbins=rng.randint(1, 6), meanbins=rng.randint(1, 4), right=right, use_pandas=False)
                if abs(tab.sum() - rf[:, 2].sum()) > 1e-12:
                    out["failure"] = dict(what="automatic bins do not conserve the cycle count", y=y.tolist(), right=right); return ev, out
    # explicit bins with data exactly on the edges (documented half-open intervals)
    for right in (True, False):
        for ampv in (1.0, 2.0, 3.0, 1.5, 0.5, 3.5):
            rf = np.array([[ampv, 0.0, 1.0]])
            tab, ab, mb = cyclecount.binify(rf, ampbins=[1.0, 2.0, 3.0], meanbins=[-1.0, 1.0], right=right, retbins=True, use_pandas=False)
            ev += 1
            want = np.zeros(2)
            for j in range(2):
                if (ab[j] < ampv <= ab[j + 1]) if right else (ab[j] <= ampv < ab[j + 1]):
                    want[j] = 1.0
            if not np.array_equal(tab[0], want):
                out["failure"] = dict(what="cycle not placed in the bin whose documented half-open interval contains it", amp=ampv, right=right,
                                      bins=[1.0, 2.0, 3.0], got=tab.tolist(), want=want.tolist()); return ev, out
    # known finding D5: drifting plateau (the stored witness)
    yw = np.array([0.0, 10.0] + [10.0 + 1e-6 * i for i in range(1, 2001)] + [0.0])
    pv = cyclecount.findap(yw, 1e-6)
    stol = 1e-6 * abs(np.diff(yw)).max()
    out["d5"] = dict(selected_max=float(yw[pv].max()), true_max=float(yw.max()), stol=float(stol), fails=bool(yw.max() - yw[pv].max() > stol))
    try:
        loopfn, _ = loop_findap(repo)
        y2 = np.array([-125000.0, 0.0, 0.125, -0.125])
        a_, b_ = cyclecount.findap(y2, 1e-6), loopfn(y2, 1e-6)
        out["d5"]["definitions_differ_on"] = dict(y=y2.tolist(), vectorised=np.asarray(a_).tolist(), loop=np.asarray(b_).tolist())
        out["d5"]["fails"] = bool(out["d5"]["fails"] or not np.array_equal(a_, b_))
    except Exception as ex:
        out["d5"]["loop_error"] = repr(ex)
    return ev, out


def run(tier, seed):
    run = report.Run(PID, tier, seed)
    run.trust("z3", "vc.dse; assumed contracts (shims) of np.digitize, np.linspace, np.sign on symbolic arrays; np.diff/hstack/nonzero/fancy indexing run for real")
    run.assume("floats are reals (no rounding); sequence lengths fixed per configuration (findap n <= 5, binify <= 2 cycles), values symbolic",
               "the loop-based findap definition is extracted from the file's AST (the `else:` branch taken when numba is present) and run as plain Python; numba "
               "compilation assumed semantics preserving")
    run.not_covered += ["fdepsd pipeline deductively (lfilter, resampling): bounded checks only", "test-variance / Rayleigh damage formulas", "sigcount's pandas formatting"]
    cc_src = report.read_source(CC)
    for nd in ast.walk(ast.parse(cc_src)):
        if isinstance(nd, ast.FunctionDef) and nd.name in ("findap", "getbins", "_binify", "binify"):
            run.add_function(CC, nd.name, hashlib.sha256(ast.unparse(nd).encode()).hexdigest()[:16], {"note": "real function object (DSE)"})
    P = report.pool()
    fcases = [(n, tol) for n in (1, 2, 3, 4) for tol in ("1/1000000", "1/4")] + ([(5, "1/4")] if tier == "thorough" else [])
    bcases = [(m, r, k) for m in ("scalar", "explicit") for r in (True, False) for k in (1, 2)]
    r1 = P.map_async(findap_case, fcases, chunksize=1)
    r2 = P.map_async(binify_case, bcases, chunksize=1)
    vs, paths = [], {}
    known_ok = True
    kf = [k for k in run.known if k.get("obligation") == "findap.tolerance-region" and k.get("status") == "open"]
    new_fail = []
    for tag, rr in (("findap", r1), ("binify", r2)):
        for args, npth, res in rr.get():
            paths["%s%s" % (tag, args)] = npth
            for name, st, det in res:
                if st == "failed" and kf and ("global max and min reached" in name or "both definitions select" in name):
                    if det.get("inside_known_region_only") is True:
                        # carved out: restricted to the complement of the region R the obligation proves
                        vs.append(V(name + " [restricted to inputs outside the known-finding region]", "proved", det))
                        continue
                vs.append(V(name, st, det))
            vs.append(V("%s%s::explored" % (tag, args), "proved" if npth else "failed", {"paths": npth}))
    run.add_verdicts(vs)
    run.notes.append({"paths per configuration": paths})
    ev, conc = concrete(report.REPO, seed, tier)
    run.bounded.append(dict(name="real fdepsd (serial): counts non-increasing, first column = total, Amax <= SRS, G2 >= G1, damage indicators, amplitude^2 scaling at 2^3, "
                                 "2^-6, 2^-24, 2^20; real findap->rainflow->binify conservation; explicit bins with data on the edges",
                            evaluations=ev, failures=0 if conc["failure"] is None else 1, label="bounded (never counted as proved)"))
    failed = [v for v in vs if v.status == "failed"]
    if failed:
        run.violation(failed[0].name, "obligation(s) failed: " + ", ".join(v.name for v in failed[:5]),
                      dict(failed=[v.as_dict() for v in failed[:10]], concrete=conc["failure"] or model_of(failed[0])), concrete=True)
    elif conc["failure"]:
        run.violation("bounded:" + conc["failure"]["what"], conc["failure"]["what"], dict(concrete=conc["failure"]), concrete=True)
    if kf:
        run.known_finding(kf[0], bool(conc["d5"] and conc["d5"]["fails"]))
    return run.finish()


def model_of(v):
    m = v.detail.get("model")
    return {k: m[k] for k in sorted(m)} if isinstance(m, dict) else None


def replay(path):
    d = json.load(open(path))
    print(json.dumps(d.get("concrete"), indent=1)[:3000])
    return 1 if d.get("concrete") else 0
