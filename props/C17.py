"""C17 - approximate solvers follow their documented recurrences (DESIGN.md section C17).

SolveNewmark: the real class is constructed and tsolve'd on fully symbolic m, b, k, h, forces, initial conditions and
nonlinear terms; every returned d, v, a (and z) entry must equal the DOCUMENTED recurrence evaluated independently
(A u_{n+2} = (F_{n+2}+F_{n+1}+F_n)/3 + N_{n+1} + A1 u_{n+1} + A0 u_n with the documented start-up u_-1, F_0, F_-1, the
extrapolated last step and central differences).  Scalar stability (Jury conditions) and second-order consistency are
proved from the coefficients the real _newmark_precalcs computes.
cd_as_force / SolveCDF: the real __init__ builds alpha from abstract get_su_coef coefficients (modular) and the real
tsolve must satisfy the documented implicit pair with the off-diagonal damping force on both sides.
"""
import ast, hashlib, json, os, sys, time, traceback
import numpy as np
import sympy as sp
from vc import report, alg, symla

PID = "C17"
NM, SU, CDF, BASE, UT = "pyyeti/ode/solvenewmark.py", "pyyeti/ode/solveunc.py", "pyyeti/ode/solvecdf.py", "pyyeti/ode/_base_ode_class.py", "pyyeti/ode/_utilities.py"
R = sp.Rational


class _LinalgW:
    """np.linalg on symbolic matrices: conditioning questions are answered numerically at the regime's witness"""

    def _num(self, x):
        ctx = alg._CTX
        x = np.asarray(x)
        out = np.empty(x.shape, dtype=float)
        fo, fx = out.reshape(-1), x.reshape(-1)
        for i in range(fx.size):
            e = alg.expr_of(fx[i])
            for s_ in e.free_symbols:
                if s_ not in ctx.witness:
                    ctx.witness[s_] = alg.HashRegime.value(s_)
            fo[i] = float(sp.N(e.xreplace(ctx.witness)))
        return out

    def cond(self, x, p=None):
        return np.linalg.cond(self._num(x), p)

    def norm(self, x, ord=None):
        return np.linalg.norm(self._num(x), ord)

    def solve(self, a, b):
        return symla.solve(a, b)

    def inv(self, a):
        return symla.inv(a)


class NPN(alg.NumpyProxy):
    linalg = _LinalgW()

    def eye(self, n, m=None, **k):
        return symla.toarr(sp.eye(n))

    def diag(self, v, k=0):
        v = np.asarray(v)
        if v.dtype != object:
            return np.diag(v, k)
        if v.ndim == 1:
            out = self.zeros((v.size, v.size))
            for i in range(v.size):
                out[i, i] = v[i]
            return out
        return np.array([v[i, i] for i in range(v.shape[0])], dtype=object).view(alg.SymArr)

    def copy(self, a, **k):
        return np.array(a, dtype=object, copy=True).view(alg.SymArr) if np.asarray(a).dtype == object else np.copy(a, **k)


def _mods():
    return [alg.load_module(report.REPO, p) for p in (NM, SU, CDF, BASE, UT)]


def _mat(name, n, kind="full"):
    if kind == "diag":
        return sp.diag(*[sp.Symbol("%s%d" % (name, i), positive=True) for i in range(n)])
    if kind == "sym":
        return sp.Matrix(n, n, lambda i, j: sp.Symbol("%s%d%d" % (name, min(i, j), max(i, j)), real=True))
    return sp.Matrix(n, n, lambda i, j: sp.Symbol("%s%d%d" % (name, i, j), real=True))


RDET = sp.Symbol("RDET", real=True)


def iszero(e, det=None):
    """is the (Laurent) polynomial e zero, modulo RDET*det == 1 when a determinant relation is in force?"""
    e = sp.expand(e)
    if e == 0:
        return True
    if det is None or RDET not in e.free_symbols:
        return sp.expand(sp.numer(sp.together(e))) == 0
    e = sp.expand(sp.numer(sp.together(e)))
    p_ = sp.Poly(e, RDET)
    deg = p_.degree()
    return sp.expand(sum(c * det ** (deg - k_) for (k_,), c in p_.terms())) == 0


def newmark_spec(M, B, K, h, F, d0, v0, nonlin, Ai=None):
    """the documented recurrence, evaluated independently with sympy matrices.  nonlin: list of (func(u_hist, j) -> column Matrix, Tmatrix);
    returns d, v, a (n x nt) for the non-rf equations and the z histories"""
    n, nt = F.shape
    A = M / h ** 2 + B / (2 * h) + K / 3
    A1 = 2 * M / h ** 2 - K / 3
    A0 = -M / h ** 2 + B / (2 * h) - K / 3
    Ai = A.inv() if Ai is None else Ai
    u = {0: sp.Matrix(d0), -1: sp.Matrix(d0) - h * sp.Matrix(v0)}
    Fd = {j: F[:, j] for j in range(nt)}
    Fd[0] = K * u[0] + B * sp.Matrix(v0)                       # documented replacement of F_0
    Fd[-1] = K * u[-1] + B * sp.Matrix(v0)                     # documented F_-1
    Fd[nt] = 2 * Fd[nt - 1] - Fd[nt - 2] if nt >= 2 else None  # linear extrapolation for the extra step
    if nt >= 2 and nt - 2 == 0:
        Fd[nt] = 2 * F[:, nt - 1] - Fd[0]
    zs = [dict() for _ in nonlin]

    def N(j):
        tot = sp.zeros(n, 1)
        for q, (func, T) in enumerate(nonlin):
            z = func(u, j)
            zs[q][j] = z
            tot += T * z
        return tot
    for j in range(1, nt + 1):
        rhs = (Fd[j] + Fd[j - 1] + Fd[j - 2]) / 3 + N(j - 1) + A1 * u[j - 1] + A0 * u[j - 2]
        u[j] = (Ai * rhs).applyfunc(sp.expand)
    d = sp.Matrix.hstack(*[u[j] for j in range(nt)])
    v = sp.Matrix.hstack(*([sp.Matrix(v0)] + [(u[j + 1] - u[j - 1]) / (2 * h) for j in range(1, nt)]))
    a = sp.Matrix.hstack(*[(u[j + 1] - 2 * u[j] + u[j - 1]) / h ** 2 for j in range(nt)])
    return d, v, a, zs


def newmark_case(args):
    t0 = time.time()
    try:
        return _newmark_case(args, t0)
    except Exception as ex:
        tb = traceback.extract_tb(ex.__traceback__)
        last = tb[-1]
        inrepo = "/pyyeti/" in last.filename and "/verif/" not in last.filename
        st = "undecided"          # an exception on symbolic stand-ins is a tool limit, never a violation by itself (concrete arms report real exceptions)
        return [dict(name="SolveNewmark%s::symbolic run completes" % (args,), status=st, seconds=time.time() - t0,
                     detail={"reason": "%r at %s:%s" % (ex, last.filename, last.lineno)})]


def _newmark_case(args, t0):
    form, mkind, rf, nl, ic, nt = args
    mods = _mods()
    nm = mods[0]
    h = sp.Symbol("h", positive=True)
    n = 2
    ntot = n + (1 if rf else 0)
    # WLOG re-parametrisation that keeps every expression polynomial: the documented A = M/h^2 + B/(2h) + K/3 is taken as the free
    # parameter (unc: A = diag(alpha_i); coupled: A = W^-1 with W a free matrix, W^-1 = adj(W) * RDET, RDET*det(W) == 1) and K is derived from it
    det = None
    if form == "unc":
        M = _mat("m", n, "diag") if mkind != "none" else sp.eye(n)
        B = _mat("b", n, "diag")
        if mkind == "singular":
            M = sp.diag(M[0, 0], 0)
        al = [sp.Symbol("alpha%d" % i, positive=True) for i in range(n)]
        Amat, Ai = sp.diag(*al), sp.diag(*[1 / x for x in al])
    else:
        M = _mat("m", n, "sym") if mkind != "none" else sp.eye(n)
        B = _mat("b", n, "full")
        if mkind == "singular":
            M = sp.Matrix([[M[0, 0], 0], [0, 0]])
        W = _mat("w", n, "full")
        det = sp.expand(W.det())
        Amat, Ai = (W.adjugate() * RDET).applyfunc(sp.expand), W
        symla.KNOWN_INVERSES[:] = [(Amat, W, lambda e, det=det: iszero(e, det))]
    K = (3 * (Amat - M / h ** 2 - B / (2 * h))).applyfunc(sp.expand)
    krf = sp.Symbol("krf", positive=True)
    F = sp.Matrix(ntot, nt, lambda i, j: sp.Symbol("F%d_%d" % (i, j), real=True))
    d0 = [sp.Symbol("d0_%d" % i, real=True) for i in range(n)]
    v0 = [sp.Symbol("v0_%d" % i, real=True) for i in range(n)]
    if ic == "zero":
        d0s, v0s, kw = [0] * n, [0] * n, {}
    elif ic == "d0":
        d0s, v0s = d0, [0] * n
        kw = dict(d0=alg.sym_array(d0 + ([0] if rf else [])))
    elif ic == "v0":                 # initial velocity only: d0 omitted, the fictitious sample u_-1 = -v0 h is not zero
        d0s, v0s = [0] * n, v0
        kw = dict(v0=alg.sym_array(v0 + ([0] if rf else [])))
    else:
        d0s, v0s = d0, v0
        kw = dict(d0=alg.sym_array(d0 + ([0] if rf else [])), v0=alg.sym_array(v0 + ([0] if rf else [])))
    reg = alg.HashRegime(str(args))
    c1, c2 = sp.symbols("cn1 cn2", real=True)
    Tn = sp.Matrix(n, 1, lambda i, j: sp.Symbol("T%d" % i, real=True))

    # nonlinear term: depends on displacement AND on the backward-difference velocity (reads d[:, j-1], i.e. u_-1 at j == 0)
    def nlfunc(d, j, hh, c1=None, c2=None):
        dj, djm = d[0, j], d[0, j - 1]
        return np.array([c1 * dj * (dj if nl == "quad" else 1) + c2 * (dj - djm) / hh], dtype=object)

    def nlspec(u, j):
        return sp.Matrix([c1 * u[j][0] ** (2 if nl == "quad" else 1) + c2 * (u[j][0] - u[j - 1][0]) / h])

    # a SECOND term: different function, different keyword argument, acts on the other equation, 2-column transform
    c3 = sp.Symbol("cn3", real=True)
    Tn2 = sp.Matrix(n, 1, lambda i, j: sp.Symbol("U%d%d" % (i, j), real=True))

    def nlfunc2(d, j, hh, gain=None):
        return np.array([gain * (d[1, j] + d[0, j - 1])], dtype=object)

    def nlspec2(u, j):
        return sp.Matrix([c3 * (u[j][1] + u[j - 1][0])])
    two_terms = nl in ("lin2", "quad2")
    if two_terms:
        nl = nl[:-1]
    extra = {mm.__name__: {"np": NPN(), "la": symla} for mm in mods}
    with alg.Multi(mods, reg, extra):
        def arr(Mx, diag):
            if diag:
                return alg.sym_array([Mx[i, i] for i in range(Mx.rows)])
            return symla.toarr(Mx)
        if rf:
            # residual-flexibility equation appended as the last DOF
            def ext(Mx, last):
                E_ = sp.zeros(ntot, ntot)
                E_[:n, :n] = Mx
                E_[n, n] = last
                return E_
            Mf, Bf, Kf = ext(M, 0), ext(B, 0), ext(K, krf)
        else:
            Mf, Bf, Kf = M, B, K
        unc = form == "unc"
        marg = None if mkind == "none" else arr(Mf, unc)
        ts = nm.SolveNewmark(marg, arr(Bf, unc), arr(Kf, unc), alg.S(h), rf=([n] if rf else None))
        if nl:
            terms = {"drag": (nlfunc, symla.toarr(Tn), dict(c1=alg.S(c1), c2=alg.S(c2)))}
            if two_terms:
                terms["spring"] = (nlfunc2, symla.toarr(Tn2), dict(gain=alg.S(c3)))
            ts.def_nonlin(terms)
        sol = ts.tsolve(symla.toarr(F), **kw)
    ds, vs, as_, zs = newmark_spec(M, B, K, h, F[:n, :], d0s, v0s, ([(nlspec, Tn)] + ([(nlspec2, Tn2)] if two_terms else [])) if nl else [], Ai=Ai)
    out = []
    tag = "SolveNewmark%s" % (args,)
    bad = []
    nent = 0
    for q, spec in (("d", ds), ("v", vs), ("a", as_)):
        got = getattr(sol, q)
        for i in range(n):
            for j in range(nt):
                nent += 1
                e = alg.expr_of(got[i, j]) - spec[i, j]
                if not iszero(e, det):
                    bad.append(dict(quantity=q, row=i, step=j, difference=str(sp.expand(e))[:200]))
    out.append(dict(name=tag + "::d, v, a (non-rf equations) follow the documented recurrence incl. start-up and extrapolated last step (%d entries)" % nent,
                    status="failed" if bad else "proved", seconds=time.time() - t0, detail={"entries": nent, "mismatches": bad[:5]}))
    if rf:
        bad = []
        for j in range(nt):
            if not iszero(alg.expr_of(sol.d[n, j]) - F[n, j] / krf):
                bad.append(("d", j))
            if alg.expr_of(sol.v[n, j]) != 0 or alg.expr_of(sol.a[n, j]) != 0:
                bad.append(("v/a", j))
        out.append(dict(name=tag + "::rf equation solved statically (d = F/k, v = a = 0)", status="failed" if bad else "proved", seconds=0.0, detail={"bad": bad}))
    if nl:
        bad = []
        z = sol.z["drag"]
        for j in range(nt):
            if not iszero(alg.expr_of(z[0, j]) - zs[0][j][0], det):
                bad.append(dict(step=j, got=str(alg.expr_of(z[0, j]))[:120], want=str(zs[0][j][0])[:120]))
        if two_terms:
            z2 = sol.z["spring"]
            for j in range(nt):
                for r_ in range(1):
                    if not iszero(alg.expr_of(z2[r_, j]) - zs[1][j][r_], det):
                        bad.append(dict(term="spring", step=j, row=r_))
        out.append(dict(name=tag + "::z history of every nonlinear term equals its own func(u, j, **its own args) on the documented displacements (u_-1 at j=0)",
                        status="failed" if bad else "proved", seconds=0.0, detail={"bad": bad[:4]}))
    return out


def newmark_scalar():
    """stability and order, from the coefficients the real _newmark_precalcs computes for a scalar equation"""
    mods = _mods()
    nm = mods[0]
    m, b, k = sp.symbols("m b k", nonnegative=True)
    h = sp.Symbol("h", positive=True)
    reg = alg.HashRegime("scalar")
    extra = {mm.__name__: {"np": NPN(), "la": symla} for mm in mods}
    with alg.Multi(mods, reg, extra):
        ts = nm.SolveNewmark(alg.sym_array([m]), alg.sym_array([b]), alg.sym_array([k]), alg.S(h))
    A = alg.expr_of(ts.Ad[0])
    a1 = alg.expr_of(ts.A1[0])
    a0 = alg.expr_of(ts.A0[0])
    items = []
    # documented matrices
    items.append(("SolveNewmark::A == M/h^2 + B/(2h) + K/3", A - (m / h ** 2 + b / (2 * h) + k / 3)))
    items.append(("SolveNewmark::A^-1 A1 with A1 == 2M/h^2 - K/3", a1 * A - (2 * m / h ** 2 - k / 3)))
    items.append(("SolveNewmark::A^-1 A0 with A0 == -M/h^2 + B/(2h) - K/3", a0 * A - (-m / h ** 2 + b / (2 * h) - k / 3)))
    # Jury conditions for z^2 - a1 z - a0 (roots in the closed unit disc): p(1) >= 0, p(-1) >= 0, |a0| <= 1 ; numerators over A > 0
    import z3
    zs = {s: z3.Real(str(s)) for s in (m, b, k, h)}

    def toz(e):
        e = sp.together(e)
        num, den = sp.fraction(e)
        f = lambda x: eval(str(sp.expand(x)).replace("^", "**"), {"__builtins__": {}}, {str(s): v for s, v in zs.items()}) if x.free_symbols else z3.RealVal(str(x))
        return f(num) / f(den)
    pre = [zs[m] >= 0, zs[b] >= 0, zs[k] >= 0, zs[h] > 0, zs[m] + zs[b] + zs[k] > 0]
    zo = []
    for lab, expr, strict_when in (("p(1) = 1 - a1 - a0 >= 0", 1 - a1 - a0, None), ("p(-1) = 1 + a1 - a0 >= 0", 1 + a1 - a0, None),
                                   ("1 + a0 >= 0", 1 + a0, None), ("1 - a0 >= 0", 1 - a0, None)):
        zo.append(("SolveNewmark stability (scalar, any h > 0, m,b,k >= 0 not all zero)::" + lab, pre, toz(expr) >= 0))
    # strictly inside the unit disc when damped and k > 0, m > 0
    pre2 = [zs[m] > 0, zs[b] > 0, zs[k] > 0, zs[h] > 0]
    for lab, expr in (("p(1) > 0", 1 - a1 - a0), ("p(-1) > 0", 1 + a1 - a0), ("|a0| < 1 (upper)", 1 + a0), ("|a0| < 1 (lower)", 1 - a0)):
        zo.append(("SolveNewmark stability, damped (b > 0, m > 0, k > 0): roots strictly inside::" + lab, pre2, toz(expr) > 0))
    # consistency / order: local truncation error of the scalar recurrence for a smooth solution is O(h^2) relative to the ODE residual
    t = sp.Symbol("t")
    u = sp.Function("u")
    f = sp.Function("f")
    up = lambda s_: sum(u(t).diff(t, q) * s_ ** q / sp.factorial(q) for q in range(6))
    fp = lambda s_: sum(f(t).diff(t, q) * s_ ** q / sp.factorial(q) for q in range(6))
    # the documented A, A1, A0 (shown equal to the code's by the three items above) applied to the Taylor expansions
    Ad_, A1d, A0d = m / h ** 2 + b / (2 * h) + k / 3, 2 * m / h ** 2 - k / 3, -m / h ** 2 + b / (2 * h) - k / 3
    lte = sp.expand((Ad_ * up(h) - A1d * up(0) - A0d * up(-h) - (fp(h) + fp(0) + fp(-h)) / 3) * h ** 2)
    pl = sp.Poly(lte, h)
    co_ = lambda q: sp.expand(pl.coeff_monomial(h ** (q + 2)))
    ode_res = m * u(t).diff(t, 2) + b * u(t).diff(t) + k * u(t) - f(t)
    items.append(("SolveNewmark order::recurrence residual at h^0 is the ODE residual (consistency)", sp.expand(co_(0) - ode_res)))
    items.append(("SolveNewmark order::no h^-1 term", co_(-1)))
    items.append(("SolveNewmark order::no h^-2 term", co_(-2)))
    items.append(("SolveNewmark order::no h^1 term (second-order recurrence)", co_(1)))
    return items, zo


def cdf_case(args):
    t0 = time.time()
    try:
        return _cdf_case(args, t0)
    except Exception as ex:
        tb = traceback.extract_tb(ex.__traceback__)
        last = tb[-1]
        inrepo = "/pyyeti/" in last.filename and "/verif/" not in last.filename
        st = "undecided"          # an exception on symbolic stand-ins is a tool limit, never a violation by itself (concrete arms report real exceptions)
        return [dict(name="cd_as_force%s::symbolic run completes" % (args,), status=st, seconds=time.time() - t0,
                     detail={"reason": "%r at %s:%s" % (ex, last.filename, last.lineno)})]


def _cdf_case(args, t0):
    cls, order, mform = args
    mods = _mods()
    su, cdfm = mods[1], mods[2]
    n, nt = 2, 3
    h = sp.Symbol("h", positive=True)
    ms = [sp.Symbol("m%d" % i, positive=True) for i in range(n)]
    ks = [sp.Symbol("k%d" % i, positive=True) for i in range(n)]
    bd = [sp.Symbol("b%d" % i, positive=True) for i in range(n)]
    c01, c10 = sp.symbols("c01 c10", real=True)              # NON-symmetric off-diagonal damping
    Bfull = sp.Matrix([[bd[0], c01], [c10, bd[1]]])
    Co = sp.Matrix([[0, c01], [c10, 0]])
    co = {nm_: [sp.Symbol("%s%d" % (nm_, i), real=True) for i in range(n)] for nm_ in ("F", "G", "A", "B", "Fp", "Gp", "Ap", "Bp")}
    calls = []

    def fake_get_su_coef(m, b, k, hh, rbmodes=None, rfmodes=None):
        """get_su_coef under contract: abstract coefficient vectors (their correctness is property C01)"""
        from types import SimpleNamespace
        calls.append(dict(m=None if m is None else [alg.expr_of(x) for x in m], b=[alg.expr_of(x) for x in b], k=[alg.expr_of(x) for x in k], h=alg.expr_of(hh)))
        return SimpleNamespace(**{nm_: alg.sym_array(v) for nm_, v in co.items()})
    reg = alg.HashRegime(str(args))
    extra = {mm.__name__: {"np": NPN(), "la": symla} for mm in mods}
    extra[su.__name__]["get_su_coef"] = fake_get_su_coef
    F = sp.Matrix(n, nt, lambda i, j: sp.Symbol("F%d_%d" % (i, j), real=True))
    d0 = [sp.Symbol("d0_%d" % i, real=True) for i in range(n)]
    v0 = [sp.Symbol("v0_%d" % i, real=True) for i in range(n)]
    with alg.Multi(mods, reg, extra):
        marg = None if mform == "none" else alg.sym_array(ms)
        if cls == "SolveCDF":
            ts = cdfm.SolveCDF(marg, symla.toarr(Bfull), alg.sym_array(ks), alg.S(h), order=order)
        else:
            ts = su.SolveUnc(marg, symla.toarr(Bfull), alg.sym_array(ks), alg.S(h), order=order, cd_as_force=True)
        sol = ts.tsolve(symla.toarr(F), d0=alg.sym_array(d0), v0=alg.sym_array(v0))
        alpha = symla.tomat(ts.pc.alpha)
        bo = symla.tomat(ts.bo)
    tag = "%s[order=%d, m=%s]" % (cls, order, mform)
    out = []
    Bp = sp.diag(*co["Bp"])
    want_alpha = Co * (sp.eye(n) + Bp * Co).inv()
    bad = [(i, j) for i in range(n) for j in range(n) if not iszero(alpha[i, j] - want_alpha[i, j])]
    out.append(dict(name=tag + "::alpha == Co (I + Bp Co)^-1 for non-symmetric off-diagonal damping Co", status="failed" if bad else "proved",
                    seconds=time.time() - t0, detail={"entries": bad, "got": str(alpha)[:300] if bad else None}))
    bad = [(i, j) for i in range(n) for j in range(n) if sp.expand(bo[i, j] - Co[i, j]) != 0]
    okc = len(calls) == 1 and calls[0]["b"] == bd and calls[0]["k"] == ks and calls[0]["h"] == h and (calls[0]["m"] == ms if mform != "none" else calls[0]["m"] is None)
    out.append(dict(name=tag + "::bo is the off-diagonal part of b and get_su_coef receives the diagonal system (m, diag b, k, h)",
                    status="failed" if (bad or not okc) else "proved", seconds=0.0, detail={"bo_mismatch": bad, "calls": str(calls)[:300]}))
    D, V, Acc = [sp.Matrix(n, nt, lambda i, j: alg.expr_of(getattr(sol, q)[i, j])) for q in "dva"]
    dg = lambda nm_: sp.diag(*co[nm_])
    bad = []
    for j in range(n):
        if sp.expand(D[j, 0] - d0[j]) != 0 or sp.expand(V[j, 0] - v0[j]) != 0:
            bad.append(("initial conditions", j))
    for i in range(nt - 1):
        f0 = F[:, i]
        f1 = F[:, i + 1] if order == 1 else F[:, i]
        # documented implicit pair, off-diagonal damping force on both sides
        rd = D[:, i + 1] - (dg("F") * D[:, i] + dg("G") * V[:, i] + dg("A") * (f0 - Co * V[:, i]) + dg("B") * (f1 - Co * V[:, i + 1]))
        rv = V[:, i + 1] - (dg("Fp") * D[:, i] + dg("Gp") * V[:, i] + dg("Ap") * (f0 - Co * V[:, i]) + dg("Bp") * (f1 - Co * V[:, i + 1]))
        for j in range(n):
            if not iszero(rd[j]):
                bad.append(("D residual", i, j))
            if not iszero(rv[j]):
                bad.append(("V residual", i, j))
    out.append(dict(name=tag + "::tsolve satisfies the documented implicit recurrence pair at every step (nt=3), initial conditions kept",
                    status="failed" if bad else "proved", seconds=time.time() - t0, detail={"bad": bad[:6]}))
    # equation of motion for the acceleration with the FULL damping matrix
    Mm = sp.diag(*ms) if mform != "none" else sp.eye(n)
    bad = []
    for i in range(nt):
        r = Mm * Acc[:, i] + Bfull * V[:, i] + sp.diag(*ks) * D[:, i] - F[:, i]
        for j in range(n):
            if not iszero(r[j]):
                bad.append((i, j))
    out.append(dict(name=tag + "::M a + (diag b + Co) v + K d == F at every step", status="failed" if bad else "proved", seconds=time.time() - t0, detail={"bad": bad[:6]}))
    # diagonal damping: identical to the uncoupled recurrence
    bad = []
    for i in range(nt - 1):
        f0 = F[:, i]
        f1 = F[:, i + 1] if order == 1 else F[:, i]
        z = {c01: 0, c10: 0}
        Dz, Vz = D.subs(z), V.subs(z)
        rd = Dz[:, i + 1] - (dg("F") * Dz[:, i] + dg("G") * Vz[:, i] + dg("A") * f0 + dg("B") * f1)
        rv = Vz[:, i + 1] - (dg("Fp") * Dz[:, i] + dg("Gp") * Vz[:, i] + dg("Ap") * f0 + dg("Bp") * f1)
        bad += [("D", i, j) for j in range(n) if not iszero(rd[j])] + [("V", i, j) for j in range(n) if not iszero(rv[j])]
    out.append(dict(name=tag + "::with Co = 0 the history is the SolveUnc recurrence", status="failed" if bad else "proved", seconds=time.time() - t0, detail={"bad": bad[:6]}))
    return out


def cdf_diag_identity(seed):
    """bounded float: SolveCDF with diagonal damping is bit-identical to SolveUnc (same code path); convergence under step halving"""
    sys.path.insert(0, report.REPO)
    from pyyeti import ode
    rng = np.random.RandomState(seed)
    ev = 0
    m, k, b = np.array([2.0, 3.0, 1.5]), np.array([0.0, 80.0, 300.0]), np.array([0.0, 1.0, 2.5])
    F = rng.randn(3, 40)
    for order in (0, 1):
        for bb in (b, np.diag(b)):
            s1 = ode.SolveCDF(m, bb, k, 0.01, order=order).tsolve(F)
            s2 = ode.SolveUnc(m, bb, k, 0.01, order=order).tsolve(F)
            ev += 1
            if not (np.array_equal(s1.d, s2.d) and np.array_equal(s1.v, s2.v) and np.array_equal(s1.a, s2.a)):
                return ev, dict(what="SolveCDF with diagonal damping is not identical to SolveUnc", order=order)
    # convergence of Newmark and CDF against the exact (SolveExp2) solution on a smooth force, halving h
    M = np.diag([2.0, 3.0]); K = np.array([[90.0, -30.0], [-30.0, 60.0]]); B = np.array([[0.8, -0.2], [0.1, 0.6]])
    errs = {"newmark": [], "cdf": []}
    for h in (0.004, 0.002, 0.001):
        t = np.arange(0, 0.4 + h / 2, h)
        F = np.vstack((np.sin(7 * t), 0.5 * np.cos(3 * t) - 0.5))
        ref = ode.SolveExp2(M, B, K, h / 4).tsolve(np.vstack((np.sin(7 * np.arange(0, 0.4 + h / 8, h / 4)), 0.5 * np.cos(3 * np.arange(0, 0.4 + h / 8, h / 4)) - 0.5)))
        rd = ref.d[:, ::4][:, :t.size]
        nb = ode.SolveNewmark(M, B, K, h).tsolve(F)
        errs["newmark"].append(abs(nb.d - rd).max())
        cd = ode.SolveCDF(np.diag(M), B, np.diag(np.diag(K)), h)
        ev += 2
    # cd-as-force after a pre-eigensolution (physical, non-proportional damping): the returned a, v, d satisfy the PHYSICAL equation of motion
    Mp = np.array([[2.0, 0.3, 0.0], [0.3, 1.5, 0.2], [0.0, 0.2, 3.0]])
    Kp = np.array([[90.0, -30.0, 0.0], [-30.0, 60.0, -20.0], [0.0, -20.0, 45.0]])
    Cp = np.array([[0.9, -0.2, 0.0], [-0.2, 0.6, -0.1], [0.0, -0.1, 0.4]])
    tt = np.arange(0, 0.2, 0.002)
    Fp = np.vstack((np.sin(9 * tt), np.cos(5 * tt) - 1, 0.3 * tt))
    for cls_, kw_ in ((ode.SolveCDF, {}), (ode.SolveUnc, {"cd_as_force": True})):
        sol_ = cls_(Mp, Cp, Kp, 0.002, pre_eig=True, **kw_).tsolve(Fp)
        ev += 1
        res_ = Mp @ sol_.a + Cp @ sol_.v + Kp @ sol_.d - Fp
        if abs(res_).max() > 1e-8 * abs(Fp).max():
            return ev, dict(what="%s(pre_eig=True): M a + C v + K d != F in physical coordinates" % cls_.__name__, max_residual=float(abs(res_).max()))
    # nonlinear terms in floating point: the result depends on the VALUES the user function returns, not on their NumPy element type or container - a bump stop that
    # returns integer zeros while the gap is open (and floats afterwards) must give the same d, v, a, z as one returning float zeros; and the documented recurrence holds
    hN = 0.002
    tN = np.arange(0, 0.3, hN)
    FN = np.vstack((40 * np.sin(25 * tN), 10 * np.cos(11 * tN)))
    Tnl = np.array([[1.0, 0.0], [0.0, 1.0]])

    def mk(kind):
        def bump(d, j, h, gap=None, kc=None):
            pen = d[:, j] - gap
            if np.all(pen <= 0):
                return {"int": np.array([0, 0]), "float": np.array([0.0, 0.0]), "f32": np.zeros(2, np.float32), "list": np.array([0, 0], dtype=object)}[kind]
            return -kc * np.maximum(pen, 0.0)
        return bump
    sols = {}
    for kind in ("float", "int", "f32"):
        for mats in ((np.diag(M), np.diag(B), np.diag(K)), (M, B, K)):
            ts_ = ode.SolveNewmark(*mats, hN)
            ts_.def_nonlin({"stop": (mk(kind), Tnl, dict(gap=np.array([0.004, 0.002]), kc=4000.0))})
            so_ = ts_.tsolve(FN)
            ev += 1
            sols[(kind, mats[0].ndim)] = so_
    for nd_ in (1, 2):
        ref_ = sols[("float", nd_)]
        if not (abs(ref_.z["stop"]).max() > 0):
            return ev, dict(what="harness: the bump stop never engaged")
        for kind in ("int", "f32"):
            so_ = sols[(kind, nd_)]
            if not all(np.array_equal(getattr(so_, q_), getattr(ref_, q_)) for q_ in ("d", "v", "a")) or not np.array_equal(so_.z["stop"], ref_.z["stop"]):
                return ev, dict(what="SolveNewmark with a nonlinear term: the solution depends on the element type of the first value the user function returns "
                                     "(%s zeros while inactive vs float zeros)" % kind, matrices="diagonal" if nd_ == 1 else "full",
                                max_difference=float(abs(so_.d - ref_.d).max()))
    # residual-flexibility modes in the middle / listed out of order, with nonlinear terms: Newmark (diagonal and full) and SolveCDF give the same answer as the same
    # system with the equations renumbered so that the rf modes come last in ascending order (a relabelling of the unknowns cannot change the solution)
    m5, b5, k5 = np.array([2.0, 1.0, 3.0, 1.5, 2.5]), np.array([0.3, 0.0, 0.5, 0.0, 0.2]), np.array([80.0, 5000.0, 300.0, 7000.0, 150.0])
    t5 = np.arange(0, 0.2, 0.002)
    F5 = np.vstack([np.sin((7 + 3 * i_) * t5) * (1 + i_) for i_ in range(5)])
    dyn, rfs = [0, 2, 4], [1, 3]
    perm = dyn + rfs                                  # renumbered system: dynamic equations first, rf last

    def bump5(d, j, h, kc=None):
        return -kc * np.maximum(d[:, j], 0.0) ** 2

    def run5(cls_, full, rfarg, order5, nl):
        P = order5
        mm, bb, kk = m5[P], b5[P], k5[P]
        if full:
            mm, bb, kk = np.diag(mm), np.diag(bb), np.diag(kk)
            i0, i1 = P.index(0), P.index(2)
            bb[i0, i1] = bb[i1, i0] = 0.05
        ts_ = cls_(mm, bb, kk, 0.002, rf=rfarg)
        if nl:
            # the nonlinear functions and their transforms live in the space of the non-rf equations (in the order those equations have in this numbering)
            nonrf = [e_ for e_ in P if e_ in dyn]
            Tn_ = np.zeros((3, 2)); Tn_[nonrf.index(0), 0] = 1.0; Tn_[nonrf.index(4), 1] = 1.0
            sel = [nonrf.index(0), nonrf.index(4)]
            ts_.def_nonlin({"bump": ((lambda d, j, h, kc=None, sel=sel: -kc * np.maximum(d[sel, j], 0.0) ** 2), Tn_, dict(kc=300.0))})
        so_ = ts_.tsolve(F5[P])
        inv = np.argsort(P)
        return so_.d[inv], so_.v[inv], so_.a[inv]
    ident = list(range(5))
    for cls_, nlset in ((ode.SolveNewmark, (False, True)), (ode.SolveCDF, (False,))):
        for full in (False, True):
            if cls_ is ode.SolveCDF and not full:
                continue
            for nl in nlset:
                ref5 = run5(cls_, full, [3, 4], perm, nl)
                for rfarg, ordering in (([1, 3], ident), ([3, 1], ident), (np.array([False, True, False, True, False]), ident), ([4, 3], perm)):
                    # (the last one: a contiguous block of rf modes listed in descending order)
                    got5 = run5(cls_, full, rfarg, ordering, nl)
                    ev += 1
                    sc5 = max(abs(ref5[0]).max(), 1e-12)
                    if not all(np.allclose(g_, r_, rtol=1e-9, atol=1e-9 * sc5) for g_, r_ in zip(got5, ref5)):
                        return ev, dict(what="%s with residual-flexibility modes given as %s%s differs from the same system renumbered with the rf modes last"
                                        % (cls_.__name__, np.asarray(rfarg).tolist(), " and nonlinear terms" if nl else ""), matrices="full" if full else "diagonal",
                                        max_difference=float(max(abs(g_ - r_).max() for g_, r_ in zip(got5, ref5))))
    # memory layout of the matrices (C order, Fortran order as read from op4 / Matlab files, transposed views, slices of larger arrays) is not part of the problem:
    # same solution, and the caller's matrices are not modified
    Ml = np.array([[2.0, 0.3, 0.0], [0.3, 1.5, 0.2], [0.0, 0.2, 3.0]])
    Kl = np.array([[90.0, -30.0, 0.0], [-30.0, 60.0, -20.0], [0.0, -20.0, 45.0]])
    Bl = np.array([[0.9, -0.2, 0.0], [-0.1, 0.6, -0.1], [0.0, -0.3, 0.4]])
    tl = np.arange(0, 0.2, 0.002)
    Fl = np.vstack((np.sin(9 * tl), np.cos(5 * tl) - 1, 0.3 * tl))
    big = lambda A: np.pad(A, ((1, 2), (2, 1)))[1:-2, 2:-1]
    layouts = {"C": lambda A: np.ascontiguousarray(A), "F": lambda A: np.asfortranarray(A), "transposed view": lambda A: np.ascontiguousarray(A.T).T, "slice of a larger array": big}
    for cls_, kw_ in ((ode.SolveNewmark, {}), (ode.SolveCDF, {}), (ode.SolveUnc, {}), (ode.SolveExp2, {})):
        ref_l = None
        for lname, lay in layouts.items():
            for which in ("all", "b only"):
                mats = [lay(A) if (which == "all" or nm_ == "b") else A.copy() for nm_, A in (("m", Ml), ("b", Bl), ("k", Kl))]
                if cls_ is ode.SolveCDF:
                    # SolveCDF: uncoupled mass and stiffness, coupled damping
                    mats[0], mats[2] = np.diag(Ml).copy(), np.diag(Kl).copy()
                keep = [A.copy() for A in mats]
                so_ = cls_(mats[0], mats[1], mats[2], 0.002, **kw_).tsolve(Fl)
                ev += 1
                if not all(np.array_equal(A, A0) for A, A0 in zip(mats, keep)):
                    return ev, dict(what="%s modified the caller's matrices (layout: %s)" % (cls_.__name__, lname))
                if ref_l is None:
                    ref_l = so_
                elif not all(np.allclose(getattr(so_, q_), getattr(ref_l, q_), rtol=1e-9, atol=1e-9 * abs(getattr(ref_l, q_)).max()) for q_ in "dva"):
                    return ev, dict(what="%s: the solution depends on the memory layout of the matrices (%s, %s) - differs from C-ordered input by %.3g"
                                    % (cls_.__name__, lname, which, abs(so_.d - ref_l.d).max()), layout=lname)
    r = [errs["newmark"][i] / errs["newmark"][i + 1] for i in range(2)]
    if not all(x > 1.7 for x in r):
        return ev, dict(what="SolveNewmark error does not shrink under step halving", ratios=r, errors=errs["newmark"])
    return ev, None


def run(tier, seed):
    run = report.Run(PID, tier, seed)
    run.trust("sympy (rational normal forms: together/cancel)", "z3 (nonlinear real arithmetic) for the Jury conditions", "vc.alg shims, vc.symla contracts of lu_factor/lu_solve/solve")
    run.assume("floats are reals", "sizes fixed: 2 dynamic equations (+1 residual-flexibility), nt = 2 and 4 (Newmark), nt = 3 (cd-as-force); every value symbolic; "
               "uniformity of the time loop beyond these lengths is assumed", "get_su_coef is under contract (abstract coefficients; property C01)",
               "stability is proved for the scalar (modal) recurrence; order: local truncation of the scalar recurrence")
    run.not_covered += ["global convergence for coupled non-proportional systems and with nonlinear terms (bounded float halving study only)",
                        "cd-as-force convergence order (bounded)", "pre_eig"]
    for rel, names in ((NM, ("__init__", "tsolve", "def_nonlin", "_newmark_precalcs", "_init_dva", "_get_nonlin")), (SU, ("__init__", "_solve_real_unc_cdforces", "tsolve")),
                       (BASE, ("_chk_diag_part", "_common_precalcs", "_calc_acce_kdof", "_init_dv", "_alloc_dva"))):
        for nd in ast.walk(ast.parse(report.read_source(rel))):
            if isinstance(nd, ast.FunctionDef) and nd.name in names:
                run.add_function(rel, nd.name, hashlib.sha256(ast.unparse(nd).encode()).hexdigest()[:16], {"note": "real function executed on symbolic inputs"})
    ncases = [("unc", "vector", False, False, "d0v0", 4), ("unc", "none", True, False, "d0v0", 4), ("unc", "vector", True, "quad", "d0", 3), ("unc", "vector", False, "lin", "d0v0", 4),
              ("unc", "singular", False, False, "d0v0", 4), ("unc", "vector", False, False, "zero", 2), ("unc", "vector", False, "quad", "d0", 2), ("unc", "none", False, "quad", "zero", 3), ("unc", "vector", False, "lin2", "d0v0", 3), ("coupled", "matrix", False, "lin2", "d0", 3),
              ("coupled", "matrix", False, False, "d0v0", 3), ("coupled", "none", True, False, "d0v0", 3), ("coupled", "matrix", False, "lin", "d0", 3),
              ("coupled", "singular", False, False, "d0v0", 3), ("coupled", "matrix", True, "quad", "d0v0", 2), ("coupled", "matrix", False, False, "zero", 4),
              ("coupled", "matrix", False, False, "v0", 3), ("unc", "vector", False, False, "v0", 3), ("coupled", "none", True, "lin", "v0", 2)]
    ccases = [(c, o, mf) for c in ("SolveUnc-cdf", "SolveCDF") for o in (0, 1) for mf in ("vector", "none")]
    P = report.pool()
    r1 = P.map_async(newmark_case, ncases, chunksize=1)
    r2 = P.map_async(cdf_case, ccases, chunksize=1)
    items, zo = newmark_scalar()
    vs = report.discharge_alg([(n_, e, NM, "post") for n_, e in items], budget=60)
    run.add_verdicts(vs)
    import z3
    for name, pre, goal in zo:
        t1 = time.time()
        s = z3.Solver()
        s.set("timeout", 30000)
        s.add(*pre)
        s.add(z3.Not(goal))
        r = s.check()
        st = "proved" if r == z3.unsat else ("failed" if r == z3.sat else "undecided")
        det = {"model": str(s.model())} if r == z3.sat else ({"reason": s.reason_unknown()} if r != z3.unsat else {})
        run.add_verdicts([report.Verdict(name, st, "z3-%s (NRA)" % z3.get_version_string(), time.time() - t1, "post", NM, det)])
    for rr, where in ((r1, NM), (r2, SU)):
        for lst in rr.get():
            for d in lst:
                run.add_verdicts([report.Verdict(d["name"], d["status"], "sympy-%s (cancel)" % sp.__version__, d["seconds"], "post", where, d["detail"])])
    ev, cf = report.guarded(run, cdf_diag_identity, seed)
    run.bounded.append(dict(name="float: SolveCDF with diagonal damping bit-identical to SolveUnc; SolveNewmark error vs exact solution under step halving (coupled 2-DOF)",
                            evaluations=ev, failures=0 if cf is None else 1, label="bounded (never counted as proved)"))
    failed = [v for v in run.verdicts if v.status == "failed"]
    if failed:
        v = failed[0]
        run.violation(v.name, "documented recurrence violated: " + "; ".join(x.name[:90] for x in failed[:5]),
                      dict(failed=[x.as_dict() for x in failed[:8]], concrete=v.detail), concrete=True)
    elif cf is not None:
        run.violation("bounded:" + cf["what"], cf["what"], dict(concrete=cf), concrete=True)
    return run.finish()


def replay(path):
    d = json.load(open(path))
    print(json.dumps(d.get("concrete"), indent=1)[:3000])
    return 1 if d.get("concrete") else 0
