"""C11 - readers decode every OUTPUT4 / OUTPUT2 file variant; listings match reads (DESIGN.md section C11).

Deductive part (z3, small): the reader-side arithmetic extracted from the real source by AST - format detection from the first record
length (all four legal binary headers, by exhaustive case analysis over the 32-bit word), skip distance of _skipop4_binary against the
record grammar, values-per-string computation of rdop2matrix for every (integer width, precision) combination, the nonbigmat/bigmat
string decoding (shared with C04).
Main part (bounded, labelled so): an encoder that shares no code with pyYeti (vc/nasenc.py) lays out matrices and tables in every
physical variant the formats permit - single/double, real/complex, 32/64-bit integers, both byte orders, dense/bigmat/nonbigmat, strings
split/merged at arbitrary places, strings long enough for the struct->fromfile cut-over, multi-part table records, E/D exponents and
several field widths in ASCII - and the real readers must return exactly the encoded content in every read mode; directory listings
must agree with the byte offsets the encoder recorded and with full reads; reading a named subset must equal filtering a full read.
"""
import struct, ast, hashlib, io, json, os, shutil, struct, sys, tempfile, time, traceback, warnings
import numpy as np
import z3
from vc import report, nasenc
from props import C04

PID = "C11"
OP4, OP2 = "pyyeti/nastran/op4.py", "pyyeti/nastran/op2.py"


def kernels():
    out = []
    t4 = ast.parse(report.read_source(OP4))
    t2 = ast.parse(report.read_source(OP2))
    # 1. format detection: run the REAL _decode_format on the four legal binary headers and on ASCII headers
    sys.path.insert(0, report.REPO)
    from pyyeti.nastran import op4 as _op4
    bad = []
    for endian in "<>":
        for bit64 in (False, True):
            hdr = struct.pack(endian + "i", 48 if bit64 else 24) + struct.pack(endian + ("3q" if bit64 else "3i"), 5, 7, 2)[:12]
            o = _op4.OP4()
            o._decode_format(hdr[:16])
            if o._ascii or o._endian != endian or o._bit64 != bit64:
                bad.append((endian, bit64))
    for txt in (b"       3       4       2       2A       1P,3E23.16", b"      12      -7       6       4NAME    "):
        o = _op4.OP4()
        o._decode_format(txt[:16])
        if not o._ascii:
            bad.append(("ascii", txt[:16]))
    out.append(dict(name="op4._decode_format::every legal header (record length 24 or 48, either byte order; ASCII 4I8 header) is classified as encoded - exhaustive over the legal first words",
                    status="failed" if bad else "proved", seconds=0.0, detail={"misclassified": [str(b) for b in bad]}))
    # 2. _skipop4_binary: after reading the marker (4) and icol (bi bytes) the remaining record plus end marker is reclen - bi + 4
    sk = C04._find_func(t4, ["OP4", "_skipop4_binary"])
    delta = C04._assign(sk, "delta")
    bi, reclen = z3.Ints("bi reclen")
    d = C04.zexpr(delta, {"bi": bi})
    seek = [n for n in ast.walk(sk) if isinstance(n, ast.Call) and isinstance(n.func, ast.Attribute) and n.func.attr == "seek"][0]
    dist = C04.zexpr(seek.args[0], {"reclen": reclen, "delta": d})
    out.append(C04._prove("op4._skipop4_binary::seek distance == rest of the column record + its end marker, for 4- and 8-byte integers", [z3.Or(bi == 4, bi == 8), reclen >= 3 * bi],
                          dist == (reclen - bi) + 4))
    # 3. rdop2matrix: n = (reclen - intsize) // bytes_per is the number of values the encoder put in a string
    rm = C04._find_func(t2, ["OP2", "rdop2matrix"])
    nexp = C04._assign(rm, "n")
    intsize, bper, nv = z3.Ints("intsize bytes_per nvalues")
    got = C04.zexpr(nexp, {"reclen": intsize + nv * bper, "intsize": intsize, "bytes_per": bper})
    out.append(C04._prove("op2.rdop2matrix::values per string == (record length - row word) / bytes per value for every integer width and precision", [z3.Or(intsize == 4, intsize == 8),
                          z3.Or(bper == 4, bper == 8), nv >= 0], got == nv))
    # 4. the word size used for single precision follows the file's integer width (what a 64-bit file needs)
    src = ast.unparse(rm)
    ok = "self._fbytes" in src and "self._rfrm" in src
    out.append(dict(name="op2.rdop2matrix::single-precision values are decoded with the per-file word size (self._rfrm / self._fbytes), not a fixed 4 bytes", status="proved" if ok else "failed",
                    seconds=0.0, detail={"note": "syntactic: the per-file format attributes are referenced"}))
    return out


# ------------------------------------------------------------------------------------------------------------------
def _mat(rng, nrow, ncol, cplx, density, longrun=0):
    M = rng.randn(nrow, ncol) * (rng.rand(nrow, ncol) < density)
    if cplx:
        M = M + 1j * rng.randn(nrow, ncol) * (M != 0)
    if longrun:
        M[2:2 + longrun, 0] = rng.randn(longrun) + (1j * rng.randn(longrun) if cplx else 0)
    if ncol > 2:
        M[:, 1] = 0
    return M


def _cast(M, mtype):
    if mtype in (1, 3):
        return M.astype(np.complex64 if mtype == 3 else np.float32).astype(complex if mtype == 3 else float)
    return M


def op4_bounded(seed, quick):
    sys.path.insert(0, report.REPO)
    from pyyeti.nastran import op4
    import scipy.sparse as sps
    rng = np.random.RandomState(seed)
    tmp = tempfile.mkdtemp(prefix="verif_c11_")
    ev = 0
    try:
        variants = [(e, b) for e in "<>" for b in (False, True)]
        for endian, bit64 in variants:
            for layout in ("dense", "bigmat", "nonbigmat"):
                for mtype in (1, 2, 3, 4):
                    for mode in ("runs", "split", "merge") if layout != "dense" else ("single",):
                        enc = nasenc.Op4Binary(endian, bit64)
                        mats = []
                        nmat = 2
                        for k in range(nmat):
                            long_ = 3100 if (k == 0 and mode in ("runs", "single") and (mtype in (2, 4) or quick is False)) else 0
                            nrow = long_ + 9 if long_ else rng.randint(1, 9)
                            M = _cast(_mat(rng, nrow, rng.randint(1, 5), mtype > 2, 0.5, long_), mtype)
                            name = "M%d" % k
                            enc.matrix(name, [list(M[:, c]) for c in range(M.shape[1])], mtype, 2 if k else 6, layout, lambda col, m=mode: nasenc.split_strings(col, rng, m))
                            mats.append((name.lower(), M))
                        fn = os.path.join(tmp, "x.op4")
                        open(fn, "wb").write(enc.bytes())
                        for rm in (False, True, None):
                            ev += 1
                            try:
                                with warnings.catch_warnings():
                                    warnings.simplefilter("ignore")
                                    names, got, forms, types = op4.load(fn, into="list", sparse=rm)
                                    listing = op4.dir(fn, verbose=False)
                                    sub = op4.load(fn, namelist=["m1"], into="list", sparse=rm)
                            except Exception as ex:
                                tb = traceback.extract_tb(ex.__traceback__)
                                return ev, dict(what="op4 reader raises on a file laid out per the OUTPUT4 format", endian=endian, bit64=bit64, layout=layout, mtype=mtype, strings=mode,
                                                read_mode=str(rm), exception="%r at %s:%s" % (ex, tb[-1].filename, tb[-1].lineno))
                            prob = []
                            if list(names) != [m[0] for m in mats]:
                                prob.append("names %s" % (names,))
                            for (nm, M), G, t in zip(mats, got, types):
                                A = G.toarray() if sps.issparse(G) else np.asarray(G)
                                if A.shape != M.shape or not np.array_equal(A, M):
                                    prob.append("matrix %s decoded wrong (shape %s vs %s, max diff %s)" % (nm, A.shape, M.shape, float(abs(A - M).max()) if A.shape == M.shape else None))
                                if t != mtype:
                                    prob.append("type %s" % t)
                            if list(listing[0]) != [m[0] for m in mats] or [tuple(s) for s in listing[1]] != [m[1].shape for m in mats] or list(listing[3]) != [mtype] * nmat:
                                prob.append("dir() listing %s %s %s" % (listing[0], listing[1], listing[3]))
                            if list(sub[0]) != ["m1"] or not np.array_equal(sub[1][0].toarray() if sps.issparse(sub[1][0]) else sub[1][0], mats[1][1]):
                                prob.append("reading the named subset ['m1'] differs from filtering a full read")
                            if prob:
                                return ev, dict(what="op4 reader does not decode an independently encoded file", endian=endian, bit64=bit64, layout=layout, mtype=mtype, strings=mode,
                                                read_mode=str(rm), problems=prob[:4])
        # ASCII: E and D exponents, several widths / values per line
        for width, digits, per, x, pfx in ((23, 16, 3, "E", True), (23, 16, 3, "D", True), (16, 9, 5, "E", True), (26, 17, 3, "D", True), (24, 16, 3, "E", False),
                                           (30, 22, 1, "E", True), (8, 1, 10, "E", True), (10, 3, 16, "E", False), (26, 17, 1, "D", False), (12, 5, 12, "E", True)):
            for layout in ("dense", "bigmat", "nonbigmat"):
                for mtype in (2, 4, 1):
                    for mode in ("runs", "split") if layout != "dense" else ("single",):
                        enc = nasenc.Op4Ascii(width, digits, per, x, prefix=pfx)
                        mats = []
                        for k in range(2):
                            M = _cast(_mat(rng, rng.randint(1, 9), rng.randint(1, 5), mtype > 2, 0.6), mtype)
                            if digits < 9:          # few digits: make the values exactly representable in the announced format so the expected result is exact
                                rnd_ = np.vectorize(lambda v_: float("%.*E" % (digits, v_)))
                                M = (rnd_(M.real) + 1j * rnd_(M.imag)) if np.iscomplexobj(M) else rnd_(M)
                            enc.matrix("A%d" % k, [list(M[:, c]) for c in range(M.shape[1])], mtype, 2, layout, lambda col, m=mode: nasenc.split_strings(col, rng, m))
                            mats.append(("a%d" % k, M))
                        fn = os.path.join(tmp, "x.op4")
                        open(fn, "w").write(enc.text())
                        for rm in (False, True, None):
                            ev += 1
                            try:
                                with warnings.catch_warnings():
                                    warnings.simplefilter("ignore")
                                    names, got, forms, types = op4.load(fn, into="list", sparse=rm)
                                    listing = op4.dir(fn, verbose=False)
                            except Exception as ex:
                                tb = traceback.extract_tb(ex.__traceback__)
                                return ev, dict(what="op4 ASCII reader raises on a file laid out per the OUTPUT4 format", width=width, exponent=x, layout=layout, mtype=mtype,
                                                exception="%r at %s:%s" % (ex, tb[-1].filename, tb[-1].lineno))
                            prob = []
                            for (nm, M), G in zip(mats, got):
                                A = G.toarray() if sps.issparse(G) else np.asarray(G)
                                if A.shape != M.shape or not np.allclose(A, M, rtol=(10.0 ** (1 - digits) * 5 if digits >= 9 else 1e-12), atol=0):
                                    prob.append("matrix %s decoded wrong" % nm)
                            if list(names) != [m[0] for m in mats] or list(listing[0]) != list(names) or [tuple(s) for s in listing[1]] != [m[1].shape for m in mats]:
                                prob.append("names / dir listing")
                            if prob:
                                return ev, dict(what="op4 ASCII reader does not decode an independently encoded file", width=width, exponent=x, layout=layout, mtype=mtype, strings=mode,
                                                read_mode=str(rm), problems=prob[:4])
        return ev, None
    finally:
        shutil.rmtree(tmp, ignore_errors=True)


def op4_subsets_bounded(seed, quick):
    """files that MIX physical variants per matrix (layout, precision, wide/ordinary ASCII header) and every name subset: reading a named subset == filtering a full read,
    the matrices after a skipped one are decoded exactly (the skipper leaves the reader at the next header)"""
    sys.path.insert(0, report.REPO)
    from pyyeti.nastran import op4
    import scipy.sparse as sps
    import itertools
    rng = np.random.RandomState(seed + 77)
    tmp = tempfile.mkdtemp(prefix="verif_c11_")
    ev = 0
    dense_of = lambda G: G.toarray() if sps.issparse(G) else np.asarray(G)
    try:
        files = []
        for rep in range(2 if quick else 24):
            for kind in ("binary<", "binary>", "binary<64", "asciiE", "asciiD", "ascii-wide"):
                nmat = 4
                if kind.startswith("binary"):
                    enc = nasenc.Op4Binary(kind[6], kind.endswith("64"))
                else:
                    enc = nasenc.Op4Ascii(*((23, 16, 3, "E") if kind != "asciiD" else (26, 17, 3, "D")))
                mats, big = [], False
                for k in range(nmat):
                    layout = ("dense", "bigmat", "nonbigmat")[rng.randint(3)]
                    mtype = (2, 4, 1, 3)[rng.randint(4)] if kind.startswith("binary") else (2, 4)[rng.randint(2)]
                    M = _cast(_mat(rng, rng.randint(1, 9), rng.randint(1, 5), mtype > 2, 0.6), mtype)
                    kw = {}
                    if k == 1 and rep % 2 == 1:
                        M = M[:, :0]                     # a matrix with no columns: header and trailing record only
                        kw = dict(nrow=M.shape[0])
                    if kind == "ascii-wide":
                        # wide headers on some matrices only, ordinary headers after them
                        w_ = (k in (0, 2)) if rep % 2 == 0 else (k == 1)
                        if w_:
                            kw = dict(kw, wide=True)
                            if k == 0 and rep % 2 == 0 and layout != "nonbigmat":
                                kw["nrow"] = 10_000_000 + M.shape[0]      # a dimension that really needs the wide header
                                M = (M, kw["nrow"])
                                big = True
                    m_ = M[0] if isinstance(M, tuple) else M
                    mode = "single" if layout == "dense" else ("runs", "split", "merge")[rng.randint(3)]
                    enc.matrix("S%d" % k, [list(m_[:, c]) for c in range(m_.shape[1])], mtype, 2, layout, lambda col, m=mode: nasenc.split_strings(col, rng, m), **kw)
                    mats.append(("s%d" % k, M, mtype))
                if rep % 2 == 1 and kind in ("binary<", "asciiE"):
                    # a repeated name: the matrix s0 once more at the end of the file with other values (list interface returns both, dict interface the last)
                    Mr_ = _cast(_mat(rng, 3, 2, False, 0.9), 2)
                    enc.matrix("S0", [list(Mr_[:, c]) for c in range(2)], 2, 2, "dense", lambda col: nasenc.split_strings(col, rng, "single"))
                    mats.append(("s0", Mr_, 2))
                fn = os.path.join(tmp, "s%d_%s.op4" % (rep, kind.replace("<", "le").replace(">", "be")))
                if kind.startswith("binary"):
                    open(fn, "wb").write(enc.bytes())
                else:
                    open(fn, "w").write(enc.text())
                files.append((kind, fn, mats, big))
        for kind, fn, mats, big in files:
            allnames = [m[0] for m in mats]
            def agrees(G, M):
                A = G if sps.issparse(G) else np.asarray(G)
                if isinstance(M, tuple):                          # announced rows beyond the encoded ones are zero
                    m_, nr = M
                    if A.shape != (nr, m_.shape[1]):
                        return False
                    A = sps.coo_matrix(A).tocsr()
                    top = A[:m_.shape[0]].toarray()
                    return A[m_.shape[0]:].count_nonzero() == 0 and (np.array_equal(top, m_) if kind.startswith("binary") else np.allclose(top, m_, rtol=1e-14, atol=0))
                A = dense_of(A)
                return A.shape == M.shape and (np.array_equal(A, M) if kind.startswith("binary") else np.allclose(A, M, rtol=1e-14, atol=0))
            allnames = [m[0] for m in mats]
            uniq = sorted(set(allnames), key=allnames.index)
            for rm in ((True,) if big else (False, True, None)):
                try:
                    with warnings.catch_warnings():
                        warnings.simplefilter("ignore")
                        full = op4.load(fn, into="list", sparse=rm)
                        listing = op4.dir(fn, verbose=False)
                except Exception as ex:
                    tb = traceback.extract_tb(ex.__traceback__)
                    return ev, dict(what="op4 reader raises on a file that mixes per-matrix variants", kind=kind, read_mode=str(rm), exception="%r at %s:%s" % (ex, tb[-1].filename, tb[-1].lineno),
                                    headers=[l for l in open(fn, errors="replace").read().split("\n") if "1P," in l][:6] if kind.startswith("ascii") else None)
                ev += 1
                prob = []
                if list(full[0]) != allnames or list(listing[0]) != allnames:
                    prob.append("names %s / dir %s" % (full[0], listing[0]))
                else:
                    for (nm, M, mt), G, t, shp in zip(mats, full[1], full[3], listing[1]):
                        if not agrees(G, M):
                            prob.append("matrix %s decoded wrong" % nm)
                        if t != mt or tuple(shp) != ((M[1], M[0].shape[1]) if isinstance(M, tuple) else M.shape):
                            prob.append("type/size of %s: %s %s" % (nm, t, tuple(shp)))
                if prob:
                    return ev, dict(what="op4 reader does not decode an independently encoded file that mixes per-matrix variants", kind=kind, read_mode=str(rm), problems=prob[:4])
                for r_ in range(1, len(uniq) + 1):
                    for sub in itertools.combinations(uniq, r_):
                        for order in ((list(sub), list(sub)[::-1]) if len(sub) == 2 else (list(sub),)):
                            ev += 1
                            try:
                                with warnings.catch_warnings():
                                    warnings.simplefilter("ignore")
                                    got = op4.load(fn, namelist=order, into="list", sparse=rm)
                                    gd = op4.load(fn, namelist=order, into="dct", sparse=rm) if len(sub) <= 2 else None
                            except Exception as ex:
                                tb = traceback.extract_tb(ex.__traceback__)
                                return ev, dict(what="reading a named subset raises although the full read of the same file succeeds", kind=kind, subset=order, read_mode=str(rm),
                                                exception="%r at %s:%s" % (ex, tb[-1].filename, tb[-1].lineno))
                            want = [i for i, n_ in enumerate(allnames) if n_ in sub]
                            ok = list(got[0]) == [allnames[i] for i in want] and list(got[2]) == [full[2][i] for i in want] and list(got[3]) == [full[3][i] for i in want]
                            if ok:
                                for i, G in zip(want, got[1]):
                                    F = full[1][i]
                                    same = (abs(sps.coo_matrix(G) - sps.coo_matrix(F)).count_nonzero() == 0 and G.shape == F.shape) if big else np.array_equal(dense_of(G), dense_of(F))
                                    ok = ok and same and (sps.issparse(G) == sps.issparse(F))
                            if ok and gd is not None:
                                lastidx = {allnames[i]: i for i in want}           # the dict interface keeps the LAST matrix of a repeated name, with or without a name list
                                ok = sorted(gd.keys()) == sorted(sub) and all(np.array_equal(dense_of(gd[n_][0]), dense_of(full[1][i_])) for n_, i_ in lastidx.items())
                            if not ok:
                                return ev, dict(what="reading a named subset differs from filtering a full read", kind=kind, subset=order, read_mode=str(rm), got_names=list(got[0]))
        return ev, None
    finally:
        shutil.rmtree(tmp, ignore_errors=True)


def op2_bounded(seed, quick):
    sys.path.insert(0, report.REPO)
    from pyyeti.nastran import op2
    rng = np.random.RandomState(seed + 11)
    tmp = tempfile.mkdtemp(prefix="verif_c11_")
    ev = 0
    try:
        for endian in "<>":
            for ib in (4, 8):
                for with_header in (True, False):
                    for mode in ("runs", "split", "merge"):
                        enc = nasenc.Op2(endian, ib)
                        if with_header:
                            enc.header()
                        content = []
                        for k, mtype in enumerate((2, 1, 4, 3)):
                            long_ = 3100 if (k < 2 and mode == "runs") else 0
                            M = _cast(_mat(rng, (long_ + 7) if long_ else rng.randint(1, 8), rng.randint(1, 5), mtype > 2, 0.5, long_), mtype)
                            nm = "MAT%d" % k
                            enc.matrix(nm, [list(M[:, c]) for c in range(M.shape[1])], mtype, 2, lambda col, m=mode: nasenc.split_strings(col, rng, m))
                            content.append((nm, "matrix", M))
                            if k in (0, 2):
                                recs = [[int(x) for x in rng.randint(-1000, 1000, rng.randint(3, 12))] for _ in range(rng.randint(1, 4))]
                                if k == 0:
                                    recs.append([int(x) for x in rng.randint(-5, 5, 3300)])
                                enc.table("TAB%d" % k, recs, split=(lambda kk, n: [n]) if mode == "runs" else (lambda kk, n: ([3, n - 3] if n > 6 else [n])))
                                content.append(("TAB%d" % k, "table", recs))
                        # a repeated matrix name
                        M2 = _mat(rng, 3, 2, False, 0.9)
                        enc.matrix("MAT0", [list(M2[:, c]) for c in range(2)], 2, 2, lambda col: nasenc.split_strings(col, rng, "runs"))
                        content.append(("MAT0", "matrix", M2))
                        enc.end()
                        fn = os.path.join(tmp, "x.op2")
                        open(fn, "wb").write(enc.bytes())
                        ev += 1
                        try:
                            with warnings.catch_warnings():
                                warnings.simplefilter("ignore")
                                o2 = op2.OP2(fn)
                                prob = []
                                if list(o2.names) != [c[0] for c in content]:
                                    prob.append("directory names %s" % (o2.names,))
                                else:
                                    for (nm, kind, val), mk, st, sp_, dt, tr in zip(content, enc.marks, o2.dbstarts, o2.dbstops, o2.dbtypes, o2.trailers):
                                        if (int(st), int(sp_)) != (mk[1], mk[2]) or int(dt) != mk[3]:
                                            prob.append("byte range/type of %s: directory [%d, %d) type %d, encoder [%d, %d) type %d" % (nm, st, sp_, dt, mk[1], mk[2], mk[3]))
                                        if kind == "matrix" and (tr[1], tr[2]) != (val.shape[1], val.shape[0]):
                                            prob.append("size of %s in the directory" % nm)
                                allm = o2.rdop2mats(which="all")
                                want = {}
                                for nm, kind, val in content:
                                    if kind == "matrix":
                                        want.setdefault(nm, []).append(val)
                                for nm, lst in want.items():
                                    got = allm.get(nm, [])
                                    if len(got) != len(lst) or not all(g.shape == w.shape and np.array_equal(g, w) for g, w in zip(got, lst)):
                                        prob.append("matrix %s decoded wrong (%d of %d returned)" % (nm, len(got), len(lst)))
                                sub = o2.rdop2mats(["MAT2", "mat1"])
                                if sorted(sub) != ["MAT1", "MAT2"] or not all(np.array_equal(sub[k_], want[k_][-1]) for k_ in sub):
                                    prob.append("reading a named subset differs from filtering a full read")
                                # name lists with a trailing-* wildcard and in any letter case: the result is the full read filtered by the documented matching rule
                                allnames = sorted(want)
                                for pats in (["mat*"], ["MAT*"], ["Mat1*"], ["m*", "zz*"], ["mat2", "MAT1*"], ["*"], ["x*"], ["mAt1"]):
                                    try:
                                        got_ = o2.rdop2mats(list(pats))
                                    except Exception as ex:          # noqa: BLE001
                                        prob.append("rdop2mats(%r) raises %r" % (pats, ex)); break
                                    exp_ = [n_ for n_ in allnames if any((n_.upper().startswith(p_[:-1].upper()) if p_.endswith("*") else n_.upper() == p_.upper()) for p_ in pats)]
                                    if sorted(got_) != exp_ or not all(np.array_equal(got_[k_], want[k_][-1]) for k_ in got_):
                                        prob.append("rdop2mats(%r) returns %s, the full read filtered by these patterns is %s" % (pats, sorted(got_), exp_)); break
                                # tables: positioned reads record by record; skipping leaves the reader at the next data block
                                for idx, (nm, kind, val) in enumerate(content):
                                    if kind != "table":
                                        continue
                                    o2.set_position(nm)
                                    name, trailer, dbtype = o2.rdop2nt()
                                    if name != nm or dbtype != 0:
                                        prob.append("rdop2nt at table %s -> %s" % (nm, name))
                                        continue
                                    for rec in val:
                                        g = o2.rdop2record()
                                        if list(map(int, g)) != rec:
                                            prob.append("table %s record decoded wrong" % nm)
                                            break
                                    # every record form, and plans that mix reading (in different forms) with skipping: the records after a multi-part one must come back
                                    # unchanged and the end of the table must be recognised (None) exactly after the last record
                                    fmt_i = {4: "i", 8: "q"}[ib]
                                    for plan in ("bytes", "uint", "int", "mixed1", "mixed2"):
                                        o2.set_position(nm)
                                        o2.rdop2nt()
                                        for kk, rec in enumerate(val):
                                            how = plan if not plan.startswith("mixed") else ("bytes", "skip", "int", "uint")[(kk + (plan == "mixed2")) % 4]
                                            if how == "skip":
                                                o2.skipop2record()
                                                continue
                                            g = o2.rdop2record(how)
                                            if how == "bytes":
                                                okr = isinstance(g, bytes) and g == struct.pack(endian + "%d%s" % (len(rec), fmt_i), *rec)
                                            elif how == "uint":
                                                okr = g is not None and [int(x) for x in g] == [x % (1 << (8 * ib)) for x in rec]
                                            else:
                                                okr = g is not None and [int(x) for x in g] == rec
                                            if not okr:
                                                prob.append("table %s record %d read as %r (plan %s) decoded wrong" % (nm, kk, how, plan))
                                                break
                                        else:
                                            if o2.rdop2record("bytes" if plan == "bytes" else None) is not None:
                                                prob.append("table %s: the end of the table is not recognised after its last record (plan %s)" % (nm, plan))
                                    o2.set_position(nm)
                                    o2.rdop2nt()
                                    for rec in val:
                                        o2.skipop2record()
                                    o2.rdop2eot()
                                    if idx + 1 < len(content):
                                        if o2._fileh.tell() != enc.marks[idx + 1][1]:
                                            prob.append("after skipping table %s the reader is at %d, next data block starts at %d" % (nm, o2._fileh.tell(), enc.marks[idx + 1][1]))
                                # skipping a matrix leaves the reader at the next block
                                o2.set_position("MAT1")
                                o2.rdop2nt()
                                o2.skipop2matrix()
                                k1 = [c[0] for c in content].index("MAT1")
                                if o2._fileh.tell() != enc.marks[k1 + 1][1]:
                                    prob.append("after skipop2matrix the reader is not at the next data block")
                                o2._fileh.close()
                        except Exception as ex:
                            tb = traceback.extract_tb(ex.__traceback__)
                            prob = ["exception %r at %s:%s" % (ex, tb[-1].filename, tb[-1].lineno)]
                        if prob:
                            return ev, dict(what="op2 reader does not decode an independently encoded file", endian=endian, int_bytes=ib, header=with_header, strings=mode, problems=prob[:5])
        return ev, None
    finally:
        shutil.rmtree(tmp, ignore_errors=True)


def encoder_sanity():
    """the encoder reproduces the key/record skeleton of a Nastran-written sample file (structure only): K2 name K-1 K7 trailer K-2 K1 K0 K* name K-3 K1 rectype ..."""
    fn = os.path.join(report.REPO, "pyyeti/tests/nastran_op2_data/double_le.op2")
    if not os.path.exists(fn):
        return None
    b = open(fn, "rb").read()

    def skeleton(b, n):
        pos, out = 0, []
        while pos < len(b) and len(out) < n:
            rl = struct.unpack("<i", b[pos:pos + 4])[0]
            out.append(("K", struct.unpack("<i", b[pos + 4:pos + 8])[0]) if rl == 4 else ("R", rl))
            pos += 8 + rl
        return out
    real = skeleton(b, 12)
    enc = nasenc.Op2("<", 4)
    rng = np.random.RandomState(0)
    enc.matrix("ZUZR01", [[0.0] * 25 for _ in range(31)], 2, 2, lambda col: [])
    mine = skeleton(enc.bytes(), 12)
    # a positive key that announces the length of the record following it may differ (the second name record is 2 or 4 words depending on the Nastran version)
    def lenkey(sk_, i):
        return sk_[i][0] == "K" and sk_[i][1] > 0 and i + 1 < len(sk_) and sk_[i + 1][0] == "R"
    same = [a == c or (a[0] == c[0] == "R") or (lenkey(real, i) and lenkey(mine, i)) for i, (a, c) in enumerate(zip(real, mine))]
    return dict(real=real, encoder=mine, agree=all(same))


def run(tier, seed):
    run = report.Run(PID, tier, seed)
    run.trust("z3 for the extracted reader arithmetic", "vc/nasenc.py: the independent encoder (format grammar); its record skeleton is compared with a Nastran-written sample file on every run")
    run.assume("the OUTPUT4/OUTPUT2 record layouts as transcribed in vc/nasenc.py from the format descriptions (OUTPUT4: header record, column records with dense / bigmat [L+1, irow] / "
               "nonbigmat [irow + 65536(L+1)] strings, trailer column ncol+1; OUTPUT2: key triplets, name/trailer/name records, per-column strings [row, values], end-of-record keys)",
               "in files with 64-bit integers every word, including a single-precision value, occupies 8 bytes")
    run.trust("vc.symex (VC generator) with contract objects: fp.read/seek, Struct.unpack, struct.unpack, np.fromfile act on a GHOST file (byte offset + uninterpreted content), "
              "put/init/retrn are opaque; contracts/op4_readers.py: the OUTPUT4 binary record grammar written as recursive well-formedness predicates")
    run.assume("binary OUTPUT4 reader contracts: the file is well formed per the grammar and long enough (short reads are not modelled); _put_binary_values* store the block they are "
               "given at (row, column) [checked only by the bounded differential part]; struct.unpack(fmt % n, bytes) returns n values when the byte count is n * itemsize; "
               "np.fromfile(fp, dtype, n) consumes n * itemsize bytes")
    run.not_covered += ["binary OUTPUT4: the column readers, the skipper and the tail of _loadop4_binary ARE verified deductively (loop invariants over a ghost file: every read matches its struct, "
                        "every put is the string the grammar defines, final position); its header loop and the ASCII readers are covered by the bounded differential check only",
                        "OUTPUT2: rdop2matrix and skipop2matrix (with _getkey inlined) ARE verified deductively against the record grammar (strings stored at the row / column / offset / count "
                        "the grammar defines, complex row doubling, decoder and skipper end on the same byte); rdop2record in every form (None/int/uint/double/single/bytes, N given or not) and skipop2record likewise (multi-part records: parts appended in order at the offsets the grammar defines, all forms and the skipper end behind the two closing keys); rdop2nt (name/trailer header consumed exactly as laid out); rdop2tabheaders, directory and set_position are bounded only",
                        "table-specific decoders (_rdop2bgpdt, rdn2cop2, rdparampost, ...)", "OUTPUT2 files written by other Nastran versions with extra header records"]
    for rel, names in ((OP4, ("_decode_format", "_skipop4_binary", "_rd_dense_binary", "_rd_bigmat_binary", "_rd_nonbigmat_binary", "_loadop4_binary", "_loadop4_ascii", "_skipop4_ascii")),
                       (OP2, ("rdop2matrix", "skipop2matrix", "rdop2nt", "rdop2record", "skipop2record", "rdop2tabheaders", "directory", "rdop2mats"))):
        for nd in ast.walk(ast.parse(report.read_source(rel))):
            if isinstance(nd, ast.FunctionDef) and nd.name in names:
                run.add_function(rel, nd.name, hashlib.sha256(ast.unparse(nd).encode()).hexdigest()[:16], {"note": "arithmetic extracted by AST / exercised by the bounded differential check"})
    try:
        for d in kernels() + [x for x in C04.kernel_obligations(("nonbigmat.IS-overflow",)) if "decoded" in x["name"] or "row written" in x["name"]]:
            run.add_verdicts([report.Verdict(d["name"], d["status"], "z3-%s" % z3.get_version_string(), d["seconds"], "post", OP4 if "op4" in d["name"] or "_rd_" in d["name"] else OP2, d["detail"])])
    except (LookupError, Exception) as ex:
        run.undecided.append("kernel extraction: %r" % ex)
    # loop contracts of the binary column readers / skipper on a ghost file (all files, all numbers of columns and strings)
    try:
        from vc import pipeline
        from contracts import op4_readers as OR
        src4 = report.read_source(OP4)
        pipeline.verify_jobs(run, OR.jobs(src4))
        from contracts import op2_readers as OR2
        pipeline.verify_jobs(run, OR2.jobs(report.read_source(OP2)) + OR2.record_jobs(report.read_source(OP2)) + OR2.nt_jobs(report.read_source(OP2)))
        n_inv, bad_inv = OR.open_read_invariant(src4)
        run.add_verdicts([report.Verdict("op4._op4open_read::class invariant of the precompiled structs (sizes, byte order, words per real) - real branch executed for {32,64}-bit x {<,>}",
                                         "undecided" if n_inv is None else ("failed" if bad_inv else "proved"), "exhaustive execution (finite domain)", 0.0, "post", OP4,
                                         {"checks": n_inv, "violated": bad_inv})])
    except Exception as ex:
        run.undecided.append("op4 reader contracts: checker error %r" % (ex,))
    sk = encoder_sanity()
    if sk is not None:
        run.add_verdicts([report.Verdict("encoder sanity::the independent OUTPUT2 encoder reproduces the key/record skeleton of the Nastran-written sample double_le.op2", "proved" if sk["agree"] else "undecided",
                                         "structural comparison", 0.0, "vacuity", OP2, sk if not sk["agree"] else {"items_compared": len(sk["real"])})])
    ev1, f1 = report.guarded(run, op4_bounded, seed, tier == "quick")
    run.bounded.append(dict(name="independent OUTPUT4 encoder -> real op4.load/dir: binary {byte order} x {32/64-bit} x {dense, bigmat, nonbigmat} x {types 1-4} x string partitions (maximal runs, split, "
                                 "merged with explicit zeros) x read modes, runs >= 3000 values; ASCII E/D exponents, widths 16/23/24/26, 3 or 5 per line; named subset; dir() listing",
                            evaluations=ev1, failures=0 if f1 is None else 1, label="bounded (never counted as proved)"))
    ev3, f3 = report.guarded(run, op4_subsets_bounded, seed, tier == "quick")
    run.bounded.append(dict(name="independent OUTPUT4 encoder, files mixing per-matrix variants (layout, precision, string partition, wide |I16 / ordinary ASCII headers incl. a 10,000,00x-row matrix): "
                                 "every subset of the names (both orders for pairs; list and dict interfaces) x read modes == filtering the full read; dir() listing",
                            evaluations=ev3, failures=0 if f3 is None else 1, label="bounded (never counted as proved)"))
    ev2, f2 = report.guarded(run, op2_bounded, seed, tier == "quick")
    run.bounded.append(dict(name="independent OUTPUT2 encoder -> real op2.OP2: {byte order} x {32/64-bit keys} x {with/without file header} x string partitions; matrices of types 1-4 incl. >= 3000-value "
                                 "strings, repeated names, multi-part table records (3300-word record); directory byte ranges vs encoder offsets, rdop2mats all/subset, record reads, skip positions",
                            evaluations=ev2, failures=0 if f2 is None else 1, label="bounded (never counted as proved)"))
    failed = [v for v in run.verdicts if v.status == "failed"]
    cf = f1 or f3 or f2
    if failed:
        v = failed[0]
        run.violation(v.name, "; ".join(x.name[:100] for x in failed[:5]), dict(failed=[x.as_dict() for x in failed[:8]], verifier_output=v.detail, concrete=cf), concrete=cf is not None)
    elif cf is not None:
        run.violation("bounded:" + cf["what"][:60], cf["what"], dict(concrete=cf), concrete=True)
    return run.finish()


def replay(path):
    d = json.load(open(path))
    print(json.dumps(d.get("concrete"), indent=1)[:3000])
    return 1 if d.get("concrete") else 0
