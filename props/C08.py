"""C08 - step-wise generator solution equals the batch solution for any send history (DESIGN.md section C08).

The REAL generator objects (SolveUnc real-uncoupled, SolveUnc/SolveCDF coupled-damping-as-force, SolveExp2) are driven on
solver instances whose integration coefficients are ABSTRACT symbols (modular: the generator is checked against the
coefficient contract, not against get_su_coef/getEPQ bodies).  For EVERY operation sequence up to a length bound
(send(i,f) with 1<=i<=cur+1, add-on send(-1,g)), with all forces / initial conditions symbolic, after EVERY operation the
arrays shared with the caller must equal, column for column up to the current step, what the real batch tsolve returns for
the force history then in effect (polynomial identity, sympy expand) - that is the representation invariant Gen(cur); the
hidden state (dmpfrc1, i_last) is covered because every (previous op, next op) pair occurs from a reachable state.
finalize() must return tsolve(final Force) incl. acceleration; get_f2x(phi) must equal the add-on sensitivity.
"""
import ast, hashlib, itertools, json, os, sys, time, traceback
import numpy as np
import sympy as sp
from vc import report, alg, symla

PID = "C08"
SU, SE, CDF, BASE = "pyyeti/ode/solveunc.py", "pyyeti/ode/solveexp2.py", "pyyeti/ode/solvecdf.py", "pyyeti/ode/_base_ode_class.py"
NT = 4


class NPG(alg.NumpyProxy):
    def eye(self, n, m=None, **k):
        return symla.toarr(sp.eye(n))

    def copy(self, a, **k):
        return np.array(a, dtype=object, copy=True).view(alg.SymArr) if np.asarray(a).dtype == object else np.copy(a, **k)


_POINT = None          # None: coefficients are symbols; otherwise a random.Random generating exact rational coefficient values


def _coef(name):
    if _POINT is None:
        return sp.Symbol(name, real=True)
    return sp.Rational(_POINT.randint(-2 ** 40, 2 ** 40), _POINT.randint(1, 2 ** 24))


def _symarr_like(x, name):
    x = np.asarray(x)
    out = np.empty(x.shape, dtype=object)
    fo = out.reshape(-1)
    for i in range(fo.size):
        fo[i] = alg.S(_coef("%s%d" % (name, i)))
    return out.view(alg.SymArr)


def _wit(reg):
    class W(dict):
        def __missing__(self, s):
            h = int(hashlib.sha256(str(s).encode()).hexdigest()[:6], 16)
            v = sp.Rational(h % 17 + 2, h % 5 + 3) * (-1) ** (h % 2)
            self[s] = v
            return v
    return W()


def build(cfg):
    """numeric construction of the real solver, then every coefficient field replaced by fresh symbols"""
    cls, order, rf, mform, ic = cfg
    su = alg.load_module(report.REPO, SU)
    se = alg.load_module(report.REPO, SE)
    cdf = alg.load_module(report.REPO, CDF)
    base = alg.load_module(report.REPO, BASE)
    mods = [su, se, cdf, base]
    n = 3 if rf else 2
    m = np.array([2.0, 3.0, 5.0])[:n]
    k = np.array([0.0, 50.0, 900.0])[:n]
    b = np.array([0.0, 0.7, 3.0])[:n]
    rfi = [2] if rf else None
    h = 0.01
    marg = None if mform == "none" else m
    if mform == "none":
        k = k.copy()
        m = np.ones(n)
    if cls in ("SolveUnc-cdf", "SolveCDF"):
        bm = np.diag(b)
        bm[0, 1], bm[1, 0] = 0.05, -0.02
        if cls == "SolveCDF":
            ts = cdf.SolveCDF(marg, bm, k, h, rb=[0], rf=rfi, order=order)
        else:
            ts = su.SolveUnc(marg, bm, k, h, rb=[0], rf=rfi, order=order, cd_as_force=True)
    elif cls == "SolveUnc":
        ts = su.SolveUnc(marg, b, k, h, rb=[0], rf=rfi, order=order)
    elif cls == "SolveExp2":
        ts = se.SolveExp2(marg, b, k, h, rb=[0], rf=rfi, order=order)
    elif cls == "SolveExp2-coupled":
        M = np.diag(m); M[0, 1] = M[1, 0] = 0.3
        K = np.diag(k); K[0, 0] = 40.0; K[0, 1] = K[1, 0] = -10.0
        Bm = np.diag(b); Bm[0, 1] = Bm[1, 0] = 0.1
        ts = se.SolveExp2(None if mform == "none" else M, Bm, K, h, rf=rfi, order=order)
    else:
        raise ValueError(cls)
    ks = ts.ksize
    # replace the coefficient fields by abstract symbols (same shapes)
    if cls.startswith("SolveUnc") or cls == "SolveCDF":
        for nm in ("F", "G", "A", "B", "Fp", "Gp", "Ap", "Bp"):
            setattr(ts.pc, nm, _symarr_like(getattr(ts.pc, nm), "c" + nm))
        ts.b = _symarr_like(ts.b, "b")
        ts.k = _symarr_like(ts.k, "k")
        if ts.m is not None:
            ts.invm = _symarr_like(ts.invm, "im")
        if ts.cdforces:
            bo = sp.Matrix(ks, ks, lambda i, j: 0 if i == j else _coef("bo%d%d" % (i, j)))
            ts.bo = symla.toarr(bo)
            Bp = sp.diag(*[alg.expr_of(x) for x in ts.pc.Bp])
            # documented: alpha = bo (I + Bp bo)^-1 = bo adj(I + Bp bo) / det; 1/det is kept as the symbol RDET (relation RDET*det == 1
            # is applied when an identity is decided), so that all intermediate expressions stay polynomial
            T = sp.eye(ks) + Bp * bo
            if _POINT is None:
                ts._verif_det = sp.expand(T.det())
                ts.pc.alpha = symla.toarr((bo * T.adjugate() * RDET).applyfunc(sp.expand))
            else:
                ts.pc.alpha = symla.toarr(bo * T.inv())
    else:
        for nm in ("E_dd", "E_dv", "E_vd", "E_vv", "P", "Q"):
            if isinstance(getattr(ts, nm, None), np.ndarray):
                setattr(ts, nm, _symarr_like(getattr(ts, nm), nm.replace("_", "")))
        if ts.unc:
            ts.b = _symarr_like(ts.b, "b")
            ts.k = _symarr_like(ts.k, "k")
            if ts.m is not None:
                ts.invm = _symarr_like(ts.invm, "im")
        else:
            ts.b = _symarr_like(ts.b, "b")
            ts.k = _symarr_like(ts.k, "k")
            if ts.m is not None:
                ts.invm = symla.LU(_symarr_like(np.zeros((ks, ks)), "mm"))
    if ts.rfsize:
        if ts.unc:
            ts.ikrf = _symarr_like(ts.ikrf, "ikrf")
        else:
            ts.ikrf = symla.LU(_symarr_like(np.zeros((ts.rfsize, ts.rfsize)), "krf"))
    return ts, mods, n


RDET = sp.Symbol("RDET", real=True)


def iszero(e, det):
    """is the polynomial e zero modulo RDET*det == 1 ?"""
    e = sp.expand(e)
    if e == 0:
        return True
    if det is None or RDET not in e.free_symbols:
        return sp.cancel(e) == 0
    p = sp.Poly(e, RDET)
    deg = p.degree()
    tot = sum(c * det ** (deg - k) for (k,), c in p.terms())
    return sp.expand(tot) == 0


def histories(maxlen):
    """all operation sequences of length <= maxlen; an add-on needs a preceding send; sends may redo/jump back (1 <= i <= cur+1)"""
    out = []

    def rec(seq, cur):
        if seq:
            out.append(tuple(seq))
        if len(seq) == maxlen:
            return
        for i in range(1, min(cur + 1, NT - 1) + 1):
            rec(seq + [("s", i)], i)
        if seq:
            rec(seq + [("a",)], cur)
    rec([], 0)
    return out


def _col(a, c):
    return [sp.expand(alg.expr_of(x)) for x in np.asarray(a)[:, c]]


def run_config(args):
    global _POINT
    cfg, maxlen = args[:2]
    point = args[2] if len(args) > 2 else None
    t0 = time.time()
    try:
        if point is not None:
            import random
            _POINT = random.Random("%s/%s" % (cfg, point))
        else:
            _POINT = None
        res = _run_config(cfg, maxlen, t0)
        if point is not None:
            for d in res:
                d["name"] = d["name"] + " [coefficients at random exact rational point %s]" % point
                d["detail"]["decision"] = "exact in forces and initial conditions; polynomial identity in the coefficients tested at a random exact rational point"
        return res
    except Exception as ex:
        tb = traceback.extract_tb(ex.__traceback__)
        last = tb[-1]
        inrepo = "/pyyeti/" in last.filename and "/verif/" not in last.filename
        line = (last.line or "").strip()
        st = "undecided"          # an exception on symbolic stand-ins is a tool limit, never a violation by itself (concrete arms report real exceptions)
        return [dict(name="generator%s::symbolic run completes" % (cfg,), status=st, seconds=time.time() - t0,
                     detail={"reason": "%r at %s:%s" % (ex, last.filename, last.lineno)})]


def _run_config(cfg, maxlen, t0):
    cls, order, rf, mform, ic = cfg
    ts, mods, n = build(cfg)
    det = getattr(ts, "_verif_det", None)
    reg = alg.HashRegime(str(cfg))
    extra = {mm.__name__: {"np": NPG(), "la": symla} for mm in mods}
    Fg = sp.Matrix(n, NT, lambda i, j: sp.Symbol("F%d_%d" % (i, j), real=True))
    d0 = [sp.Symbol("d0_%d" % i, real=True) for i in range(n)]
    v0 = [sp.Symbol("v0_%d" % i, real=True) for i in range(n)]
    kw = {}
    if ic == "d0v0":
        kw = dict(d0=alg.sym_array(d0), v0=alg.sym_array(v0))
    elif ic == "static":
        kw = dict(static_ic=True)
    res = []
    with alg.Multi(mods, reg, extra):
        # batch solution for a generic force history (the specification: the real tsolve)
        sol = ts.tsolve(symla.toarr(Fg), **kw)
        batch = {q: sp.Matrix(n, NT, lambda i, j: sp.expand(alg.expr_of(getattr(sol, q)[i, j]))) for q in "dva"}
        nfail, nchk, firstfail = 0, 0, None
        hs = histories(maxlen)
        for hist in hs:
            F0 = [Fg[i, 0] for i in range(n)]
            gen, d, v = ts.generator(NT, alg.sym_array(F0), **kw)
            force = {0: list(F0)}
            cur = 0
            for opi, op in enumerate(hist):
                if op[0] == "s":
                    i = op[1]
                    f = [sp.Symbol("f%d_%d" % (opi, r), real=True) for r in range(n)]
                    gen.send((i, alg.sym_array(f)))
                    force[i] = list(f)
                    cur = i
                else:
                    g = [sp.Symbol("g%d_%d" % (opi, r), real=True) for r in range(n)]
                    gen.send((-1, alg.sym_array(g)))
                    force[cur] = [a_ + b_ for a_, b_ in zip(force[cur], g)]
                # representation invariant: columns 0..cur equal the batch solution for the force history in effect
                sub = {Fg[r, c]: force[c][r] for c in range(cur + 1) for r in range(n)}
                for c in range(cur + 1):
                    for q, arr in (("d", d), ("v", v)):
                        got = _col(arr, c)
                        for r in range(n):
                            nchk += 1
                            want = batch[q][r, c].xreplace(sub)
                            if not iszero(got[r] - want, det):
                                nfail += 1
                                if firstfail is None:
                                    firstfail = dict(history=[list(o) for o in hist[:opi + 1]], quantity=q, row=r, column=c,
                                                     difference=str(sp.expand(got[r] - want))[:300])
            # complete the run, finalize, compare everything incl. acceleration
            for i in range(cur + 1, NT):
                f = [sp.Symbol("fc%d_%d" % (i, r), real=True) for r in range(n)]
                gen.send((i, alg.sym_array(f)))
                force[i] = list(f)
            fin = ts.finalize()
            sub = {Fg[r, c]: force[c][r] for c in range(NT) for r in range(n)}
            for q in "dva":
                arr = getattr(fin, q)
                for c in range(NT):
                    got = _col(arr, c)
                    for r in range(n):
                        nchk += 1
                        want = batch[q][r, c].xreplace(sub)
                        if not iszero(got[r] - want, det):
                            nfail += 1
                            if firstfail is None:
                                firstfail = dict(history=[list(o) for o in hist] + ["complete", "finalize"], quantity=q, row=r, column=c,
                                                 difference=str(sp.expand(got[r] - want))[:300])
        res.append(dict(name="generator%s::Gen(cur) after every operation of every history (<= %d ops, %d histories) and finalize == tsolve" % (cfg, maxlen, len(hs)),
                        status="failed" if nfail else "proved", seconds=time.time() - t0,
                        detail={"entries_compared": nchk, "mismatches": nfail, "first": firstfail, "histories": len(hs)}))
        # get_f2x: equals the sensitivity of phi @ d[:, i] (or v) to an add-on force applied through phi.T
        t1 = time.time()
        if order == 1:            # the property states the get_f2x clause for the first-order hold only
            phi = sp.Matrix(2, n, lambda i, j: sp.Symbol("phi%d%d" % (i, j), real=True))
            fI = [sp.Symbol("fI%d" % i, real=True) for i in range(2)]
            for velo in (False, True):
                gen, d, v = ts.generator(NT, alg.sym_array([Fg[i, 0] for i in range(n)]), **kw)
                gen.send((1, alg.sym_array([sp.Symbol("f0_%d" % r, real=True) for r in range(n)])))
                arr = v if velo else d
                before = sp.Matrix(_col(arr, 1))
                gmod = list(phi.T * sp.Matrix(fI))
                gen.send((-1, alg.sym_array(gmod)))
                after = sp.Matrix(_col(arr, 1))
                ts.finalize()
                flex = ts.get_f2x(symla.toarr(phi), velo)
                want = phi * (after - before)
                got = symla.tomat(flex) * sp.Matrix(fI)
                bad = [i for i in range(2) if not iszero(got[i] - want[i], det)]
                res.append(dict(name="get_f2x%s[velo=%s]::flex @ f == change of phi @ %s[:, i] caused by the add-on force phi.T @ f" % (cfg, velo, "v" if velo else "d"),
                                status="failed" if bad else "proved", seconds=time.time() - t1,
                                detail={"rows_failing": bad, "difference": str(sp.expand(got[bad[0]] - want[bad[0]]))[:300] if bad else None}))
    return res


def float_histories(seed, n_hist):
    """bounded: real float solvers incl. the complex (coupled, scipy eig) generator on random histories vs batch tsolve"""
    sys.path.insert(0, report.REPO)
    from pyyeti import ode
    rng = np.random.RandomState(seed)
    ev = 0
    n, nt = 4, 7
    A_ = rng.randn(n, n)
    M = A_ @ A_.T + n * np.eye(n)
    Bq = rng.randn(n, n)
    K = Bq @ Bq.T + 30 * n * np.eye(n)
    C_ = rng.randn(n, n)
    Bd = C_ @ C_.T * 0.3
    md, kd, bd = np.array([2.0, 3.0, 1.5, 4.0]), np.array([0.0, 80.0, 300.0, 5000.0]), np.array([0.0, 1.0, 2.5, 8.0])
    bcd = np.diag(bd).copy(); bcd[1, 2], bcd[2, 1], bcd[0, 1] = 0.3, -0.2, 0.1
    Gq = rng.randn(n - 2, n)
    Krb = Gq.T @ Gq * 40                                   # stiffness with two rigid-body modes; damping proportional to it, full mass: coupled path with rb modes
    mk = [("SolveUnc coupled (complex modes)", lambda o: ode.SolveUnc(M, Bd, K, 0.01, order=o)),
          ("SolveUnc coupled with two rigid-body modes", lambda o: ode.SolveUnc(M, 0.02 * Krb, Krb, 0.01, order=o)),
          ("SolveUnc modal system with two rigid-body modes and coupled elastic damping (complex path)",
           lambda o: ode.SolveUnc(np.array([2.0, 3.0, 1.5, 4.0]), np.array([[0, 0, 0, 0], [0, 0, 0, 0], [0, 0, 1.0, 0.3], [0, 0, -0.2, 2.5]]), np.array([0.0, 0.0, 80.0, 300.0]), 0.01, order=o)),
          ("SolveUnc coupled m=None", lambda o: ode.SolveUnc(None, Bd, K, 0.01, order=o)),
          ("SolveUnc diag rb+rf", lambda o: ode.SolveUnc(md, bd, kd, 0.01, rf=[3], order=o)),
          ("SolveCDF", lambda o: ode.SolveCDF(md, bcd, kd, 0.01, rf=[3], order=o)),
          ("SolveExp2 coupled", lambda o: ode.SolveExp2(M, Bd, K, 0.01, order=o))]
    for it in range(n_hist):
        for name, f in mk:
            for order in (0, 1):
                ts = f(order)
                F0 = rng.randn(n)
                d0, v0 = rng.randn(n), rng.randn(n)
                if "rf" in name or "CDF" in name:
                    d0[3] = v0[3] = 0.0
                # how the initial conditions are given: d0 and v0, static initial conditions, static + an initial velocity, v0 only, nothing
                ickw = [dict(d0=d0, v0=v0), dict(static_ic=True), dict(static_ic=True, v0=v0), dict(v0=v0), {}][(it + order) % 5]
                rbc = "rigid-body modes" in name
                if rbc and "static_ic" in ickw:
                    ickw = dict(v0=v0)            # a static initial state does not exist for a coupled system with a singular stiffness
                tolh = 1e-6 if rbc else 1e-8      # the zero eigenvalues of the coupled rigid-body system are defective: generator and batch agree to ~cond * eps only
                gen, d, v = ts.generator(nt, F0, **ickw)
                Force = np.zeros((n, nt)); Force[:, 0] = F0
                cur = 0
                for step in range(rng.randint(3, 14)):
                    r = rng.rand()
                    if cur and r < 0.25:
                        g = rng.randn(n)
                        # add-ons that touch only some equations (exact zeros elsewhere): only the last one (the rf mode where there is one), all but the last, one at random
                        pat = rng.randint(4)
                        if pat == 1:
                            g[:-1] = 0.0
                        elif pat == 2:
                            g[-1] = 0.0
                        elif pat == 3:
                            keep_ = rng.randint(n); g[np.arange(n) != keep_] = 0.0
                        gen.send((-1, g)); Force[:, cur] += g
                    else:
                        i = rng.randint(1, min(cur + 1, nt - 1) + 1)
                        fv = rng.randn(n); gen.send((i, fv)); Force[:, i] = fv; cur = i
                    ev += 1
                    ref = f(order).tsolve(Force[:, :cur + 1], **ickw)
                    sc = max(1.0, abs(ref.d).max(), abs(ref.v).max())
                    if abs(d[:, :cur + 1] - ref.d).max() > tolh * sc or abs(v[:, :cur + 1] - ref.v).max() > tolh * sc:
                        return ev, dict(solver=name, order=order, what="generator arrays differ from batch tsolve after a send history (%s, order %d)" % (name, order),
                                        max_diff_d=float(abs(d[:, :cur + 1] - ref.d).max()), cur=cur, initial_conditions=sorted(ickw))
                for i in range(cur + 1, nt):
                    fv = rng.randn(n); gen.send((i, fv)); Force[:, i] = fv
                sol = ts.finalize()
                ref = f(order).tsolve(Force, **ickw)
                ev += 1
                for q in "dva":
                    sc = max(1.0, abs(getattr(ref, q)).max())
                    if abs(getattr(sol, q) - getattr(ref, q)).max() > tolh * sc:
                        return ev, dict(solver=name, order=order, what="finalize() differs from batch tsolve in %s (%s, order %d)" % (q, name, order))
    return ev, None


def run(tier, seed):
    run = report.Run(PID, tier, seed)
    run.trust("sympy (polynomial/rational identity by expand/cancel)", "vc.alg symbolic shims; vc.symla contracts of lu_solve")
    run.assume("integration coefficients (pc.F..Bp, E/P/Q blocks, invm, ikrf, b, k, bo) are abstract symbols: the generator is verified against the coefficient "
               "contract, for ALL coefficient values; alpha is taken as its documented definition bo (I + Bp bo)^-1 (its construction in __init__ is checked in C17)",
               "sizes fixed: nt=4 time steps, 2 or 3 modal equations (rigid-body, elastic, optional residual-flexibility); all histories up to the stated length; "
               "longer histories follow by induction because each operation reads only (d, v, Force columns, dmpfrc1, i_last) and every (previous op, next op) "
               "combination is executed from a reachable state; uniformity of the loop body in the step index beyond nt=4 is assumed",
               "for the coupled-damping-as-force and coupled SolveExp2 configurations the long histories are decided exactly in the forces/initial conditions "
               "(the maps are linear in them) with the coefficient-polynomial identity tested at two random exact rational points (Schwartz-Zippel; error "
               "probability < 2^-30 per identity), and fully symbolically only for histories of <= 2 operations",
               "floats are reals: 'exactly' is decided as algebraic identity (bit-for-bit equality of the float results is not decided)")
    run.not_covered += ["get_f2x for order=0 (the property states it for the first-order hold; observed: it returns zeros although an add-on force "
                        "changes the residual-flexibility displacement of the current step)", "complex-modes generator (_solve_complex_unc_generator, scipy eig): bounded float histories only",
                        "pre_eig (generator raises NotImplementedError by design)", "callers writing into the shared arrays"]
    for rel, names in ((SU, ("generator", "_solve_real_unc_generator", "_solve_real_unc_generator_cdforces", "_solve_real_unc", "_solve_real_unc_cdforces",
                              "get_f2x", "_get_f2x_real_unc", "tsolve")), (SE, ("generator", "_solve_se2_generator", "get_f2x", "tsolve")),
                       (BASE, ("finalize", "_calc_acce_kdof", "_init_dva_part", "_init_dv", "_add_rf_flex", "_flex"))):
        for nd in ast.walk(ast.parse(report.read_source(rel))):
            if isinstance(nd, ast.FunctionDef) and nd.name in names:
                run.add_function(rel, nd.name, hashlib.sha256(ast.unparse(nd).encode()).hexdigest()[:16], {"note": "real function/generator object executed on symbolic inputs"})
    maxlen = 4 if tier == "quick" else 5
    cfgs = []
    for cls in ("SolveUnc", "SolveUnc-cdf", "SolveCDF", "SolveExp2"):
        for order in (0, 1):
            for rf in (False, True):
                cfgs.append((cls, order, rf, "vector", "d0v0"))
    cfgs += [("SolveUnc", 1, True, "none", "static"), ("SolveUnc-cdf", 1, True, "none", "zero"), ("SolveExp2", 1, True, "none", "static"),
             ("SolveExp2-coupled", 1, True, "matrix", "d0v0"), ("SolveExp2-coupled", 0, False, "none", "d0v0"), ("SolveCDF", 0, True, "vector", "static")]
    jobs = []
    for c in cfgs:
        if c[0] in ("SolveUnc", "SolveExp2"):
            jobs.append((c, maxlen))                      # fully symbolic coefficients
        else:
            jobs.append((c, 2))                           # fully symbolic, short histories (rational functions of the coefficients are expensive)
            jobs += [(c, maxlen, 1), (c, maxlen, 2)]      # all histories, coefficients at two random exact rational points
    outs = report.pool().map(run_config, jobs, chunksize=1)
    for lst in outs:
        for d in lst:
            be = "sympy-%s (expand/cancel%s)" % (sp.__version__, "; random exact rational coefficient point" if "random exact" in d["name"] else "")
            run.add_verdicts([report.Verdict(d["name"], d["status"], be, d["seconds"], "post", SU, d["detail"])])
    ev, cf = report.guarded(run, float_histories, seed, 5 if tier == "quick" else 120)
    run.bounded.append(dict(name="float: random send histories (redo, jump back, add-on) on the real solvers incl. the coupled/complex-modes generator vs batch tsolve",
                            evaluations=ev, failures=0 if cf is None else 1, label="bounded (never counted as proved)"))
    failed = [v for v in run.verdicts if v.status == "failed"]
    if failed:
        v = failed[0]
        run.violation(v.name, "generator state differs from the batch solution: " + "; ".join(x.name[:80] for x in failed[:5]),
                      dict(failed=[x.as_dict() for x in failed[:8]], concrete=v.detail.get("first") or v.detail), concrete=True)
    elif cf is not None:
        run.violation("bounded:float-histories", cf["what"], dict(concrete=cf), concrete=True)
    return run.finish()


def replay(path):
    d = json.load(open(path))
    print(json.dumps(d.get("concrete"), indent=1)[:3000])
    return 1 if d.get("concrete") else 0
