"""C15 - Norton-Thevenin coupling reproduces the directly coupled system (DESIGN.md section C15).

The real frclim.ntfl / frclim.calcAM (and cb.cbtf, which calcAM calls) run on symbolic apparent-mass arrays / system matrices.
ntfl: the interface acceleration and force it returns must satisfy BOTH physical coupling statements, source side
A = As - Ms^-1 F (i.e. Ms (As - A) = F) and load side F = Ml A, per frequency, for NON-symmetric multi-DOF apparent masses;
R = diag((Ms+Ml)^-1 Ms); TAM = SAM + LAM; array index order [dof, freq, dof].
calcAM: recovery-matrix form: AM_j times the boundary accelerance T (-W^2)(Z_j^-1) T^T is the identity (fs.fsolve under its
C02 contract); partition-vector form: column `direc` of AM is the boundary force cbtf needs to enforce a unit boundary
acceleration in that direction, in the caller's boundary order; cbtf's solution satisfies the full equations of motion.
"""
import warnings, ast, hashlib, json, os, sys, time, traceback
from types import SimpleNamespace
import numpy as np
import sympy as sp
from vc import report, alg, symla, npx

PID = "C15"
FR, CB, SU, BASE, UT, LOC = "pyyeti/frclim.py", "pyyeti/cb.py", "pyyeti/ode/solveunc.py", "pyyeti/ode/_base_ode_class.py", "pyyeti/ode/_utilities.py", "pyyeti/locate.py"
I_ = sp.I


class NPC(npx.NPX):
    def eye(self, n, m=None, **k):
        return symla.toarr(sp.eye(n))

    def ones(self, shape, dtype=float, order="C"):
        a = np.ones(shape)
        return self._obj(a)

    def diag(self, v, k=0):
        v = np.asarray(v)
        if v.dtype != object:
            return np.diag(v, k)
        if v.ndim == 1:
            out = self.zeros((v.size, v.size))
            for i in range(v.size):
                out[i, i] = v[i]
            return out
        return np.array([v[i, i] for i in range(min(v.shape))], dtype=object).view(alg.SymArr)

    def dot(self, a, b):
        return np.dot(np.asarray(a, dtype=object), np.asarray(b, dtype=object)).view(alg.SymArr)


MATHX = SimpleNamespace(pi=alg.S(sp.pi), sqrt=alg.MATH_SHIMS["sqrt"])      # cb.py uses math.pi / math.sqrt through the module attribute


def iszero(e):
    e = sp.expand(e)
    if e == 0:
        return True
    return sp.expand(sp.numer(sp.together(e))) == 0


def _guard(f, args, label):
    t0 = time.time()
    try:
        return f(args, t0)
    except Exception as ex:
        tb = traceback.extract_tb(ex.__traceback__)
        last = tb[-1]
        inrepo = "/pyyeti/" in last.filename and "/verif/" not in last.filename
        st = "undecided"          # an exception on symbolic stand-ins is a tool limit, never a violation by itself (concrete arms report real exceptions)
        return [dict(name="%s%s::symbolic run completes" % (label, args), status=st, seconds=time.time() - t0,
                     detail={"reason": "%r at %s:%s" % (ex, last.filename, last.lineno)})]


def csym(name):
    return sp.Symbol(name + "r", real=True) + I_ * sp.Symbol(name + "i", real=True)


def _ntfl_case(args, t0):
    r, nf, cplx = args
    fr = alg.load_module(report.REPO, FR)
    mk = (lambda nm: csym(nm)) if cplx else (lambda nm: sp.Symbol(nm, real=True))
    SAM = np.empty((r, nf, r), dtype=object)
    LAM = np.empty((r, nf, r), dtype=object)
    for i in range(r):
        for j in range(nf):
            for k in range(r):
                SAM[i, j, k] = alg.S(mk("s%d_%d_%d" % (i, j, k)))
                LAM[i, j, k] = alg.S(mk("l%d_%d_%d" % (i, j, k)))
    As = sp.Matrix(r, nf, lambda i, j: mk("as%d_%d" % (i, j)))
    freq = np.array([3.0, 7.5, 11.0][:nf])
    reg = alg.HashRegime("ntfl")
    with alg.Shimmed(fr, reg, {"np": NPC(), "la": symla}):
        out = fr.ntfl(SAM.view(alg.SymArr), LAM.view(alg.SymArr), symla.toarr(As), freq)
    res = []
    tag = "ntfl[r=%d, nf=%d, %s apparent masses, non-symmetric]" % (r, nf, "complex" if cplx else "real")
    bad = dict(source=[], load=[], R=[], TAM=[], pass_through=[])
    for j in range(nf):
        Ms = sp.Matrix(r, r, lambda a, b: alg.expr_of(SAM[a, j, b]))
        Ml = sp.Matrix(r, r, lambda a, b: alg.expr_of(LAM[a, j, b]))
        A = sp.Matrix(r, 1, lambda a, b: alg.expr_of(out.A[a, j]))
        F = sp.Matrix(r, 1, lambda a, b: alg.expr_of(out.F[a, j]))
        src = Ms * (As[:, j] - A) - F                # source: A = As - Ms^-1 F
        lod = F - Ml * A                             # load:   F = Ml A
        for a in range(r):
            if not iszero(src[a]):
                bad["source"].append((j, a))
            if not iszero(lod[a]):
                bad["load"].append((j, a))
        Mr = (Ms + Ml).inv() * Ms
        for a in range(r):
            if not iszero(alg.expr_of(out.R[a, j]) - Mr[a, a]):
                bad["R"].append((j, a))
            for b in range(r):
                if not iszero(alg.expr_of(out.TAM[a, j, b]) - (Ms[a, b] + Ml[a, b])):
                    bad["TAM"].append((j, a, b))
                if alg.expr_of(out.SAM[a, j, b]) != alg.expr_of(SAM[a, j, b]) or alg.expr_of(out.LAM[a, j, b]) != alg.expr_of(LAM[a, j, b]):
                    bad["pass_through"].append((j, a, b))
    for key, lab in (("source", "source side  Ms (As - A) == F  (A = As - Ms^-1 F) at every frequency"), ("load", "load side  F == Ml A  at every frequency"),
                     ("R", "R == diag((Ms+Ml)^-1 Ms)"), ("TAM", "TAM == SAM + LAM, index order [dof, freq, dof]"), ("pass_through", "SAM, LAM returned unchanged")):
        res.append(dict(name=tag + "::" + lab, status="failed" if bad[key] else "proved", seconds=time.time() - t0, detail={"failing": bad[key][:6]}))
    # frequency-length mismatch is refused
    try:
        with alg.Shimmed(fr, reg, {"np": NPC(), "la": symla}):
            fr.ntfl(SAM.view(alg.SymArr), LAM.view(alg.SymArr), symla.toarr(As), freq[:-1] if nf > 1 else np.array([1.0, 2.0]))
        ok = False
    except ValueError:
        ok = True
    res.append(dict(name=tag + "::incompatible frequency vector is refused (ValueError)", status="proved" if ok else "failed", seconds=0.0, detail={}))
    return res


def ntfl_case(args):
    return _guard(_ntfl_case, args, "ntfl")


def _system(nb, nq, coupled_qq=False):
    """symbolic Craig-Bampton-form system: b-set first in THIS construction, permuted by the caller"""
    n = nb + nq
    def blk(nm, sym=False):
        M = sp.zeros(n, n)
        for i in range(n):
            for j in range(n):
                if i >= nb and j >= nb:
                    if i == j:
                        M[i, j] = sp.Symbol("%sq%d" % (nm, i - nb), positive=True)
                else:
                    M[i, j] = sp.Symbol("%s%d%d" % (nm, i, j), real=True)
        return M
    m, b, k = blk("m"), blk("b"), blk("k")
    for i in range(nb):
        for j in range(nb, n):
            k[i, j] = 0
            k[j, i] = 0                         # Craig-Bampton form: no b-q stiffness coupling (precondition of cbtf, from its code)
    return m, b, k


def _perm(M, order):
    n = M.rows
    P = sp.zeros(n, n)
    for newi, oldi in enumerate(order):
        P[newi, oldi] = 1
    return P * M * P.T


def _cbtf_setup(bset):
    mods = [alg.load_module(report.REPO, p) for p in (FR, CB, SU, BASE, UT, LOC)]
    nb, nq = len(bset), 2
    n = nb + nq
    m0, b0, k0 = _system(nb, nq)
    # place construction index i (b first, then q) at physical position pos[i]
    qpos = [p for p in range(n) if p not in bset]
    pos = list(bset) + qpos
    order = [pos.index(p) for p in range(n)]         # physical p <- construction order[p]
    m, b, k = _perm(m0, order), _perm(b0, order), _perm(k0, order)
    return mods, m, b, k, nb, nq, n


def _cbtf_case(args, t0):
    bset, zero_hz = args
    mods, m, b, k, nb, nq, n = _cbtf_setup(bset)
    cbm = mods[1]
    f0 = sp.Symbol("f0", positive=True)
    freqs = [f0, 0] if zero_hz else [f0]
    acc = sp.Matrix(nb, len(freqs), lambda i, j: csym("a%d_%d" % (i, j)))
    reg = alg.HashRegime("cbtf")
    extra = {mm.__name__: {"np": NPC(), "la": symla} for mm in mods}
    extra[cbm.__name__]["math"] = MATHX
    with alg.Multi(mods, reg, extra):
        tf = cbm.cbtf(symla.toarr(m), symla.toarr(b), symla.toarr(k), symla.toarr(acc), alg.sym_array(freqs), np.array(bset))
    res = []
    tag = "cbtf[bset=%s, %s]" % (list(bset), "with 0 Hz" if zero_hz else "f > 0")
    qset = [p for p in range(n) if p not in bset]
    bad = dict(eom_q=[], eom_b=[], enforced=[], kin=[])
    for j, f in enumerate(freqs):
        W = 2 * sp.pi * f
        A = sp.Matrix(n, 1, lambda i, _: alg.expr_of(tf.a[i, j]))
        V = sp.Matrix(n, 1, lambda i, _: alg.expr_of(tf.v[i, j]))
        D = sp.Matrix(n, 1, lambda i, _: alg.expr_of(tf.d[i, j]))
        res_ = m * A + b * V + k * D
        for q in qset:
            if not iszero(res_[q]):                      # also at 0 Hz (v = 0, boundary d = 0): the q-set is loaded by the boundary inertia only
                bad["eom_q"].append((j, q))
        for bi, p in enumerate(bset):
            if not iszero(res_[p] - alg.expr_of(tf.frc[bi, j])):
                bad["eom_b"].append((j, p))
            if not iszero(A[p] - acc[bi, j]):
                bad["enforced"].append((j, p))
        for p in range(n):
            if f != 0:
                if not iszero(V[p] - I_ * W * D[p]) or not iszero(A[p] + W ** 2 * D[p]):
                    bad["kin"].append((j, p))
            elif p in bset and (alg.expr_of(tf.d[p, j]) != 0 or alg.expr_of(tf.v[p, j]) != 0):
                bad["kin"].append((j, p, "0 Hz boundary d, v must be 0"))
    for key, lab in (("eom_q", "q-set rows of M a + B v + K d == 0"), ("eom_b", "b-set rows of M a + B v + K d == frc (the returned boundary force)"),
                     ("enforced", "boundary acceleration equals the enforced one"), ("kin", "v == i W d and a == -W^2 d (f > 0); boundary d = v = 0 at 0 Hz")):
        res.append(dict(name=tag + "::" + lab, status="failed" if bad[key] else "proved", seconds=time.time() - t0, detail={"failing": bad[key][:6]}))
    return res


def cbtf_case(args):
    return _guard(_cbtf_case, args, "cbtf")


def _calcam_pv_case(args, t0):
    bset, = args
    mods, m, b, k, nb, nq, n = _cbtf_setup(bset)
    fr, cbm = mods[0], mods[1]
    f0 = sp.Symbol("f0", positive=True)
    freqs = [f0]
    reg = alg.HashRegime("calcAM-pv")
    extra = {mm.__name__: {"np": NPC(), "la": symla} for mm in mods}
    extra[cbm.__name__]["math"] = MATHX
    with alg.Multi(mods, reg, extra):
        AM = fr.calcAM([symla.toarr(m), symla.toarr(b), symla.toarr(k), np.array(bset)], alg.sym_array(freqs))
        cols = []
        for direc in range(nb):
            e = [1 if i == direc else 0 for i in range(nb)]
            cols.append(cbm.cbtf(symla.toarr(m), symla.toarr(b), symla.toarr(k), np.array(e, dtype=float), alg.sym_array(freqs), np.array(bset)))
    res = []
    tag = "calcAM[partition vector %s]" % (list(bset),)
    bad = []
    for j in range(len(freqs)):
        for direc in range(nb):
            for i in range(nb):
                if not iszero(alg.expr_of(AM[i, j, direc]) - alg.expr_of(cols[direc].frc[i, j])):
                    bad.append((i, j, direc))
    res.append(dict(name=tag + "::AM[:, j, c] is the boundary force that enforces a unit acceleration of boundary DOF c (caller's boundary order), shape [b, freq, b]",
                    status="failed" if bad or AM.shape != (nb, len(freqs), nb) else "proved", seconds=time.time() - t0, detail={"failing": bad[:6], "shape": list(AM.shape)}))
    # AM is the inverse accelerance: forces F_b on the boundary only produce boundary accelerations a_b with AM a_b == F_b
    W = 2 * sp.pi * f0
    Z = -W ** 2 * m + I_ * W * b + k
    bad = []
    AMm = sp.Matrix(nb, nb, lambda i, c: alg.expr_of(AM[i, 0, c]))
    # accelerance columns via Cramer-free residual form: for a_b = e_c the cbtf state x satisfies Z x = [frc on b; 0 on q]; so x = Z^-1 (S^T AM e_c) and
    # S x (-W^2) = e_c  <=>  S (-W^2) Z^-1 S^T AM = I.  Residual form avoids inverting Z: check Z x_c == S^T AM[:, c] with x_c from cbtf (done in cbtf obligations)
    for c in range(nb):
        D = sp.Matrix(n, 1, lambda i, _: alg.expr_of(cols[c].d[i, 0]))
        rhs = sp.zeros(n, 1)
        for bi, p in enumerate(bset):
            rhs[p] = AMm[bi, c]
        r_ = Z * D - rhs
        for p in range(n):
            if not iszero(r_[p]):
                bad.append((c, p))
        for bi, p in enumerate(bset):
            if not iszero(-W ** 2 * D[p] - (1 if bi == c else 0)):
                bad.append((c, p, "boundary acceleration"))
    res.append(dict(name=tag + "::AM is the inverse of the boundary accelerance: Z x = S^T AM e_c has boundary acceleration e_c (force on the boundary only)",
                    status="failed" if bad else "proved", seconds=time.time() - t0, detail={"failing": bad[:6]}))
    return res


def calcam_pv_case(args):
    return _guard(_calcam_pv_case, args, "calcAM-pv")


def _calcam_drm_case(args, t0):
    nb = args[0]
    selection = len(args) > 1 and args[1] == "one entry per row"      # a recovery matrix that picks one DOF per row with a factor (sign flip / scale), not necessarily +1
    fr = alg.load_module(report.REPO, FR)
    n = 3
    m = sp.Matrix(n, n, lambda i, j: sp.Symbol("m%d%d" % (min(i, j), max(i, j)), real=True))
    b = sp.Matrix(n, n, lambda i, j: sp.Symbol("b%d%d" % (i, j), real=True))
    k = sp.Matrix(n, n, lambda i, j: sp.Symbol("k%d%d" % (min(i, j), max(i, j)), real=True))
    T = sp.Matrix(nb, n, lambda i, j: sp.Symbol("t%d%d" % (i, j), real=True))
    if selection:
        T = sp.Matrix(nb, n, lambda i, j: sp.Symbol("t%d%d" % (i, j), real=True) if j == (2 * i) % n else 0)
    f0, f1 = sp.symbols("f0 f1", positive=True)
    freqs = [f0, f1]
    # the acceleration response operator G_j = -W_j^2 Z_j^-1 of the system at frequency j: abstract (any matrix), non-symmetric
    G = [sp.Matrix(n, n, lambda a_, c_, j=j: sp.Symbol("g%d_%d%d" % (j, a_, c_), real=True)) for j in range(len(freqs))]
    calls = []

    class FS:
        """frequency-domain solver under its C02 contract: fsolve(F, freq).a[:, j] = (-W_j^2 Z_j^-1) F[:, j] =: G_j F[:, j]"""
        def fsolve(self, F, freq):
            Fm = symla.tomat(F)
            ok = [alg.expr_of(x) for x in np.asarray(freq)] == freqs
            calls.append(ok)
            return SimpleNamespace(a=symla.toarr(sp.Matrix.hstack(*[G[j] * Fm[:, j] for j in range(len(freqs))])))
    reg = alg.HashRegime("calcAM-drm")
    with alg.Shimmed(fr, reg, {"np": NPC(), "la": symla}):
        AM = fr.calcAM([symla.toarr(m), symla.toarr(b), symla.toarr(k), symla.toarr(T)], alg.sym_array(freqs), fs=FS())
    res = []
    tag = "calcAM[recovery matrix %dx%d%s]" % (nb, n, ", one entry per row" if selection else "")
    bad = []
    for j, f in enumerate(freqs):
        H = T * G[j] * T.T                       # boundary accelerance: acceleration at the recovered DOF per unit force applied through T^T
        AMj = sp.Matrix(nb, nb, lambda a, c: alg.expr_of(AM[a, j, c]))
        P = AMj * H
        for a in range(nb):
            for c in range(nb):
                if not iszero(P[a, c] - (1 if a == c else 0)):
                    bad.append((j, a, c))
    res.append(dict(name=tag + "::AM[:, j, :] @ (T G_j T^T) == I for every frequency, G_j = -W^2 Z_j^-1 abstract and non-symmetric (apparent mass is the inverse boundary accelerance)",
                    status="failed" if (bad or not all(calls) or not calls) else "proved", seconds=time.time() - t0,
                    detail={"failing": bad[:6], "fsolve_calls": len(calls), "freq_passed_through": all(calls), "shape": list(AM.shape)}))
    return res


def calcam_drm_case(args):
    return _guard(_calcam_drm_case, args, "calcAM-drm")


def float_coupled(seed, n_it):
    """bounded float: ntfl(calcAM(source), calcAM(load)) vs directly solving the physically coupled system; both boundary forms"""
    sys.path.insert(0, report.REPO)
    from pyyeti import frclim, ode
    rng = np.random.RandomState(seed)
    ev = 0
    # a model that is boundary only (every DOF is a boundary DOF, no modal DOF), with damping: the apparent mass is the dynamic stiffness over -W^2,
    #   AM(W) = M - i B / W - K / W^2   (force per unit enforced acceleration), for the partition-vector form in any boundary order
    for nbo in (1, 3):
        A_ = rng.randn(nbo, nbo); Mb = A_ @ A_.T + nbo * np.eye(nbo)
        A_ = rng.randn(nbo, nbo); Bb = 0.3 * (A_ @ A_.T) + 0.1 * np.eye(nbo)
        A_ = rng.randn(nbo, nbo); Kb = 40 * (A_ @ A_.T) + 5 * np.eye(nbo)
        fqb = np.array([0.7, 2.0, 9.0])
        for bd_ in (list(range(nbo)), list(range(nbo))[::-1]):
            with warnings.catch_warnings():
                warnings.simplefilter("ignore")
                AMb = frclim.calcAM([Mb, Bb, Kb, np.array(bd_)], fqb)
            ev += 1
            Wb = 2 * np.pi * fqb
            ixb = np.ix_(bd_, bd_)
            want_b = np.stack([Mb[ixb] - 1j * Bb[ixb] / w_ - Kb[ixb] / w_ ** 2 for w_ in Wb], axis=1)
            if AMb.shape != want_b.shape or not np.allclose(AMb, want_b, rtol=1e-9, atol=1e-12):
                return ev, dict(what="calcAM of a boundary-only model (no modal DOF) with damping differs from M - i B/W - K/W^2", boundary_dof=bd_,
                                max_difference=float(abs(AMb - want_b).max()) if AMb.shape == want_b.shape else None)
    for it in range(n_it):
        ns, nl, nb = 5, 4, 2

        def rnd(n, rigid=True):
            A_ = rng.randn(n, n)
            M = A_ @ A_.T + n * np.eye(n)
            # free-free stiffness: K = L L^T with rows summing to zero on a chain
            K = np.zeros((n, n))
            for i in range(n - 1):
                kk = rng.uniform(50, 500)
                K[i, i] += kk; K[i + 1, i + 1] += kk; K[i, i + 1] -= kk; K[i + 1, i] -= kk
            B = 0.002 * K          # stiffness-proportional: the rigid-body modes are undamped (damped rigid-body modes: see rb_damping_witness)
            return M, B, K
        Ms, Bs, Ks = rnd(ns)
        Ml, Bl, Kl = rnd(nl)
        freq = np.sort(rng.uniform(0.5, 6.0, 5))
        if it % 2:
            freq = freq[::-1].copy()
        bs = rng.choice(ns, nb, replace=False)          # boundary DOF of the source (any order)
        bl = rng.choice(nl, nb, replace=False)
        Ts = np.zeros((nb, ns)); Ts[np.arange(nb), bs] = 1
        Tl = np.zeros((nb, nl)); Tl[np.arange(nb), bl] = 1
        Fext = rng.randn(ns)                             # external force on the source
        SAM = frclim.calcAM([Ms, Bs, Ks, Ts], freq)
        LAM = frclim.calcAM([Ml, Bl, Kl, Tl], freq)
        # free acceleration of the source boundary
        As = np.empty((nb, freq.size), complex)
        A_ref = np.empty((nb, freq.size), complex)
        F_ref = np.empty((nb, freq.size), complex)
        for j, f in enumerate(freq):
            w = 2 * np.pi * f
            Zs = -w * w * Ms + 1j * w * Bs + Ks
            Zl = -w * w * Ml + 1j * w * Bl + Kl
            As[:, j] = Ts @ (-w * w * np.linalg.solve(Zs, Fext))
            # coupled: unknowns xs, xl, interface force lam: Zs xs = Fext - Ts^T lam ; Zl xl = Tl^T lam ; Ts xs = Tl xl
            nn = ns + nl + nb
            G = np.zeros((nn, nn), complex); rhs = np.zeros(nn, complex)
            G[:ns, :ns] = Zs; G[:ns, ns + nl:] = Ts.T
            G[ns:ns + nl, ns:ns + nl] = Zl; G[ns:ns + nl, ns + nl:] = -Tl.T
            G[ns + nl:, :ns] = Ts; G[ns + nl:, ns:ns + nl] = -Tl
            rhs[:ns] = Fext
            x = np.linalg.solve(G, rhs)
            A_ref[:, j] = -w * w * (Ts @ x[:ns])
            F_ref[:, j] = x[ns + nl:]
        r = frclim.ntfl(SAM, LAM, As, freq)
        ev += 1
        sc = abs(A_ref).max()
        if not (np.allclose(r.A, A_ref, rtol=1e-6, atol=1e-8 * sc) and np.allclose(r.F, F_ref, rtol=1e-6, atol=1e-8 * abs(F_ref).max())):
            return ev, dict(what="ntfl interface acceleration/force differ from the directly coupled system", max_err_A=float(abs(r.A - A_ref).max()),
                            max_err_F=float(abs(r.F - F_ref).max()), freq=freq.tolist())
    return ev, None


def rb_damping_witness():
    """known finding (shared with C02): the uncoupled frequency-domain path of SolveUnc (also reached through pre_eig=True, calcAM's default
    solver) solves every mode with |k| < 0.005 as a = F/m, ignoring damping acting on that mode.  Witness: free-free chain with
    mass-proportional damping B = 0.01 M; calcAM (recovery-matrix form) vs the inverse of the boundary accelerance computed with NumPy."""
    sys.path.insert(0, report.REPO)
    from pyyeti import frclim
    import warnings
    rng = np.random.RandomState(0)
    n, nb = 5, 2
    A_ = rng.randn(n, n)
    M = A_ @ A_.T + n * np.eye(n)
    K = np.zeros((n, n))
    for i in range(n - 1):
        kk = rng.uniform(50, 500)
        K[i, i] += kk; K[i + 1, i + 1] += kk; K[i, i + 1] -= kk; K[i + 1, i] -= kk
    B = 0.002 * K + 0.01 * M
    freq = np.array([1.1, 1.26, 1.37, 1.84, 4.1])
    T = np.zeros((nb, n)); T[0, 3] = T[1, 1] = 1
    with warnings.catch_warnings():
        warnings.simplefilter("ignore")
        AM = frclim.calcAM([M, B, K, T], freq)
    worst = 0.0
    for j, f in enumerate(freq):
        w = 2 * np.pi * f
        Z = -w * w * M + 1j * w * B + K
        Hi = np.linalg.inv(T @ (-w * w * np.linalg.solve(Z, T.T)))
        worst = max(worst, abs(AM[:, j, :] - Hi).max() / abs(Hi).max())
    return dict(fails=bool(worst > 1e-8), worst_relative_error=float(worst))


def run(tier, seed):
    run = report.Run(PID, tier, seed)
    run.trust("sympy (rational normal forms: numerator of together, expand)", "vc.alg shims; vc.symla contracts of solve/inv")
    run.assume("floats are exact complex numbers", "sizes fixed: 2 interface DOF (3 for one ntfl case), 1-3 frequencies; all entries symbolic, apparent masses NON-symmetric",
               "recovery-matrix form: the frequency-domain solver passed as `fs` is under its C02 contract (a = -W^2 Z^-1 F); the default construction "
               "SolveUnc(pre_eig=True) / FreqDirect fallback is covered by the bounded float run only",
               "cbtf precondition taken from its code: no b-q stiffness coupling (Craig-Bampton form); q-q blocks diagonal (uncoupled fsolve path, see C02)")
    run.not_covered += ["vanishing-frequency limit of the apparent mass == rigid-body mass (a limit statement about the model)", "conditioning near resonances"]
    for rel, names in ((FR, ("ntfl", "calcAM")), (CB, ("cbtf",))):
        for nd in ast.walk(ast.parse(report.read_source(rel))):
            if isinstance(nd, ast.FunctionDef) and nd.name in names:
                run.add_function(rel, nd.name, hashlib.sha256(ast.unparse(nd).encode()).hexdigest()[:16], {"note": "real function executed on symbolic inputs"})
    P = report.pool()
    jobs = [(ntfl_case, (2, 2, True)), (ntfl_case, (2, 1, False)), (ntfl_case, (1, 3, True)),
            (cbtf_case, ((3, 0), False)), (cbtf_case, ((0, 1), True)), (cbtf_case, ((2, 1), True)),
            (calcam_pv_case, ((3, 0),)), (calcam_pv_case, ((0, 2),)), (calcam_drm_case, (2,)), (calcam_drm_case, (1,)), (calcam_drm_case, (2, "one entry per row"))]
    rs = [P.apply_async(f, (a,)) for f, a in jobs]
    for (f, a), r in zip(jobs, rs):
        for d in r.get():
            run.add_verdicts([report.Verdict(d["name"], d["status"], "sympy-%s (together/expand)" % sp.__version__, d["seconds"], "post", FR, d["detail"])])
    ev, cf = report.guarded(run, float_coupled, seed, 4 if tier == "quick" else 300)
    run.bounded.append(dict(name="float: ntfl(calcAM(source), calcAM(load), free acceleration) vs a direct solve of the physically coupled system "
                                 "(random free-free chains, 2 interface DOF in arbitrary order, recovery-matrix form, default solver construction)",
                            evaluations=ev, failures=0 if cf is None else 1, label="bounded (never counted as proved)"))
    kfw = rb_damping_witness()
    kf = [k_ for k_ in run.known if k_.get("obligation") == "fsolve.rigid-body-damping"]
    run.bounded.append(dict(name="known-finding witness: calcAM on a free-free system with mass-proportional damping (damped rigid-body modes)", evaluations=1,
                            failures=int(kfw["fails"]), detail=kfw, label="bounded"))
    if kf and kf[0].get("status") == "open":
        run.known_finding(kf[0], kfw["fails"])
    elif kfw["fails"]:
        run.violation("fsolve.rigid-body-damping", "calcAM differs from the inverse accelerance when rigid-body modes are damped", dict(concrete=kfw), concrete=True)
    failed = [v for v in run.verdicts if v.status == "failed"]
    if failed:
        v = failed[0]
        run.violation(v.name, "coupling obligation fails: " + "; ".join(x.name[:90] for x in failed[:5]),
                      dict(failed=[x.as_dict() for x in failed[:8]], concrete=v.detail), concrete=True)
    elif cf is not None:
        run.violation("bounded:coupled-system", cf["what"], dict(concrete=cf), concrete=True)
    return run.finish()


def replay(path):
    d = json.load(open(path))
    print(json.dumps(d.get("concrete"), indent=1)[:3000])
    return 1 if d.get("concrete") else 0
