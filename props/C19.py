"""C19 - PSD and signal utilities conserve what they claim to conserve (DESIGN.md section C19).

Proved with the real functions:
  psd.area     (sympy)  every segment equals the integral of the log-log interpolation p1 (x/f1)^s dx for a generic slope and for the
                        slope exactly -1 (the log branch); areas add over segments and columns
  psd.interp   (sympy)  reproduces the specification at its own frequencies and equals p1 (f/f1)^s inside a segment (interp1d under contract)
  dsp.resample (sympy)  length ceil(n p / q), constants reproduced exactly, original samples kept when upsampling (filter taps at multiples
                        of p), n-D data along any axis = lane-wise 1-D resampling with the data axis restored (lfilter under contract)
  dsp._find_closest_times / _find_closest_previous_times (z3, all paths, symbolic times): nearest (ties -> earlier) / latest-not-after sample
Bounded (float): psd.rescale band conservation, the |s+1| < 1e-5 band of area, fixtime end to end, Lanczos accuracy.
"""
import ast, hashlib, itertools, json, math, os, sys, time, traceback, types
import numpy as np
import sympy as sp
import z3
from vc import report, alg, symla, npx, dse

PID = "C19"
PSD, DSP = "pyyeti/psd.py", "pyyeti/dsp.py"


def _guard(f, args, label):
    t0 = time.time()
    try:
        return f(args, t0)
    except Exception as ex:
        tb = traceback.extract_tb(ex.__traceback__)
        last = tb[-1]
        inrepo = "/pyyeti/" in last.filename and "/verif/" not in last.filename
        st = "undecided"          # an exception on symbolic stand-ins is a tool limit, never a violation by itself (concrete arms report real exceptions)
        return [dict(name="%s%s::symbolic run completes" % (label, args), status=st, seconds=time.time() - t0,
                     detail={"reason": "%r at %s:%s" % (ex, last.filename, last.lineno)})]


def _dec(items, t0, budget=150):
    out = []
    for name, e in items:
        st, det = alg.prove_zero(sp.sympify(e), budget=budget)
        out.append(dict(name=name, status=st, seconds=time.time() - t0, detail=det))
    return out


def sym_interp1d(x, y, axis=0, bounds_error=False, fill_value=0, assume_sorted=True, **kw):
    """assumed contract of scipy.interpolate.interp1d (linear): piecewise-linear through the knots, fill_value outside"""
    xs = [alg.expr_of(v) for v in np.asarray(x)]
    Y = np.asarray(y)

    def f(q):
        q = np.atleast_1d(q)
        out = np.empty((q.shape[0],) + Y.shape[1:], dtype=object)
        for k, qq in enumerate(q):
            qe = alg.S(alg.expr_of(qq))
            if qe < alg.S(xs[0]) or qe > alg.S(xs[-1]):
                out[k] = fill_value
                continue
            for i in range(len(xs) - 1):
                if qe <= alg.S(xs[i + 1]):
                    t = (qe - xs[i]) / alg.S(xs[i + 1] - xs[i])
                    out[k] = Y[i] + (Y[i + 1] - Y[i]) * t
                    break
        return out.view(alg.SymArr)
    return f


def _area_case(args, t0):
    kind, = args
    psd = alg.load_module(report.REPO, PSD)
    f1 = sp.Symbol("f1", positive=True)
    L1, L2 = sp.symbols("L1 L2", positive=True)            # ln(f2/f1), ln(f3/f2)
    p1, q1 = sp.symbols("p1 q1", positive=True)
    s1, s2, r1 = sp.symbols("s1 s2 r1", real=True)
    if kind == "generic":
        S = (s1, s2, r1, sp.Integer(-1) * 0 + s2)
    elif kind == "minus-one":
        S = (sp.Integer(-1), s2, sp.Integer(-1), sp.Integer(-1))
    else:
        S = (s1, sp.Integer(-1), sp.Integer(0), s2)
    f2, f3 = f1 * sp.exp(L1), f1 * sp.exp(L1 + L2)
    col1 = [p1, p1 * sp.exp(S[0] * L1), p1 * sp.exp(S[0] * L1 + S[1] * L2)]
    col2 = [q1, q1 * sp.exp(S[2] * L1), q1 * sp.exp(S[2] * L1 + S[3] * L2)]
    reg = alg.HashRegime("area-" + kind)
    for s_ in (s1, s2, r1):
        reg.witness[s_] = {s1: sp.Rational(-7, 3), s2: sp.Rational(3, 5), r1: sp.Rational(-1, 4)}[s_]
    spec = np.empty((3, 3), dtype=object)
    for i, (f, a, b) in enumerate(zip((f1, f2, f3), col1, col2)):
        spec[i] = [alg.S(f), alg.S(a), alg.S(b)]
    with alg.Shimmed(psd, reg, {"np": npx.NPX()}):
        got = psd.area(spec.view(alg.SymArr))

    def seg(p, fa, L, s):
        # integral of p (x/fa)^s dx over [fa, fa e^L]
        return p * fa * L if s == -1 else p * fa * (sp.exp((s + 1) * L) - 1) / (s + 1)
    want1 = seg(col1[0], f1, L1, S[0]) + seg(col1[1], f2, L2, S[1])
    want2 = seg(col2[0], f1, L1, S[2]) + seg(col2[1], f2, L2, S[3])
    tag = "psd.area[%s slopes %s]" % (kind, [str(x) for x in S])
    items = [(tag + "::column %d == sum over segments of the integral of p1 (x/f1)^s dx (s = log-log slope)" % (c + 1), alg.expr_of(got[c]) - w) for c, w in enumerate((want1, want2))]
    res = _dec(items, t0)
    res[-1]["detail"] = dict(res[-1]["detail"], decisions=reg.path[:8])
    return res


def area_case(args):
    return _guard(_area_case, args, "psd.area")


def _interp_case(args, t0):
    psd = alg.load_module(report.REPO, PSD)
    f = sp.symbols("f1:4", positive=True)
    P = sp.Matrix(3, 2, lambda i, j: sp.Symbol("P%d%d" % (i, j), positive=True))
    reg = alg.HashRegime("interp")
    reg.witness.update({f[0]: 20, f[1]: 50, f[2]: 400})
    u = sp.Symbol("u", positive=True)      # a query inside the first segment: f = f1^(1-u) f2^u, 0 < u < 1
    reg.witness[u] = sp.Rational(1, 3)
    fq = f[0] ** (1 - u) * f[1] ** u
    spec = np.empty((3, 3), dtype=object)
    for i in range(3):
        spec[i] = [alg.S(f[i]), alg.S(P[i, 0]), alg.S(P[i, 1])]
    with alg.Shimmed(psd, reg, {"np": npx.NPX(), "interp1d": sym_interp1d}):
        at_knots = psd.interp(spec.view(alg.SymArr), alg.sym_array(list(f)))
        inside = psd.interp(spec.view(alg.SymArr), alg.sym_array([fq]))
        lin = psd.interp(spec.view(alg.SymArr), alg.sym_array(list(f)), linear=True)
    items = []
    for i in range(3):
        for c in range(2):
            items.append(("psd.interp::at the specification's own frequency %d, column %d, returns the specification (log-log)" % (i, c), alg.expr_of(at_knots[i, c]) - P[i, c]))
            items.append(("psd.interp::linear=True at the specification's own frequency %d, column %d" % (i, c), alg.expr_of(lin[i, c]) - P[i, c]))
    for c in range(2):
        s = sp.log(P[1, c] / P[0, c]) / sp.log(f[1] / f[0])
        items.append(("psd.interp::inside a segment equals p1 (f/f1)^s, column %d" % c, sp.log(alg.expr_of(inside[0, c])) - sp.log(P[0, c]) - s * sp.log(fq / f[0])))
    out = []
    for name, e in items:
        e2 = sp.expand_log(sp.expand(sp.sympify(e)), force=True)
        st, det = alg.prove_zero(sp.expand(e2), budget=150)
        out.append(dict(name=name, status=st, seconds=time.time() - t0, detail=det))
    return out


def interp_case(args):
    return _guard(_interp_case, args, "psd.interp")


def sym_lfilter(b, a, x, axis=-1, **kw):
    """assumed contract of scipy.signal.lfilter with a == 1: causal FIR convolution along the last axis, zero initial state"""
    b = [alg.expr_of(v) for v in np.asarray(b).reshape(-1)]
    x = np.asarray(x, dtype=object)
    assert axis in (-1, x.ndim - 1) and alg.expr_of(a) == 1
    y = np.empty(x.shape, dtype=object)
    n = x.shape[-1]
    for idx in np.ndindex(*x.shape[:-1]):
        row = x[idx]
        for k in range(n):
            acc = sp.Integer(0)
            for j in range(min(k + 1, len(b))):
                if b[j] != 0:
                    acc += b[j] * alg.expr_of(row[k - j])
            y[idx + (k,)] = alg.S(acc)
    return y.view(alg.SymArr)


def sym_upfirdn(h, x, up=1, down=1, axis=-1, **kw):
    """assumed contract of scipy.signal.upfirdn: zero-stuff by `up`, full FIR convolution with h, keep every `down`-th sample (along `axis`)"""
    hh = [alg.expr_of(v) for v in np.asarray(h).reshape(-1)]
    x = np.moveaxis(np.asarray(x, dtype=object), axis, -1)
    n = x.shape[-1]
    nup = (n - 1) * up + 1
    nfull = nup + len(hh) - 1
    nout = -(-nfull // down)
    y = np.empty(x.shape[:-1] + (nout,), dtype=object)
    for idx in np.ndindex(*x.shape[:-1]):
        row = x[idx]
        for k in range(nout):
            m = k * down
            acc = sp.Integer(0)
            for j in range(len(hh)):
                i_up = m - j
                if hh[j] != 0 and 0 <= i_up < nup and i_up % up == 0:
                    acc += hh[j] * alg.expr_of(row[i_up // up])
            y[idx + (k,)] = alg.S(acc)
    return np.moveaxis(y, -1, axis).view(alg.SymArr)


def _resample_case(args, t0):
    shape, axis, p, q, pts = args
    dspm = alg.load_module(report.REPO, DSP)
    n_el = int(np.prod(shape))
    syms = [sp.Symbol("x%d" % i, real=True) for i in range(n_el)]
    data = np.empty(n_el, dtype=object)
    for i in range(n_el):
        data[i] = alg.S(syms[i])
    data = data.reshape(shape).view(alg.SymArr)
    reg = alg.HashRegime("resample")
    sig = types.SimpleNamespace(lfilter=sym_lfilter, upfirdn=sym_upfirdn, windows=__import__("scipy.signal", fromlist=["windows"]).windows)
    with alg.Shimmed(dspm, reg, {"np": npx.NPX(), "signal": sig}):
        out, fir = dspm.resample(data, p, q, axis=axis, pts=pts, getfir=True)
        const = dspm.resample(np.full(shape, alg.S(sp.Symbol("c", real=True)), dtype=object).view(alg.SymArr), p, q, axis=axis, pts=pts)
        # lane-wise reference: the real function on each 1-D lane
        lanes = {}
        moved = np.moveaxis(np.asarray(data), axis, -1)
        for idx in np.ndindex(*moved.shape[:-1]):
            lanes[idx] = dspm.resample(moved[idx].view(alg.SymArr), p, q, pts=pts)
    res = []
    ln = shape[axis]
    nout = -(-ln * p // q)
    tag = "dsp.resample[shape=%s, axis=%d, p=%d, q=%d, pts=%d]" % (shape, axis, p, q, pts)
    if len(shape) == 1:
        t0s, dts = sp.Symbol("t0", real=True), sp.Symbol("dt", positive=True)
        with alg.Shimmed(dspm, reg, {"np": npx.NPX(), "signal": sig}):
            _, tn = dspm.resample(data, p, q, pts=pts, t=alg.sym_array([t0s + i * dts for i in range(ln)]))
        g = math.gcd(p, q)
        bad = [k for k in range(len(tn)) if sp.expand(alg.expr_of(tn[k]) - (t0s + k * dts * sp.Rational(q // g, p // g))) != 0]
        res.append(dict(name=tag + "::returned positions are t0 + k dt q/p (the positions of the samples taken), one per output sample",
                        status="failed" if (bad or len(tn) != nout) else "proved", seconds=time.time() - t0, detail={"bad": bad[:5], "len": len(tn)}))
    want_shape = list(shape)
    want_shape[axis] = nout
    ok = list(out.shape) == want_shape and list(const.shape) == want_shape
    res.append(dict(name=tag + "::output has ceil(n p / q) samples along the data axis and the other axes are unchanged", status="proved" if ok else "failed",
                    seconds=time.time() - t0, detail={"got": list(out.shape), "want": want_shape}))
    if not ok:
        return res
    bad = [idx for idx in np.ndindex(*const.shape) if sp.expand(alg.expr_of(const[idx]) - sp.Symbol("c", real=True)) != 0]
    res.append(dict(name=tag + "::a constant signal is reproduced exactly", status="failed" if bad else "proved", seconds=time.time() - t0, detail={"bad": [list(b) for b in bad[:4]]}))
    om = np.moveaxis(np.asarray(out), axis, -1)
    bad = []
    for idx, lane in lanes.items():
        for k in range(nout):
            if sp.expand(alg.expr_of(om[idx + (k,)]) - alg.expr_of(lane[k])) != 0:
                bad.append(list(idx) + [k])
    res.append(dict(name=tag + "::every lane along the data axis equals the 1-D resampling of that lane (data axis restored to its place)", status="failed" if bad else "proved",
                    seconds=time.time() - t0, detail={"bad": bad[:5], "lanes": len(lanes)}))
    if p // math.gcd(p, q) > q // math.gcd(p, q):
        pp, qq = p // math.gcd(p, q), q // math.gcd(p, q)
        # original samples kept when the rate goes up: output sample m*pp sits at the time of input sample m*qq and depends on it with coefficient 1 and on no other
        # sample (to 1e-13: the taps are doubles)
        bad = []
        for idx, lane in lanes.items():
            lane_syms = [alg.expr_of(v) for v in np.moveaxis(np.asarray(data), axis, -1)[idx]]
            for m_ in range(0, (ln - 1) // qq + 1):
                if m_ * pp >= nout:
                    break
                e = sp.expand(alg.expr_of(lane[m_ * pp]))
                for j, sj in enumerate(lane_syms):
                    cfe = float(e.coeff(sj))
                    if abs(cfe - (1.0 if j == m_ * qq else 0.0)) > 1e-13:
                        bad.append((list(idx), m_ * pp, j, cfe))
        res.append(dict(name=tag + "::upsampling keeps the original samples (output[k p] == x[k] to 1e-13 in every coefficient)", status="failed" if bad else "proved",
                        seconds=time.time() - t0, detail={"bad": bad[:4]}))
    return res


def resample_case(args):
    return _guard(_resample_case, args, "dsp.resample")


# ------------------------------------------------------------------------------------------------------------------
def closest_case(args):
    which, nold, nnew = args
    t0 = time.time()
    try:
        return _closest_case(which, nold, nnew, t0)
    except Exception as ex:
        tb = traceback.extract_tb(ex.__traceback__)
        return [dict(name="dsp.%s[%d old, %d new]::exploration completes" % (which, nold, nnew), status="undecided", seconds=time.time() - t0,
                     detail={"reason": "%r at %s:%s" % (ex, tb[-1].filename, tb[-1].lineno)})]


def _closest_case(which, nold, nnew, t0):
    sys.path.insert(0, report.REPO)
    dspm = alg.load_module(report.REPO, DSP)
    fn = getattr(dspm, which)
    told = [z3.Real("told%d" % i) for i in range(nold)]
    tnew = [z3.Real("tnew%d" % i) for i in range(nnew)]
    pre = [told[i] < told[i + 1] for i in range(nold - 1)] + [tnew[i] <= tnew[i + 1] for i in range(nnew - 1)]
    ex = dse.Explorer(max_paths=20000)

    def body():
        a = dse.objarray([dse.Z(x) for x in told])
        b = dse.objarray([dse.Z(x) for x in tnew])
        return fn(a, b)
    npaths, fails, und = 0, [], []
    for pc, val, exc in ex.explore(body, assumptions=pre):
        npaths += 1
        if exc is not None:
            (fails if dse.genuine_exception(exc) else und).append(dict(path=npaths, exception=repr(exc)))
            continue
        idx = [int(v) for v in np.asarray(val)]
        for j in range(nnew):
            k = idx[j] % nold if -nold <= idx[j] < nold else None
            if k is None:
                fails.append(dict(path=npaths, what="index out of range", index=idx))
                continue
            if which == "_find_closest_times":
                # nearest: |told[k] - tnew[j]| <= |told[i] - tnew[j]| for all i, and strictly smaller than every EARLIER sample's distance is not required:
                # ties go to the earlier sample: no earlier i with equal distance
                ab = lambda e: z3.If(e >= 0, e, -e)
                goal = z3.And([ab(told[k] - tnew[j]) <= ab(told[i] - tnew[j]) for i in range(nold)] + [ab(told[i] - tnew[j]) > ab(told[k] - tnew[j]) for i in range(k)])
            else:
                # latest sample not after tnew[j]; the first sample if there is none
                # (a sample AT the requested time: the NumPy variant running here returns the one before it, the numba variant that sample; the caller
                #  shifts the old times by previous_value_tol*dt so the property's statement does not fix this case - either is accepted)
                goal = z3.Or(z3.And(told[k] < tnew[j], z3.And([z3.Or(told[i] >= tnew[j], i <= k) for i in range(nold)])),
                             z3.And(told[k] == tnew[j]),
                             z3.And(k == 0, told[0] >= tnew[j]))
            st, model = dse.check(pc, goal)
            if st == "failed":
                fails.append(dict(path=npaths, j=j, index=idx, model=model))
            elif st == "undecided":
                und.append(dict(path=npaths, j=j, reason=str(model)))
    spec = "nearest sample in time, ties to the earlier one" if which == "_find_closest_times" else "latest sample before the requested time (or the one at it; first sample if none)"
    return [dict(name="dsp.%s[%d ascending old times, %d new times, symbolic]::every returned index is the %s (all %d paths)" % (which, nold, nnew, spec, npaths),
                 status="failed" if fails else ("undecided" if und or not npaths else "proved"), seconds=time.time() - t0,
                 detail={"paths": npaths, "fails": fails[:3], "undecided": und[:3]})]


# ------------------------------------------------------------------------------------------------------------------
def float_checks(seed, quick):
    sys.path.insert(0, report.REPO)
    from pyyeti import psd, dsp
    import warnings
    rng = np.random.RandomState(seed)
    ev = 0
    # 1. area inside the |s+1| < 1e-5 band and across it, vs quadrature of the log-log interpolation
    for eps in (0.0, 3e-6, -9e-6, 2e-5, -5e-5, 1e-3):
        f1_, f2_, p1_ = 100.0, 400.0, 0.04
        s = -1 + eps
        p2_ = p1_ * (f2_ / f1_) ** s
        a = psd.area(np.array([[f1_, p1_], [f2_, p2_]]))[0]
        x = np.exp(np.linspace(np.log(f1_), np.log(f2_), 20001))
        y = p1_ * (x / f1_) ** s
        ref = np.sum((y[1:] + y[:-1]) / 2 * np.diff(x))
        exact = p1_ * f1_ * np.log(f2_ / f1_) if eps == 0 else p1_ * f1_ * ((f2_ / f1_) ** (s + 1) - 1) / (s + 1)
        ev += 1
        if abs(a / exact - 1) > 2e-5 * np.log(f2_ / f1_):
            return ev, dict(what="psd.area of a segment with slope %g differs from the integral of the log-log interpolation by more than the 1e-5 band allows" % s, got=float(a), exact=float(exact))
    # 2. rescale: the mean-square content of EVERY output band equals the integral of the input PSD (piecewise constant on its own bands) over that band;
    #    linear and logarithmic input scales x linear, logarithmic and 1/n-octave output scales x extendends, one and two columns
    def edges(fc):
        d = np.diff(fc)
        if (abs(d / d[0] - 1.0) < 1e-12).all():
            return fc - d[0] / 2, fc + d[0] / 2
        mid = np.sqrt(fc[:-1] * fc[1:])
        return np.hstack((mid[0] / fc[1] * fc[0], mid)), np.hstack((mid, fc[-1] / mid[-1] * fc[-1]))

    def band_integral(lo, hi, FLi, FUi, P):
        ov = np.clip(np.minimum(hi, FUi) - np.maximum(lo, FLi), 0, None)
        return ov @ P
    for it in range(6 if quick else 40):
        if it % 2 == 0:
            F = np.arange(10.0, 400.0 + 0.25, [1.0, 2.5, 0.5][it % 3])
        else:
            F = np.geomspace(8.0, 900.0, [40, 75, 23][it % 3])
        P = np.abs(rng.randn(F.size, 2)) + 0.1
        FLi, FUi = edges(F)
        for mode in ("linear-out", "log-out", "n_oct", "single-band"):
            for ext in (False, True):
                kw = dict(extendends=ext)
                if mode == "single-band":
                    # two requested centres of which only the first band overlaps the data, overhanging its lower edge (and on odd iterations its upper edge too)
                    c0 = F[0] * 1.3 if it % 2 == 0 else 0.5 * (F[0] + F[-1])
                    fo = np.array([c0, c0 + 2.2 * (c0 - F[0]) + (F[-1] - F[0]) * (0.2 if it % 2 == 0 else 3.0)])
                    kw["freq"] = fo
                elif mode == "linear-out":
                    fo = np.arange(F[0] + 3.3, F[-1] - 2.0, 7.3)
                    kw["freq"] = fo
                elif mode == "log-out":
                    fo = np.geomspace(F[0] * 1.07, F[-1] * 0.93, 17)
                    kw["freq"] = fo
                else:
                    kw["n_oct"] = [3, 6, 1][it % 3]
                with warnings.catch_warnings():
                    warnings.simplefilter("ignore")
                    Pout, Fctr, msv, ms = psd.rescale(P, F, **kw)
                    Pout1 = psd.rescale(P[:, 0], F, **kw)[0]
                ev += 1
                if mode == "n_oct":
                    _, FLo, FUo = psd.get_freq_oct(kw["n_oct"], exact=True, frange=(1.0, F[-1]))
                    keep = [i for i, fc in enumerate(psd.get_freq_oct(kw["n_oct"], exact=True, frange=(1.0, F[-1]))[0]) if np.any(np.isclose(Fctr, fc))]
                    FLo, FUo = FLo[keep], FUo[keep]
                else:
                    FLo, FUo = edges(fo)
                    sel = [i for i, fc in enumerate(fo) if np.any(np.isclose(Fctr, fc))]
                    FLo, FUo = FLo[sel], FUo[sel]
                if len(FLo) != len(Fctr):
                    return ev, dict(what="psd.rescale: output band centres are not a contiguous subset of the requested scale", mode=mode)
                want = np.array([[band_integral(lo, hi, FLi, FUi, P[:, c]) for c in range(2)] for lo, hi in zip(FLo, FUo)])
                inner = slice(1, -1) if ext else slice(None)
                width = (FUo - FLo)[:, None]
                prob = None
                if not np.allclose(ms[inner], want[inner], rtol=1e-9, atol=1e-12):
                    prob = "mean-square of an output band differs from the integral of the input PSD over that band"
                elif not np.allclose(Pout[inner] * width[inner], ms[inner], rtol=1e-9):
                    prob = "output PSD is not mean-square / bandwidth"
                elif not np.allclose(msv, ms.sum(axis=0), rtol=1e-12):
                    prob = "msv is not the sum of the band mean-squares"
                elif not np.allclose(Pout1, Pout[:, 0], rtol=1e-12):
                    prob = "1-D input gives a different result than the same column of a 2-D input"
                elif ext:
                    for k_ in (0, -1):
                        cov = min(FUo[k_], FUi[-1]) - max(FLo[k_], FLi[0])
                        if cov > 0 and not np.allclose(Pout[k_], want[k_] / cov, rtol=1e-9):
                            prob = "extendends: the end band's PSD is not (covered mean-square) / (covered bandwidth)"
                if prob:
                    return ev, dict(what="psd.rescale: " + prob, input_scale="linear" if it % 2 == 0 else "log", output=mode, extendends=ext)
    # 3. fixtime: exactly uniform output whose samples are the nearest (or previous) input samples; uniform data unchanged
    for it in range(6 if quick else 40):
        sr = [100.0, 250.0, 1000.0][it % 3]
        n = rng.randint(200, 600)
        t0_ = rng.uniform(-5, 5)
        t = np.arange(n) / sr + t0_
        y = rng.randn(n)
        with warnings.catch_warnings():
            warnings.simplefilter("ignore")
            tn, yn = dsp.fixtime((t, y), sr=sr, verbose=False)
            tn2, yn2 = dsp.fixtime((t, y), sr=sr, verbose=False, hold_previous_value=True)
            tn3, yn3 = dsp.fixtime((t, y), sr="auto", verbose=False)   # sample rate detected
        ev += 3
        if not (len(tn) == n and np.allclose(tn, t, atol=1e-9 / sr) and np.array_equal(yn, y)):
            return ev, dict(what="fixtime changed already-uniform data", sr=sr, n=int(n))
        if not (len(tn2) == n and np.array_equal(yn2, y)):
            return ev, dict(what="fixtime(hold_previous_value=True) changed already-uniform data", sr=sr, n=int(n))
        if not (len(tn3) == n and np.array_equal(yn3, y)):
            return ev, dict(what="fixtime with auto-detected sample rate changed already-uniform data", sr=sr, n=int(n))
        # jitter + isolated missing samples + a gap + a few out-of-order samples
        tj = t + rng.uniform(-0.3, 0.3, n) / sr
        keep = np.ones(n, bool)
        keep[rng.choice(np.arange(5, n - 5), 8, replace=False)] = False
        g0 = rng.randint(20, n - 60)
        keep[g0:g0 + rng.randint(3, 25)] = False
        tj, yj = tj[keep], y[keep]
        if it % 2:
            sw = rng.choice(np.arange(3, tj.size - 3), 3, replace=False)
            for a_ in sw:
                tj[[a_, a_ + 1]] = tj[[a_ + 1, a_]]
                yj[[a_, a_ + 1]] = yj[[a_ + 1, a_]]
        if it % 3 == 2 or it % 4 == 1:
            # records delivered late (a block rotated by one: the sorting permutation is a cycle, not its own inverse) and two exchanged blocks of unequal length
            for a_ in np.arange(6, tj.size - 30, max(12, (tj.size - 36) // 8))[:8]:
                L_ = 4 + int(a_) % 3
                tj[a_:a_ + L_] = np.roll(tj[a_:a_ + L_], 1)
                yj[a_:a_ + L_] = np.roll(yj[a_:a_ + L_], 1)
            b_ = tj.size - 22
            tj[b_:b_ + 9] = np.hstack((tj[b_ + 3:b_ + 9], tj[b_:b_ + 3]))
            yj[b_:b_ + 9] = np.hstack((yj[b_ + 3:b_ + 9], yj[b_:b_ + 3]))
        with warnings.catch_warnings():
            warnings.simplefilter("ignore")
            tn, yn = dsp.fixtime((tj, yj), sr=sr, verbose=False)
            tnp, ynp = dsp.fixtime((tj, yj), sr=sr, verbose=False, hold_previous_value=True)
        ev += 2
        order = np.argsort(tj, kind="stable")
        ts_, ys_ = tj[order], yj[order]
        for lab, tt, yy in (("nearest", tn, yn), ("previous", tnp, ynp)):
            d = np.diff(tt)
            if abs(d - 1 / sr).max() > 1e-9 / sr * max(1, abs(tt).max() * sr):
                return ev, dict(what="fixtime output time base is not uniform (%s)" % lab, max_dev=float(abs(d - 1 / sr).max()))
            if tt[0] > ts_[0] + 1.0 / sr or tt[-1] < ts_[-1] - 1.0 / sr:
                return ev, dict(what="fixtime output does not span the input time range (%s)" % lab, t_first=float(tt[0]), t_last=float(tt[-1]), in_first=float(ts_[0]), in_last=float(ts_[-1]))
            if lab == "nearest":
                want = np.array([ys_[np.argmin(abs(ts_ - x))] for x in tt])
            else:
                want = np.array([ys_[max(np.searchsorted(ts_ - 1e-3 / sr, x, side="right") - 1, 0)] for x in tt])
            if np.mean(want != yy) > 0.02:          # ties and the two end samples may legitimately differ
                return ev, dict(what="fixtime samples are not the %s input samples" % lab, mismatch_fraction=float(np.mean(want != yy)), sr=sr)
    # 3b. hold_previous_value with input denser than the output rate and generous tolerances, and with repeated time stamps
    for it in range(4 if quick else 30):
        sr = 100.0
        dt = 1 / sr
        n = 400
        td = np.arange(n) / (4 * sr) + rng.uniform(-0.2, 0.2, n) / (4 * sr) + 3.0
        td.sort()
        yd = np.arange(n, dtype=float)                    # unique values identify the source sample
        for tol in (1e-3, 0.5, 1.0):
            with warnings.catch_warnings():
                warnings.simplefilter("ignore")
                tt, yy = dsp.fixtime((td, yd), sr=sr, verbose=False, hold_previous_value=True, previous_value_tol=tol)
            ev += 1
            want = np.array([yd[max(np.searchsorted(td - tol * dt, x, side="left") - 1, 0)] for x in tt])
            if np.mean(want != yy) > 0.03:
                return ev, dict(what="fixtime(hold_previous_value=True): output is not the LAST input sample within previous_value_tol*dt of each new time (input denser than sr)",
                                previous_value_tol=tol, mismatch_fraction=float(np.mean(want != yy)))
        # repeated time stamps on the grid: the last record with that stamp is the one in effect
        tg = np.repeat(np.arange(60) * dt + 1.0, 2)
        yg = np.arange(120, dtype=float)
        with warnings.catch_warnings():
            warnings.simplefilter("ignore")
            tt, yy = dsp.fixtime((tg, yg), sr=sr, verbose=False, hold_previous_value=True)
        ev += 1
        want = np.array([yg[max(np.searchsorted(tg - 1e-3 * dt, x, side="left") - 1, 0)] for x in tt])
        if np.mean(want != yy) > 0.05:
            return ev, dict(what="fixtime(hold_previous_value=True) with repeated time stamps: the last record of a repeated stamp is not the one returned",
                            mismatch_fraction=float(np.mean(want != yy)))
    # 4. Lanczos resampling of a band-limited signal
    tt = np.arange(400) / 400.0
    sig = np.sin(2 * np.pi * 7 * tt) + 0.5 * np.cos(2 * np.pi * 19 * tt + 0.3)
    sig_i = np.round(sig * 40).astype(np.int64) + 3           # integer-typed samples with a non-integer mean
    sig_i[:7] += 1
    assert abs(sig_i.mean() - round(sig_i.mean())) > 1e-3
    for p, q, pts_ in ((3, 1, 10), (1, 2, 10), (3, 7, 10), (10, 4, 10), (4, 3, 10), (5, 3, 10), (7, 4, 10), (5, 4, 10), (3, 2, 7), (5, 2, 9), (3, 2, 10)):
        r, tn = dsp.resample(sig, p, q, t=tt, pts=pts_)
        ev += 1
        rf_ = dsp.resample(sig_i.astype(float), p, q, pts=pts_)
        for what_, arg_ in (("an int64 ndarray", sig_i), ("an int32 ndarray", sig_i.astype(np.int32)), ("a list of ints", [int(x_) for x_ in sig_i]),
                            ("a float32 ndarray", sig_i.astype(np.float32)), ("a 2-D int array (axis 0)", np.column_stack((sig_i, -sig_i)))):
            ri_ = dsp.resample(arg_, p, q, pts=pts_) if "2-D" not in what_ else dsp.resample(arg_, p, q, pts=pts_, axis=0)[:, 0]
            ev += 1
            if np.shape(ri_) != np.shape(rf_) or not np.allclose(np.asarray(ri_, float), rf_, rtol=1e-6 if "float32" in what_ else 1e-12, atol=(1e-3 if "float32" in what_ else 1e-9)):
                return ev, dict(what="dsp.resample of %s differs from the resampling of the same numbers given as float64" % what_, p=p, q=q, pts=pts_,
                                max_difference=float(abs(np.asarray(ri_, float) - rf_).max()) if np.shape(ri_) == np.shape(rf_) else None)
        if p > q:
            pp_, qq_ = p // math.gcd(p, q), q // math.gcd(p, q)
            kept = abs(r[::pp_][: len(sig[::qq_])] - sig[::qq_][: len(r[::pp_])]).max()
            if kept > 1e-9:
                return ev, dict(what="dsp.resample to a higher rate does not keep the original samples (output[m p'] != x[m q'])", p=p, q=q, pts=pts_, max_difference=float(kept))
        ref = np.sin(2 * np.pi * 7 * tn) + 0.5 * np.cos(2 * np.pi * 19 * tn + 0.3)
        core = slice(len(tn) // 5, -len(tn) // 5)
        if len(r) != int(np.ceil(400 * p / q)) or len(r) != len(tn):
            return ev, dict(what="dsp.resample does not return ceil(n p / q) samples (or positions and data differ in length)", p=p, q=q, n_out=int(len(r)), n_positions=int(len(tn)))
        if abs(r[core] - ref[core]).max() > (2e-3 if pts_ >= 10 else 2e-2):
            return ev, dict(what="Lanczos resampling of a band-limited signal is inaccurate in the interior", p=p, q=q, err=float(abs(r[core] - ref[core]).max()))
    return ev, None


def run(tier, seed):
    run = report.Run(PID, tier, seed)
    run.trust("sympy (exp/log normal forms) with 50-digit refutation", "z3 (linear real arithmetic) via vc.dse all-path exploration", "vc.alg/vc.npx shims")
    run.assume("floats are reals", "scipy.interpolate.interp1d(linear) = piecewise-linear through the knots (assumed contract)",
               "scipy.signal.lfilter(fir, 1, x) = causal FIR convolution, zero initial state (assumed contract); Kaiser window and sinc taps are taken numerically "
               "from SciPy/NumPy (the 'original samples kept' clause is therefore decided to 1e-13 per coefficient)",
               "np.searchsorted on object arrays is NumPy's own binary search driven by the symbolic comparisons (runs for real)",
               "sizes fixed: area/interp 3 break points x 2 columns; resample 3-5 samples per lane, shapes up to 3-D; nearest-sample kernels 2-4 old x 1-2 new times")
    run.not_covered += ["psd.rescale band conservation, Lanczos accuracy, fixtime end to end (drop-outs, jitter, gaps): bounded float checks only",
                        "the |s+1| < 1e-5 band of psd.area: bounded numeric check (relative error <= 1e-5 ln(f2/f1))",
                        "numba variants of the nearest-sample kernels are not the ones running here (numba absent); observation: the loop variant returns index 0 "
                        "for every new time when all old times precede the first new time, unlike the NumPy variant"]
    for rel, names in ((PSD, ("area", "interp", "proc_psd_spec")), (DSP, ("resample", "_find_closest_times", "_find_closest_previous_times"))):
        for nd in ast.walk(ast.parse(report.read_source(rel))):
            if isinstance(nd, ast.FunctionDef) and nd.name in names:
                run.add_function(rel, nd.name, hashlib.sha256(ast.unparse(nd).encode()).hexdigest()[:16], {"note": "real function executed on symbolic inputs"})
    P = report.pool()
    jobs = [(area_case, ("generic",)), (area_case, ("minus-one",)), (area_case, ("mixed",)), (interp_case, ()),
            (resample_case, ((4,), -1, 2, 1, 1)), (resample_case, ((3,), 0, 3, 2, 1)), (resample_case, ((5,), 0, 4, 3, 1)), (resample_case, ((4,), 0, 3, 2, 2)), (resample_case, ((5,), -1, 1, 2, 1)), (resample_case, ((4,), -1, 4, 2, 1)),
            (resample_case, ((3, 2), 0, 2, 1, 1)), (resample_case, ((2, 3), 1, 2, 3, 1)), (resample_case, ((3, 2, 2), 0, 2, 1, 1)), (resample_case, ((2, 3, 2), 1, 1, 2, 1)),
            (resample_case, ((2, 2, 3), -1, 3, 1, 1)), (resample_case, ((3, 2, 2), -3, 2, 1, 1)),
            (closest_case, ("_find_closest_times", 2, 1)), (closest_case, ("_find_closest_times", 3, 2)), (closest_case, ("_find_closest_times", 4, 1)),
            (closest_case, ("_find_closest_previous_times", 3, 2)), (closest_case, ("_find_closest_previous_times", 4, 1)), (closest_case, ("_find_closest_previous_times", 1, 1))]
    rs = [P.apply_async(f, (a,)) for f, a in jobs]
    for (f, a), r in zip(jobs, rs):
        for d in r.get():
            be = "z3 (DSE all paths)" if f is closest_case else "sympy-%s" % sp.__version__
            run.add_verdicts([report.Verdict(d["name"], d["status"], be, d["seconds"], "post", DSP if "dsp" in d["name"] else PSD, d["detail"])])
    ev, cf = report.guarded(run, float_checks, seed, tier == "quick")
    run.bounded.append(dict(name="float: area across the |s+1|<1e-5 band vs closed form; rescale; fixtime (uniform data unchanged; jitter/drop-outs/gap -> uniform base, nearest samples); "
                                 "Lanczos accuracy on a band-limited signal for p/q in {3/1, 1/2, 3/7, 10/4}", evaluations=ev, failures=0 if cf is None else 1,
                            label="bounded (never counted as proved)"))
    failed = [v for v in run.verdicts if v.status == "failed"]
    if failed:
        v = failed[0]
        run.violation(v.name, "; ".join(x.name[:100] for x in failed[:5]), dict(failed=[x.as_dict() for x in failed[:8]], concrete=v.detail), concrete=True)
    elif cf is not None:
        run.violation("bounded:" + cf["what"][:60], cf["what"], dict(concrete=cf), concrete=True)
    return run.finish()


def replay(path):
    d = json.load(open(path))
    print(json.dumps(d.get("concrete"), indent=1)[:3000])
    return 1 if d.get("concrete") else 0
