"""C05 - Rainflow: C and Python agree with ASTM E1049 (DESIGN.md section C05)."""
import json, os, subprocess, sys
from vc import report, pipeline, cfront, symex
from contracts import rainflow as R

PID = "C05"


def concrete(mode, seed, extra=()):
    p = subprocess.run([sys.executable, "-m", "vc.c05_concrete", report.REPO, mode, str(seed), json.dumps(list(extra))],
                       capture_output=True, text=True, cwd=report.VERIF, timeout=3000)
    for line in p.stdout.splitlines():
        if line.startswith("RESULT "):
            return json.loads(line[7:])
    return dict(evaluations=0, distinct=0, failure=dict(what="concrete harness crashed (exit %s): %s" % (p.returncode, (p.stderr or p.stdout)[-400:]),
                                                        crash=True), impls=[], build_error=None)


def build_jobs(run):
    jobs = []
    pysrc = report.read_source(R.PY)
    for wo in (True, False):
        jobs.append(dict(contract=R.make("py", wo), source=pysrc, lang="python"))
    cpath = os.path.join(report.REPO, R.C)
    for f, wo in (("rainflow2", True), ("rainflow1", False)):
        try:
            py, dropped = cfront.translate_function(cpath, f)
            jobs.append(dict(contract=R.make("c", wo), source=py, lang="C (clang AST -> vc.cfront)", dropped_extra=dropped))
        except cfront.CUnsupported as ex:
            run.undecided.append("c_rain.c::%s: C front end: %s" % (f, ex))
    cal = {"_rainflow1": R.callee_rainflow("_rainflow1"), "_rainflow2": R.callee_rainflow("_rainflow2")}
    jobs.append(dict(contract=R.py_dispatch(1), source=pysrc, callees=cal, lang="python", tag="rainflow/py[1-D]"))
    jobs.append(dict(contract=R.py_dispatch(2), source=pysrc, callees=cal, lang="python", tag="rainflow/py[2-D]"))
    try:
        py, dropped = cfront.translate_function(cpath, "rainflow")
        cal = {"rainflow1": R.callee_rainflow("rainflow1"), "rainflow2": R.callee_rainflow("rainflow2")}
        jobs.append(dict(contract=R.c_dispatch(), source=py, callees=cal, lang="C (clang AST -> vc.cfront)", dropped_extra=dropped,
                         tag="rainflow/c"))
    except cfront.CUnsupported as ex:
        run.undecided.append("c_rain.c::rainflow: C front end: %s" % ex)
    return jobs


def run(tier, seed):
    run = report.Run(PID, tier, seed)
    run.trust("z3 4.x / cvc5 1.0.3 (SMT back ends)", "clang 14 -ast-dump=json (C parser)", "vc.symex / vc.cfront (this VC generator)",
              "contracts/astm_e1049.py: the transcription of ASTM E1049-85 5.4.4 rules 1-6")
    run.assume("Python int unbounded; floats uninterpreted (equalities hold for any deterministic float semantics, NaN-free ordering not assumed)",
               "npy_intp arithmetic is mathematical under requires L <= 2**60 (larger L cannot be allocated)",
               "CPython/NumPy C-API calls behave as modelled in vc/cfront.py (allocation of the stated size, slicing keeps the first `stop` rows)",
               "C allocation-failure exits and reference counting are dropped, not verified",
               "numba compiles the decorated py_rain definitions semantics-preservingly (numba is not installed here)",
               "PyArray_FROM_OTF / np.atleast_1d preserve the element values")
    run.not_covered += ["the #ifndef USE_FASTER_RAINFLOW_ROUTINE two-pass C variant (not the compiled configuration)",
                        "cyclecount.rainflow's pandas wrapping",
                        "clauses 'largest range is counted' and 'negate/shift/scale': bounded stand-in only (see bounded_checks)"]
    jobs = build_jobs(run)
    vs = pipeline.verify_jobs(run, jobs, cross=(tier == "thorough"))
    failed = [v for v in vs if v.status == "failed"]
    und = [v for v in vs if v.status == "undecided"]
    mode = "thorough" if tier == "thorough" else "quick"
    conc = concrete(mode, seed)
    run.bounded.append(dict(name="real py_rain + freshly compiled c_rain vs independent ASTM reference; identities; largest range; negate/shift/scale",
                            scope="all sequences over {0,1,2,3} up to length %d + seeded random (ints, alternating, eighths) up to length 40" % (8 if mode == "thorough" else 6),
                            evaluations=conc["evaluations"], distinct=conc["distinct"], failures=0 if not conc["failure"] else 1,
                            implementations=conc["impls"], build_error=conc["build_error"], label="bounded (never counted as proved)"))
    if conc.get("build_error"):
        run.undecided.append("concrete harness could not load an implementation: %s" % conc["build_error"])
    if failed:
        run.violation(failed[0].name, "obligation(s) failed: " + ", ".join(v.name for v in failed[:6]),
                      dict(failed=[v.as_dict() for v in failed[:12]], concrete=conc["failure"],
                           source_file=[j["contract"].file for j in jobs][:1]), concrete=bool(conc["failure"]))
    elif conc["failure"]:
        run.violation("bounded:" + conc["failure"].get("what", ""), conc["failure"].get("what", ""),
                      dict(concrete=conc["failure"], note="found by the bounded concrete check; no proof obligation failed"
                           if not (und or run.undecided) else "proof undecided; failing input found by replay search"), concrete=True)
    return run.finish()


def replay(path):
    d = json.load(open(path))
    c = d.get("concrete")
    if not c or "peaks" not in c:
        print("replay file carries no concrete input; obligation %s; solver output is in the file" % d.get("obligation"))
        return 0
    r = concrete("replay", 0, extra=[c["peaks"]])
    print(json.dumps(r["failure"], indent=1))
    return 1 if r["failure"] else 0
