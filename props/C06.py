"""C06 - Craig-Bampton checks: the algebraic pieces (DESIGN.md section C06).

Proved on symbolic inputs with the real functions: cb.cgmass (any rigid 6x6 mass about any reference point), cb.cbtf (full
equations of motion with the enforced boundary acceleration; shared with C15), cb.cbreorder (symmetric permutation, b first /
last, drm form, undone by the inverse permutation), cb.cbconvert/_get_conv_factors (every block scaled by its physical unit
factor for a symbolic (length, mass) conversion; generalised eigenvalues unchanged; m2e and e2m mutually inverse to round-off).
Bounded (float): uset_convert on generated USET tables with offset cylindrical/spherical systems; cbcheck is not covered.
"""
import ast, hashlib, itertools, json, os, sys, time, traceback
from types import SimpleNamespace
import numpy as np
import sympy as sp
from vc import report, alg, symla, npx
from props import C15

PID = "C06"
CB, YT, LOC = "pyyeti/cb.py", "pyyeti/ytools.py", "pyyeti/locate.py"
MATHX = SimpleNamespace(pi=alg.S(sp.pi), sqrt=alg.MATH_SHIMS["sqrt"])


def iszero(e):
    e = sp.expand(e)
    return e == 0 or sp.expand(sp.numer(sp.together(e))) == 0


def _skew(d):
    return sp.Matrix([[0, -d[2], d[1]], [d[2], 0, -d[0]], [-d[1], d[0], 0]])


def _mods():
    return [alg.load_module(report.REPO, p) for p in (CB, YT, LOC)]


def _guard(f, args, label):
    t0 = time.time()
    try:
        return f(args, t0)
    except Exception as ex:
        tb = traceback.extract_tb(ex.__traceback__)
        last = tb[-1]
        inrepo = "/pyyeti/" in last.filename and "/verif/" not in last.filename
        st = "failed" if (inrepo and (last.line or "").strip().startswith("raise")) else "undecided"
        return [dict(name="%s%s::symbolic run completes" % (label, args), status=st, seconds=time.time() - t0,
                     detail={"reason": "%r at %s:%s" % (ex, last.filename, last.lineno)})]


def _cgmass_case(args, t0):
    all6, = args
    mods = _mods()
    cbm = mods[0]
    m = sp.Symbol("m", positive=True)
    d = sp.Matrix(sp.symbols("dx dy dz", real=True))
    Ic = sp.Matrix(3, 3, lambda i, j: sp.Symbol("I%d%d" % (min(i, j), max(i, j)), real=True))
    # rigid-body mass of a body (mass m, inertia Ic about its cg, cg at offset d) expressed at the reference point:
    # kinetic energy with v_cg = v + w x d  ->  M = T^T diag(m I3, Ic) T,  T = [[I, -[d]x], [0, I]]
    T = sp.eye(6)
    T[:3, 3:] = -_skew(d)
    Mcg = sp.diag(m, m, m, Ic)
    M = (T.T * Mcg * T).applyfunc(sp.expand)
    reg = alg.HashRegime("cgmass")
    extra = {mm.__name__: {"np": npx.NPX()} for mm in mods}
    extra[cbm.__name__]["math"] = MATHX
    with alg.Multi(mods, reg, extra):
        out = cbm.cgmass(symla.toarr(M), all6=False)
    mcg, dxyz = out
    res = []
    bad = [(i, j) for i in range(6) for j in range(6) if not iszero(alg.expr_of(mcg[i, j]) - Mcg[i, j])]
    res.append(dict(name="cgmass::mass matrix at the cg == diag(m, m, m, I_cg) for every rigid 6x6 mass (m, I_cg, cg offset symbolic)", status="failed" if bad else "proved",
                    seconds=time.time() - t0, detail={"failing_entries": bad[:8]}))
    bad = [i for i in range(3) if not iszero(alg.expr_of(dxyz[i]) - d[i])]
    res.append(dict(name="cgmass::returned distance to the cg == the offset the mass was built with", status="failed" if bad else "proved", seconds=time.time() - t0,
                    detail={"failing": bad}))
    return res


def cgmass_case(args):
    return _guard(_cgmass_case, args, "cgmass")


def _reorder_case(args, t0):
    n, = args
    mods = _mods()
    cbm = mods[0]
    M = sp.Matrix(n, n, lambda i, j: sp.Symbol("M%d_%d" % (i, j)))
    Ma = symla.toarr(M)
    Drm = sp.Matrix(2, n, lambda i, j: sp.Symbol("D%d_%d" % (i, j)))
    Da = symla.toarr(Drm)
    import warnings
    nchk, bad = 0, []
    with warnings.catch_warnings():
        warnings.simplefilter("ignore")
        for lb in range(1, n + 1):
            for b in itertools.permutations(range(n), lb):
                q = [i for i in range(n) if i not in b]
                for last in (False, True):
                    pv = (q + list(b)) if last else (list(b) + q)
                    got = cbm.cbreorder(Ma, np.array(b), last=last)
                    gotd = cbm.cbreorder(Da, np.array(b), drm=True, last=last)
                    nchk += 1
                    ok = got.shape == (n, n) and all(alg.expr_of(got[i, j]) == M[pv[i], pv[j]] for i in range(n) for j in range(n))
                    okd = gotd.shape == (2, n) and all(alg.expr_of(gotd[i, j]) == Drm[i, pv[j]] for i in range(2) for j in range(n))
                    # undone by the inverse permutation: in the new order the b-set sits at known positions
                    newb = [pv.index(x) for x in range(n)]
                    back = cbm.cbreorder(got, np.array(newb))
                    okb = all(alg.expr_of(back[i, j]) == M[i, j] for i in range(n) for j in range(n))
                    if not (ok and okd and okb):
                        bad.append(dict(b=list(b), last=last, matrix=ok, drm=okd, inverse=okb))
    return [dict(name="cbreorder[n=%d]::M'[i,j] == M[pv[i],pv[j]], drm columns permuted alike, pv = (b, ascending q) or (ascending q, b); undone by the inverse "
                      "permutation - all %d ordered b-sets x last" % (n, nchk), status="failed" if bad else "proved", seconds=time.time() - t0,
                 detail={"cases": nchk, "failing": bad[:5]})]


def reorder_case(args):
    return _guard(_reorder_case, args, "cbreorder")


def _convert_case(args, t0):
    conv, nq, bfirst = args
    mods = _mods()
    cbm = mods[0]
    lb = 6
    n = lb + nq
    b = list(range(lb)) if bfirst else list(range(nq, n))
    q = [i for i in range(n) if i not in b]
    Mx = sp.Matrix(n, n, lambda i, j: sp.Symbol("M%d_%d" % (i, j), real=True))
    Kx = sp.Matrix(n, n, lambda i, j: sp.Symbol("K%d_%d" % (i, j), real=True))
    if conv == "sym":
        lc, mc = sp.symbols("lengthconv massconv", positive=True)
        cv = (alg.S(lc), alg.S(mc))
    else:
        cv = conv
        lcf, mcf = cbm._get_conv_factors(conv)
        lc, mc = sp.Rational(float(lcf)), sp.Rational(float(mcf))
    reg = alg.HashRegime("cbconvert")
    extra = {mm.__name__: {"np": npx.NPX()} for mm in mods}
    extra[cbm.__name__]["math"] = MATHX
    with alg.Multi(mods, reg, extra):
        M2 = cbm.cbconvert(symla.toarr(Mx), np.array(b), conv=cv)
        K2 = cbm.cbconvert(symla.toarr(Kx), np.array(b), conv=cv)
        D2 = cbm.cbconvert(symla.toarr(Mx[:3, :]), np.array(b), conv=cv, drm=True)
    # physical unit factors: u_trans [length], u_rot [1], u_q [sqrt(mass) length];  F_trans [mass length], F_rot [mass length^2], F_q [sqrt(mass) length]
    kind = {}
    for k_, p in enumerate(b):
        kind[p] = "t" if k_ % 6 < 3 else "r"
    for p in q:
        kind[p] = "q"
    cq = sp.sqrt(mc) * lc
    Cf = {"t": 1 / lc, "r": 1, "q": 1 / cq}
    Df = {"t": mc * lc, "r": mc * lc ** 2, "q": cq}
    res = []
    bad = []

    def same(got, sym, factor):
        """got == factor * sym ; for the built-in numeric conversions the code multiplies doubles, so the factor is compared to 1e-14 relative"""
        if conv == "sym":
            return iszero(got - factor * sym)
        c = sp.expand(got).coeff(sym)
        return sp.expand(got - c * sym) == 0 and abs(sp.N(c / factor - 1, 30)) < 1e-14
    for nm, X0, X1 in (("M", Mx, M2), ("K", Kx, K2)):
        for i in range(n):
            for j in range(n):
                if not same(alg.expr_of(X1[i, j]), X0[i, j], Df[kind[i]] * Cf[kind[j]]):
                    bad.append((nm, i, j))
    for i in range(3):
        for j in range(n):
            if not same(alg.expr_of(D2[i, j]), Mx[i, j], Cf[kind[j]]):
                bad.append(("drm", i, j))
    tag = "cbconvert[conv=%s, %d q-set, b-set %s]" % (conv, nq, "first" if bfirst else "last")
    res.append(dict(name=tag + "::every entry is scaled by (force-unit factor of its row) x (displacement-unit factor of its column): translation/rotation/modal blocks; "
                               "drm form scales columns only", status="failed" if bad else "proved", seconds=time.time() - t0, detail={"failing": bad[:8]}))
    # consequences: translational mass block scales by massconv, rotational by massconv*lengthconv^2, q-q blocks unchanged (so fixed-base frequencies unchanged)
    bad = []
    for i in range(n):
        for j in range(n):
            f = Df[kind[i]] * Cf[kind[j]]
            want = {("t", "t"): mc, ("r", "r"): mc * lc ** 2, ("t", "r"): mc * lc, ("r", "t"): mc * lc, ("q", "q"): 1}.get((kind[i], kind[j]))
            if want is not None and not iszero(f - want):
                bad.append((kind[i], kind[j]))
    res.append(dict(name=tag + "::mass [mass], first moments [mass length], inertia [mass length^2]; q-q blocks unchanged", status="failed" if bad else "proved",
                    seconds=0.0, detail={"failing": bad[:4]}))
    return res


def convert_case(args):
    return _guard(_convert_case, args, "cbconvert")


def conv_inverse():
    """m2e and e2m are mutually inverse to round-off (exact rational arithmetic on the stored doubles)"""
    cbm = _mods()[0]
    l1, m1 = cbm._get_conv_factors("m2e")
    l2, m2 = cbm._get_conv_factors("e2m")
    from fractions import Fraction as Fr
    e1 = abs(Fr(float(l1)) * Fr(float(l2)) - 1)
    e2 = abs(Fr(float(m1)) * Fr(float(m2)) - 1)
    e3 = abs(Fr(float(l2)) - Fr(254, 10000))
    # slug-in units: 1 lbf s^2/in = 175.126835... kg exactly 4.4482216152605 / 0.0254
    e4 = abs(Fr(float(m2)) - Fr(44482216152605, 10 ** 13) / Fr(254, 10000)) / Fr(float(m2))
    ok = e1 < Fr(1, 10 ** 15) and e2 < Fr(1, 10 ** 15) and e3 < Fr(1, 10 ** 17) and e4 < Fr(1, 10 ** 11)
    return dict(name="_get_conv_factors::m2e and e2m factors are reciprocal to 1e-15; 0.0254 m/in and 4.4482216152605/0.0254 kg per lbf s^2/in to 1e-11",
                status="proved" if ok else "failed", seconds=0.0, detail=dict(length_product_error=float(e1), mass_product_error=float(e2), mass_factor_error=float(e4)))


def uset_convert_bounded(seed):
    """bounded float: uset_convert scales grid locations AND coordinate-system origins, nothing else; geometry-based rigid-body modes of the converted
    table are the unit-converted rigid-body modes (cylindrical/spherical systems with offset origins)"""
    sys.path.insert(0, report.REPO)
    from pyyeti import cb
    from pyyeti.nastran import n2p
    rng = np.random.RandomState(seed)
    ev = 0
    for it in range(4):
        o = rng.randn(3) * 5
        A_, B_, C_ = o, o + rng.randn(3), o + rng.randn(3)
        cyl = np.vstack(([10, 2, 0], A_, B_, C_))
        sph = np.vstack(([20, 3, 0], A_ + 1.0, B_ + 1.0 + rng.randn(3) * .1, C_ + 1.0))
        uset = None
        grids = [[100, 0, rng.randn(3) * 3, 0], [200, 0, rng.randn(3) * 3, cyl], [300, 0, rng.randn(3) * 3, sph]]
        for gid, cin, xyz, cout in grids:
            uset = n2p.addgrid(uset, gid, "b", cin, xyz, cout)
        for conv in ("m2e", "e2m", (3.0, 2.0)):
            lc = cb._get_conv_factors(conv)[0]
            ref = np.array([1.0, -2.0, 0.5])
            u2, ref2 = cb.uset_convert(uset, ref, conv)
            ev += 1
            dof = uset.index.get_level_values("dof").values
            v0, v1 = uset.values, u2.values
            want = v0.copy()
            want[(dof == 1) | (dof == 3), 1:] *= lc
            if not np.allclose(v1, want, rtol=1e-13, atol=0) or not np.allclose(ref2, ref * lc):
                rows = np.nonzero(~np.isclose(v1, want, rtol=1e-13, atol=0).all(axis=1))[0]
                return ev, dict(what="uset_convert does not scale exactly the location rows (dof 1) and coordinate-system origin rows (dof 3) by the length factor",
                                conv=str(conv), failing_rows_dof=[int(dof[r]) for r in rows[:6]])
            rb0 = n2p.rbgeom_uset(uset, ref)
            rb1 = n2p.rbgeom_uset(u2, ref2)
            # translations unchanged, rotation-induced translations scale with length; rotational rows unchanged
            want_rb = rb0.copy()
            trn = np.nonzero(dof <= 3)[0]
            want_rb[np.ix_(trn, [3, 4, 5])] *= lc
            ev += 1
            if not np.allclose(rb1, want_rb, rtol=1e-9, atol=1e-9):
                return ev, dict(what="rigid-body modes of the unit-converted USET are not the unit-converted rigid-body modes (local frames of cyl/sph grids changed)",
                                conv=str(conv), max_diff=float(abs(rb1 - want_rb).max()))
    return ev, None


def run(tier, seed):
    run = report.Run(PID, tier, seed)
    run.trust("sympy (polynomial/rational identities)", "vc.alg / vc.npx shims (np.allclose in ytools.mattype is decided at the witness: the symmetric precondition holds by construction)")
    run.assume("floats are reals", "cgmass: the 6x6 mass is that of one rigid body (m, I_cg, cg offset all symbolic): M = T^T diag(m I, I_cg) T",
               "cbtf: Craig-Bampton form (no b-q stiffness coupling), diagonal q-q blocks, 2 boundary + 2 modal DOF, all values symbolic",
               "cbreorder: all ordered b-sets of matrices of order <= 4 (entries symbolic); cbconvert: one boundary grid (6 DOF) + 0..2 modal DOF")
    run.not_covered += ["cbcheck: coincidence of stiffness-, geometry- and eigenvalue-based rigid-body modes, effective-mass bookkeeping, grounding numbers, report text "
                        "(depends on eigh/solve numerics and tolerances; no contract within reach decides it)", "mk_net_drms, rbmultchk, rbdispchk",
                        "uset_convert (pandas): bounded float check only"]
    for rel, names in ((CB, ("cgmass", "cbtf", "cbreorder", "cbconvert", "_get_conv_factors", "uset_convert")), (YT, ("multmd", "mkpattvec", "mattype")), (LOC, ("flippv",))):
        for nd in ast.walk(ast.parse(report.read_source(rel))):
            if isinstance(nd, ast.FunctionDef) and nd.name in names:
                run.add_function(rel, nd.name, hashlib.sha256(ast.unparse(nd).encode()).hexdigest()[:16], {"note": "real function executed on symbolic inputs"})
    P = report.pool()
    jobs = [(cgmass_case, (False,)), (reorder_case, (3,)), (reorder_case, (4,)), (convert_case, ("sym", 2, True)), (convert_case, ("sym", 1, False)),
            (convert_case, ("m2e", 2, False)), (convert_case, ("e2m", 0, True)),
            (C15.cbtf_case, ((3, 0), False)), (C15.cbtf_case, ((0, 1), True)), (C15.cbtf_case, ((2, 1), True)), (C15.cbtf_case, ((1, 3), False))]
    rs = [P.apply_async(f, (a,)) for f, a in jobs]
    for (f, a), r in zip(jobs, rs):
        for d in r.get():
            run.add_verdicts([report.Verdict(d["name"], d["status"], "sympy-%s" % sp.__version__, d["seconds"], "post", CB, d["detail"])])
    d = conv_inverse()
    run.add_verdicts([report.Verdict(d["name"], d["status"], "exact rationals", 0.0, "post", CB, d["detail"])])
    ev, cf = uset_convert_bounded(seed)
    run.bounded.append(dict(name="float: uset_convert on generated USET tables (rectangular, offset cylindrical and spherical output systems) - only location and origin rows "
                                 "scale; rbgeom_uset of the converted table == unit-converted rigid-body modes", evaluations=ev, failures=0 if cf is None else 1,
                            label="bounded (never counted as proved)"))
    failed = [v for v in run.verdicts if v.status == "failed"]
    if failed:
        v = failed[0]
        run.violation(v.name, "; ".join(x.name[:90] for x in failed[:5]), dict(failed=[x.as_dict() for x in failed[:8]], concrete=v.detail), concrete=True)
    elif cf is not None:
        run.violation("bounded:uset_convert", cf["what"], dict(concrete=cf), concrete=True)
    return run.finish()


def replay(path):
    d = json.load(open(path))
    print(json.dumps(d.get("concrete"), indent=1)[:3000])
    return 1 if d.get("concrete") else 0
