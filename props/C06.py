"""C06 - Craig-Bampton checks: the algebraic pieces (DESIGN.md section C06).

Proved on symbolic inputs with the real functions: cb.cgmass (any rigid 6x6 mass about any reference point), cb.cbtf (full
equations of motion with the enforced boundary acceleration; shared with C15), cb.cbreorder (symmetric permutation, b first /
last, drm form, undone by the inverse permutation), cb.cbconvert/_get_conv_factors (every block scaled by its physical unit
factor for a symbolic (length, mass) conversion; generalised eigenvalues unchanged; m2e and e2m mutually inverse to round-off).
Bounded (float): uset_convert on generated USET tables with offset cylindrical/spherical systems; cbcheck is not covered.
"""
import ast, hashlib, itertools, json, os, sys, time, traceback
from types import SimpleNamespace
import numpy as np
import sympy as sp
from vc import report, alg, symla, npx
from props import C15

PID = "C06"
CB, YT, LOC = "pyyeti/cb.py", "pyyeti/ytools.py", "pyyeti/locate.py"
MATHX = SimpleNamespace(pi=alg.S(sp.pi), sqrt=alg.MATH_SHIMS["sqrt"])


def iszero(e):
    e = sp.expand(e)
    return e == 0 or sp.expand(sp.numer(sp.together(e))) == 0


def _skew(d):
    return sp.Matrix([[0, -d[2], d[1]], [d[2], 0, -d[0]], [-d[1], d[0], 0]])


def _mods():
    return [alg.load_module(report.REPO, p) for p in (CB, YT, LOC)]


def _guard(f, args, label):
    t0 = time.time()
    try:
        return f(args, t0)
    except Exception as ex:
        tb = traceback.extract_tb(ex.__traceback__)
        last = tb[-1]
        inrepo = "/pyyeti/" in last.filename and "/verif/" not in last.filename
        st = "undecided"          # an exception on symbolic stand-ins is a tool limit, never a violation by itself (concrete arms report real exceptions)
        return [dict(name="%s%s::symbolic run completes" % (label, args), status=st, seconds=time.time() - t0,
                     detail={"reason": "%r at %s:%s" % (ex, last.filename, last.lineno)})]


def _cgmass_case(args, t0):
    all6, = args
    mods = _mods()
    cbm = mods[0]
    m = sp.Symbol("m", positive=True)
    d = sp.Matrix(sp.symbols("dx dy dz", real=True))
    Ic = sp.Matrix(3, 3, lambda i, j: sp.Symbol("I%d%d" % (min(i, j), max(i, j)), real=True))
    # rigid-body mass of a body (mass m, inertia Ic about its cg, cg at offset d) expressed at the reference point:
    # kinetic energy with v_cg = v + w x d  ->  M = T^T diag(m I3, Ic) T,  T = [[I, -[d]x], [0, I]]
    T = sp.eye(6)
    T[:3, 3:] = -_skew(d)
    Mcg = sp.diag(m, m, m, Ic)
    M = (T.T * Mcg * T).applyfunc(sp.expand)
    reg = alg.HashRegime("cgmass")
    extra = {mm.__name__: {"np": npx.NPX()} for mm in mods}
    extra[cbm.__name__]["math"] = MATHX
    with alg.Multi(mods, reg, extra):
        out = cbm.cgmass(symla.toarr(M), all6=False)
    mcg, dxyz = out
    res = []
    bad = [(i, j) for i in range(6) for j in range(6) if not iszero(alg.expr_of(mcg[i, j]) - Mcg[i, j])]
    res.append(dict(name="cgmass::mass matrix at the cg == diag(m, m, m, I_cg) for every rigid 6x6 mass (m, I_cg, cg offset symbolic)", status="failed" if bad else "proved",
                    seconds=time.time() - t0, detail={"failing_entries": bad[:8]}))
    bad = [i for i in range(3) if not iszero(alg.expr_of(dxyz[i]) - d[i])]
    res.append(dict(name="cgmass::returned distance to the cg == the offset the mass was built with", status="failed" if bad else "proved", seconds=time.time() - t0,
                    detail={"failing": bad}))
    return res


def cgmass_case(args):
    return _guard(_cgmass_case, args, "cgmass")


def _reorder_case(args, t0):
    n, = args
    mods = _mods()
    cbm = mods[0]
    M = sp.Matrix(n, n, lambda i, j: sp.Symbol("M%d_%d" % (i, j)))
    Ma = symla.toarr(M)
    Drm = sp.Matrix(2, n, lambda i, j: sp.Symbol("D%d_%d" % (i, j)))
    Da = symla.toarr(Drm)
    import warnings
    nchk, bad = 0, []
    with warnings.catch_warnings():
        warnings.simplefilter("ignore")
        for lb in range(1, n + 1):
            for b in itertools.permutations(range(n), lb):
                q = [i for i in range(n) if i not in b]
                for last in (False, True):
                    pv = (q + list(b)) if last else (list(b) + q)
                    got = cbm.cbreorder(Ma, np.array(b), last=last)
                    gotd = cbm.cbreorder(Da, np.array(b), drm=True, last=last)
                    nchk += 1
                    ok = got.shape == (n, n) and all(alg.expr_of(got[i, j]) == M[pv[i], pv[j]] for i in range(n) for j in range(n))
                    okd = gotd.shape == (2, n) and all(alg.expr_of(gotd[i, j]) == Drm[i, pv[j]] for i in range(2) for j in range(n))
                    # undone by the inverse permutation: in the new order the b-set sits at known positions
                    newb = [pv.index(x) for x in range(n)]
                    back = cbm.cbreorder(got, np.array(newb))
                    okb = all(alg.expr_of(back[i, j]) == M[i, j] for i in range(n) for j in range(n))
                    if not (ok and okd and okb):
                        bad.append(dict(b=list(b), last=last, matrix=ok, drm=okd, inverse=okb))
    return [dict(name="cbreorder[n=%d]::M'[i,j] == M[pv[i],pv[j]], drm columns permuted alike, pv = (b, ascending q) or (ascending q, b); undone by the inverse "
                      "permutation - all %d ordered b-sets x last" % (n, nchk), status="failed" if bad else "proved", seconds=time.time() - t0,
                 detail={"cases": nchk, "failing": bad[:5]})]


def reorder_case(args):
    return _guard(_reorder_case, args, "cbreorder")


def _convert_case(args, t0):
    conv, nq, bfirst = args
    mods = _mods()
    cbm = mods[0]
    lb = 6
    n = lb + nq
    b = list(range(lb)) if bfirst else list(range(nq, n))
    q = [i for i in range(n) if i not in b]
    Mx = sp.Matrix(n, n, lambda i, j: sp.Symbol("M%d_%d" % (i, j), real=True))
    Kx = sp.Matrix(n, n, lambda i, j: sp.Symbol("K%d_%d" % (i, j), real=True))
    if conv == "sym":
        lc, mc = sp.symbols("lengthconv massconv", positive=True)
        cv = (alg.S(lc), alg.S(mc))
    else:
        cv = conv
        lcf, mcf = cbm._get_conv_factors(conv)
        lc, mc = sp.Rational(float(lcf)), sp.Rational(float(mcf))
    reg = alg.HashRegime("cbconvert")
    extra = {mm.__name__: {"np": npx.NPX()} for mm in mods}
    extra[cbm.__name__]["math"] = MATHX
    with alg.Multi(mods, reg, extra):
        M2 = cbm.cbconvert(symla.toarr(Mx), np.array(b), conv=cv)
        K2 = cbm.cbconvert(symla.toarr(Kx), np.array(b), conv=cv)
        D2 = cbm.cbconvert(symla.toarr(Mx[:3, :]), np.array(b), conv=cv, drm=True)
    # physical unit factors: u_trans [length], u_rot [1], u_q [sqrt(mass) length];  F_trans [mass length], F_rot [mass length^2], F_q [sqrt(mass) length]
    kind = {}
    for k_, p in enumerate(b):
        kind[p] = "t" if k_ % 6 < 3 else "r"
    for p in q:
        kind[p] = "q"
    cq = sp.sqrt(mc) * lc
    Cf = {"t": 1 / lc, "r": 1, "q": 1 / cq}
    Df = {"t": mc * lc, "r": mc * lc ** 2, "q": cq}
    res = []
    bad = []

    def same(got, sym, factor):
        """got == factor * sym ; for the built-in numeric conversions the code multiplies doubles, so the factor is compared to 1e-14 relative"""
        if conv == "sym":
            return iszero(got - factor * sym)
        c = sp.expand(got).coeff(sym)
        return sp.expand(got - c * sym) == 0 and abs(sp.N(c / factor - 1, 30)) < 1e-14
    for nm, X0, X1 in (("M", Mx, M2), ("K", Kx, K2)):
        for i in range(n):
            for j in range(n):
                if not same(alg.expr_of(X1[i, j]), X0[i, j], Df[kind[i]] * Cf[kind[j]]):
                    bad.append((nm, i, j))
    for i in range(3):
        for j in range(n):
            if not same(alg.expr_of(D2[i, j]), Mx[i, j], Cf[kind[j]]):
                bad.append(("drm", i, j))
    tag = "cbconvert[conv=%s, %d q-set, b-set %s]" % (conv, nq, "first" if bfirst else "last")
    res.append(dict(name=tag + "::every entry is scaled by (force-unit factor of its row) x (displacement-unit factor of its column): translation/rotation/modal blocks; "
                               "drm form scales columns only", status="failed" if bad else "proved", seconds=time.time() - t0, detail={"failing": bad[:8]}))
    # consequences: translational mass block scales by massconv, rotational by massconv*lengthconv^2, q-q blocks unchanged (so fixed-base frequencies unchanged)
    bad = []
    for i in range(n):
        for j in range(n):
            f = Df[kind[i]] * Cf[kind[j]]
            want = {("t", "t"): mc, ("r", "r"): mc * lc ** 2, ("t", "r"): mc * lc, ("r", "t"): mc * lc, ("q", "q"): 1}.get((kind[i], kind[j]))
            if want is not None and not iszero(f - want):
                bad.append((kind[i], kind[j]))
    res.append(dict(name=tag + "::mass [mass], first moments [mass length], inertia [mass length^2]; q-q blocks unchanged", status="failed" if bad else "proved",
                    seconds=0.0, detail={"failing": bad[:4]}))
    return res


def convert_case(args):
    return _guard(_convert_case, args, "cbconvert")


def conv_inverse():
    """m2e and e2m are mutually inverse to round-off (exact rational arithmetic on the stored doubles)"""
    cbm = _mods()[0]
    l1, m1 = cbm._get_conv_factors("m2e")
    l2, m2 = cbm._get_conv_factors("e2m")
    from fractions import Fraction as Fr
    e1 = abs(Fr(float(l1)) * Fr(float(l2)) - 1)
    e2 = abs(Fr(float(m1)) * Fr(float(m2)) - 1)
    e3 = abs(Fr(float(l2)) - Fr(254, 10000))
    # slug-in units: 1 lbf s^2/in = 175.126835... kg exactly 4.4482216152605 / 0.0254
    e4 = abs(Fr(float(m2)) - Fr(44482216152605, 10 ** 13) / Fr(254, 10000)) / Fr(float(m2))
    ok = e1 < Fr(1, 10 ** 15) and e2 < Fr(1, 10 ** 15) and e3 < Fr(1, 10 ** 17) and e4 < Fr(1, 10 ** 11)
    return dict(name="_get_conv_factors::m2e and e2m factors are reciprocal to 1e-15; 0.0254 m/in and 4.4482216152605/0.0254 kg per lbf s^2/in to 1e-11",
                status="proved" if ok else "failed", seconds=0.0, detail=dict(length_product_error=float(e1), mass_product_error=float(e2), mass_factor_error=float(e4)))


def uset_convert_bounded(seed):
    """bounded float: uset_convert scales grid locations AND coordinate-system origins, nothing else; geometry-based rigid-body modes of the converted
    table are the unit-converted rigid-body modes (cylindrical/spherical systems with offset origins)"""
    sys.path.insert(0, report.REPO)
    from pyyeti import cb
    from pyyeti.nastran import n2p
    rng = np.random.RandomState(seed)
    ev = 0
    for it in range(4):
        o = rng.randn(3) * 5
        A_, B_, C_ = o, o + rng.randn(3), o + rng.randn(3)
        cyl = np.vstack(([10, 2, 0], A_, B_, C_))
        sph = np.vstack(([20, 3, 0], A_ + 1.0, B_ + 1.0 + rng.randn(3) * .1, C_ + 1.0))
        uset = None
        grids = [[100, 0, rng.randn(3) * 3, 0], [200, 0, rng.randn(3) * 3, cyl], [300, 0, rng.randn(3) * 3, sph]]
        for gid, cin, xyz, cout in grids:
            uset = n2p.addgrid(uset, gid, "b", cin, xyz, cout)
        for conv in ("m2e", "e2m", (3.0, 2.0)):
            lc = cb._get_conv_factors(conv)[0]
            ref = np.array([1.0, -2.0, 0.5])
            u2, ref2 = cb.uset_convert(uset, ref, conv)
            ev += 1
            dof = uset.index.get_level_values("dof").values
            v0, v1 = uset.values, u2.values
            want = v0.copy()
            want[(dof == 1) | (dof == 3), 1:] *= lc
            if not np.allclose(v1, want, rtol=1e-13, atol=0) or not np.allclose(ref2, ref * lc):
                rows = np.nonzero(~np.isclose(v1, want, rtol=1e-13, atol=0).all(axis=1))[0]
                return ev, dict(what="uset_convert does not scale exactly the location rows (dof 1) and coordinate-system origin rows (dof 3) by the length factor",
                                conv=str(conv), failing_rows_dof=[int(dof[r]) for r in rows[:6]])
            rb0 = n2p.rbgeom_uset(uset, ref)
            rb1 = n2p.rbgeom_uset(u2, ref2)
            # translations unchanged, rotation-induced translations scale with length; rotational rows unchanged
            want_rb = rb0.copy()
            trn = np.nonzero(dof <= 3)[0]
            want_rb[np.ix_(trn, [3, 4, 5])] *= lc
            ev += 1
            if not np.allclose(rb1, want_rb, rtol=1e-9, atol=1e-9):
                return ev, dict(what="rigid-body modes of the unit-converted USET are not the unit-converted rigid-body modes (local frames of cyl/sph grids changed)",
                                conv=str(conv), max_diff=float(abs(rb1 - want_rb).max()))
    return ev, None


def cbcheck_bounded(seed, n_it):
    """bounded float: cbcheck on generated FREE 3-D structures (random geometry, 6-DOF nodes, lumped masses with inertia, rigid-link-consistent springs)
    reduced to Craig-Bampton form by this file's own code: the three rigid-body constructions coincide and equal geometry, the 6x6 mass they imply is
    that of the structure, rigid-body motion produces no stiffness force, modal effective mass + boundary residual == total mass per direction;
    boundary set first or last, reference = first or second boundary grid, with and without unit conversion"""
    import io, warnings
    sys.path.insert(0, report.REPO)
    from pyyeti import cb
    from pyyeti.nastran import n2p
    import scipy.linalg as la
    rng = np.random.RandomState(seed + 21)
    ev = 0

    def skew(p):
        return np.array([[0, -p[2], p[1]], [p[2], 0, -p[0]], [-p[1], p[0], 0]])

    def Trig(r):
        T = np.eye(6)
        T[:3, 3:] = -skew(r)
        return T
    for it in range(n_it):
        nn = rng.randint(5, 8)
        xyz = rng.randn(nn, 3) * 3
        N = 6 * nn
        M = np.zeros((N, N))
        for i in range(nn):
            mi = rng.uniform(1, 5)
            A_ = rng.randn(3, 3)
            Ii = A_ @ A_.T * 0.2 + 0.3 * np.eye(3)
            M[6 * i:6 * i + 3, 6 * i:6 * i + 3] = mi * np.eye(3)
            M[6 * i + 3:6 * i + 6, 6 * i + 3:6 * i + 6] = Ii
        K = np.zeros((N, N))
        pairs = [(i, i + 1) for i in range(nn - 1)] + [(0, nn - 1), (1, nn - 2)]
        drilling = bool(it % 7 == 6)
        if drilling:
            # the drilling DOF (RZ) of boundary grid 0 is not connected: no inertia about z there and every element attached to that grid measures its deformation
            # AT the grid and carries TX, TY, TZ, RX, RY only (the documented rb_norm use case); rigid-body motion still produces no force
            M[5, :] = 0.0; M[:, 5] = 0.0; M[3:5, 5] = 0.0
            M[3, 4] = M[4, 3] = 0.0
            pairs += [(0, 2)]
        for i, j in pairs:
            A_ = rng.randn(6, 6)
            Kd = A_ @ A_.T + 6 * np.eye(6)
            Kd *= 1e3
            G = np.zeros((6, N))
            if drilling and i == 0:
                G[:, 0:6] = -np.eye(6)
                G[:, 6 * j:6 * j + 6] = Trig(xyz[0] - xyz[j])
                G, Kd = G[:5], Kd[:5, :5]
            else:
                G[:, 6 * i:6 * i + 6] = -Trig(xyz[j] - xyz[i])
                G[:, 6 * j:6 * j + 6] = np.eye(6)
            K += G.T @ Kd @ G
        bn = [0, nn - 1]                                  # two boundary nodes -> indeterminate interface
        massless = bool(it % 5 == 4) and not drilling
        if massless:
            # a third, MASSLESS boundary grid tied by a stiff spring to boundary grid 0 only: massless DOF with stiffness in the reduced model
            xyz = np.vstack((xyz, xyz[0] + rng.randn(3)))
            N += 6
            M = np.pad(M, ((0, 6), (0, 6)))
            K = np.pad(K, ((0, 6), (0, 6)))
            A_ = rng.randn(6, 6)
            Kd = (A_ @ A_.T + 6 * np.eye(6)) * 1e3
            G = np.zeros((6, N))
            G[:, 0:6] = -Trig(xyz[nn] - xyz[0])
            G[:, 6 * nn:6 * nn + 6] = np.eye(6)
            K += G.T @ Kd @ G
            bn = [0, nn - 1, nn]
            nn += 1
        b = np.hstack([np.arange(6 * i, 6 * i + 6) for i in bn])
        o = np.array([i for i in range(N) if i not in b])
        Koo, Kob = K[np.ix_(o, o)], K[np.ix_(o, b)]
        Moo = M[np.ix_(o, o)]
        phic = -la.solve(Koo, Kob)
        w, phin = la.eigh(Koo, Moo)
        nq = [len(o), 5][it % 2]                          # all fixed-interface modes, or truncated
        phin = phin[:, :nq]
        T = np.zeros((N, len(b) + nq))
        T[b, :len(b)] = np.eye(len(b))
        T[np.ix_(o, np.arange(len(b)))] = phic
        T[np.ix_(o, len(b) + np.arange(nq))] = phin
        Mcb, Kcb = T.T @ M @ T, T.T @ K @ T
        nb = len(b)
        blast = bool(it % 3 == 1) and not drilling
        if blast:
            perm = np.hstack((np.arange(nb, nb + nq), np.arange(nb)))
            Mcb, Kcb = Mcb[np.ix_(perm, perm)], Kcb[np.ix_(perm, perm)]
            bseto = np.arange(nq, nq + nb)
        else:
            bseto = np.arange(nb)
        swapped = bool(it % 4 == 3) and not massless and not drilling
        noreorder = (bool(it % 6 == 5) or (massless and it % 2 == 0)) and not drilling and not swapped          # cbcheck(reorder=False): the b-set stays where it is
        if swapped:
            # the two boundary grids listed in swapped order in `bseto` (the USET table stays in ascending DOF order)
            bseto = np.hstack((bseto[6:], bseto[:6]))
        refnode = [0, 1][(it // 2) % 2]
        lo = min(bseto)
        bref = np.arange(lo + 6 * refnode, lo + 6 * refnode + 6)
        if drilling:
            # exact zeros for the unconnected DOF, reference DOF spread over two grids (grid 0 TX..RY + one translation of grid 1 that can react RZ)
            Kcb[5, :] = 0.0; Kcb[:, 5] = 0.0
            refnode = 0
            bref = np.array([0, 1, 2, 3, 4, 6 + int(np.argmax(abs(np.cross([0, 0, 1.0], xyz[bn[1]] - xyz[bn[0]]))))])
        # boundary grids with their own OUTPUT coordinate systems: grid 0 in a spherical system that has the grid on its polar axis (negative / positive side alternately),
        # grid 1 in a cylindrical system; the boundary DOF of the reduced matrices are then expressed in these local frames (u_basic = E u_local per grid)
        localcs = bool(it % 8 == 2) and not (drilling or massless or swapped)
        csout = [0] * len(bn)
        Eb = [np.eye(3) for _ in bn]
        if localcs:
            def _frame():
                q_ = rng.randn(4); q_ /= np.linalg.norm(q_)
                w_, x_, y_, z_ = q_
                return np.array([[1 - 2 * (y_ * y_ + z_ * z_), 2 * (x_ * y_ - z_ * w_), 2 * (x_ * z_ + y_ * w_)], [2 * (x_ * y_ + z_ * w_), 1 - 2 * (x_ * x_ + z_ * z_), 2 * (y_ * z_ - x_ * w_)],
                                 [2 * (x_ * z_ - y_ * w_), 2 * (y_ * z_ + x_ * w_), 1 - 2 * (x_ * x_ + y_ * y_)]])
            Ts = _frame()
            side = -1.0 if (it // 8) % 2 == 0 else 1.0
            Os = xyz[bn[0]] - side * 1.7 * Ts[:, 2]                          # the grid sits at local (0, 0, side * 1.7): on the polar axis
            csout[0] = np.vstack(([31, 3, 0], Os, Os + Ts[:, 2], Os + Ts[:, 0]))
            # local directions e_R, e_theta, e_phi at azimuth 0 (the documented convention on the axis): theta = 180 deg -> (-z, -x, y); theta = 0 -> (z, x, y)
            Eb[0] = np.column_stack((side * Ts[:, 2], side * Ts[:, 0], Ts[:, 1]))
            Tc = _frame()
            Oc = xyz[bn[1]] + rng.randn(3) + 2.0 * Tc[:, 0]
            gl = Tc.T @ (xyz[bn[1]] - Oc)
            thc = np.arctan2(gl[1], gl[0])
            csout[1] = np.vstack(([32, 2, 0], Oc, Oc + Tc[:, 2], Oc + Tc[:, 0]))
            Eb[1] = Tc @ np.array([[np.cos(thc), -np.sin(thc), 0], [np.sin(thc), np.cos(thc), 0], [0, 0, 1.0]])
            Tfull = np.eye(Mcb.shape[0])
            for k_ in range(len(bn)):
                pos_ = bseto[6 * k_:6 * k_ + 6]
                Tfull[np.ix_(pos_[:3], pos_[:3])] = Eb[k_]
                Tfull[np.ix_(pos_[3:], pos_[3:])] = Eb[k_]
            Mcb, Kcb = Tfull.T @ Mcb @ Tfull, Tfull.T @ Kcb @ Tfull
        uset = None
        for k_, i in enumerate(bn):
            uset = n2p.addgrid(uset, 10 * (k_ + 1), "b", 0, xyz[i], csout[k_])
        conv = [None, "m2e", (2.0, 3.0)][it % 3] if it >= 2 else None
        fobj = io.StringIO()
        with warnings.catch_warnings():
            warnings.simplefilter("ignore")
            try:
                out = cb.cbcheck(fobj, Mcb, Kcb, bseto, bref, uset, uref=xyz[bn[refnode]], conv=conv, **(dict(reorder=False) if noreorder else {}), **(dict(rb_norm=True) if (drilling or localcs) else {}))          # (local output systems: rb_norm expresses the stiffness-/eigenvalue-based modes relative to uref in basic, as the geometry-based ones are)
            except Exception as ex:
                tb = traceback.extract_tb(ex.__traceback__)
                return ev, dict(what="cbcheck raises on a valid free Craig-Bampton model: %r at %s:%s" % (ex, tb[-1].filename, tb[-1].lineno), b_last=blast, ref_node=refnode, conv=str(conv), massless_boundary_grid=massless, reorder=not noreorder)
        ev += 1
        lc, mc = (1.0, 1.0) if conv is None else cb._get_conv_factors(conv)
        ref = xyz[bn[refnode]]
        # geometry: rigid motion about the reference point at the boundary grids (converted lengths)
        bn_out = bn[::-1] if swapped else bn
        Eo = Eb[::-1] if swapped else Eb
        rbg_want = np.vstack([np.kron(np.eye(2), E_.T) @ np.block([[np.eye(3), -skew((xyz[i] - ref) * lc)], [np.zeros((3, 3)), np.eye(3)]]) for i, E_ in zip(bn_out, Eo)])
        # the structure's 6x6 rigid-body mass about the reference point, converted units
        RBfull = np.vstack([np.block([[np.eye(3), -skew(xyz[i] - ref)], [np.zeros((3, 3)), np.eye(3)]]) for i in range(nn)])
        M6 = RBfull.T @ M @ RBfull
        S6 = np.diag([1, 1, 1, lc, lc, lc])
        M6c = mc * S6 @ M6 @ S6
        prob = None
        keep_rows = np.array([r_ for r_ in range(rbg_want.shape[0]) if not (drilling and r_ == 5)])        # the unconnected drilling DOF carries no information
        tolg = 1e-6 * max(1.0, abs(rbg_want).max())
        if out.rbg.shape != rbg_want.shape or abs(out.rbg - rbg_want).max() > tolg:
            prob = "geometry-based rigid-body modes are not the rigid motion of the boundary grids about the reference point"
        elif abs((out.rbs[out.bset] - rbg_want)[keep_rows]).max() > 1e-5 * max(1.0, abs(rbg_want).max()) or abs((out.rbe[out.bset] - rbg_want)[keep_rows]).max() > 1e-4 * max(1.0, abs(rbg_want).max()):
            prob = "stiffness-/eigenvalue-based rigid-body modes differ from the geometry-based ones on the boundary"
        else:
            ms = out.rbs.T @ out.m @ out.rbs
            mg = out.rbg.T @ out.m[np.ix_(out.bset, out.bset)] @ out.rbg
            if abs(ms - M6c).max() > 1e-6 * abs(M6c).max():
                prob = "mass / cg / inertia implied by the stiffness-based rigid-body modes are not those of the underlying structure"
            elif abs(out.k @ out.rbs).max() > 1e-6 * abs(out.k).max() or abs(out.k @ out.rbe).max() > 1e-5 * abs(out.k).max():
                prob = "rigid-body motion produces stiffness force"
            else:
                q = np.array([i for i in range(out.m.shape[0]) if i not in out.bset])
                mqb = out.m[np.ix_(q, out.bset)]
                em = (mqb @ out.rbg) ** 2
                tot = np.diag(mg)
                if not np.allclose(np.asarray(out.effmass), em, rtol=1e-8, atol=1e-10 * abs(em).max()):
                    prob = "effmass table is not (Mqb rb)^2 per fixed-base mode"
                elif not np.allclose(np.asarray(out.effmass_percent), 100 * em / tot, rtol=1e-8, atol=1e-9):
                    prob = "effmass_percent is not 100 effmass / total"
                else:
                    resid = np.diag(out.rbg.T @ (out.m[np.ix_(out.bset, out.bset)]) @ out.rbg) - em.sum(axis=0)
                    # with ALL fixed-interface modes kept, effective mass + boundary residual == the structure's total in each direction
                    bound_only = np.diag(out.rbg.T @ (out.m[np.ix_(out.bset, out.bset)] - mqb.T @ mqb) @ out.rbg)
                    if nq == len(o) and not np.allclose(em.sum(axis=0) + bound_only, np.diag(M6c), rtol=1e-6):
                        prob = "modal effective mass + boundary residual != total mass in each direction"
                    frq_want = np.sqrt(np.abs(w[:nq])) / (2 * np.pi)
                    if prob is None and not np.allclose(np.sort(out.cb_frq), np.sort(frq_want), rtol=1e-6):
                        prob = "fixed-base frequencies changed (unit conversion / reordering must leave them unchanged)"
        if prob:
            return ev, dict(what="cbcheck: " + prob, nodes=int(nn), b_last=blast, ref_node=refnode, conv=str(conv), kept_modes=int(nq), massless_boundary_grid=massless, reorder=not noreorder, unconnected_drilling_dof=drilling,
                            boundary_grids_in_local_output_systems=localcs)
    return ev, None


def run(tier, seed):
    run = report.Run(PID, tier, seed)
    run.trust("sympy (polynomial/rational identities)", "vc.alg / vc.npx shims (np.allclose in ytools.mattype is decided at the witness: the symmetric precondition holds by construction)")
    run.assume("floats are reals", "cgmass: the 6x6 mass is that of one rigid body (m, I_cg, cg offset all symbolic): M = T^T diag(m I, I_cg) T",
               "cbtf: Craig-Bampton form (no b-q stiffness coupling), diagonal q-q blocks, 2 boundary + 2 modal DOF, all values symbolic",
               "cbreorder: all ordered b-sets of matrices of order <= 4 (entries symbolic); cbconvert: one boundary grid (6 DOF) + 0..2 modal DOF")
    run.not_covered += ["cbcheck deductively (eigh/solve numerics and tolerances): bounded float check on generated structures only; report text", "mk_net_drms, rbmultchk, rbdispchk",
                        "uset_convert (pandas): bounded float check only"]
    for rel, names in ((CB, ("cgmass", "cbtf", "cbreorder", "cbconvert", "_get_conv_factors", "uset_convert")), (YT, ("multmd", "mkpattvec", "mattype")), (LOC, ("flippv",))):
        for nd in ast.walk(ast.parse(report.read_source(rel))):
            if isinstance(nd, ast.FunctionDef) and nd.name in names:
                run.add_function(rel, nd.name, hashlib.sha256(ast.unparse(nd).encode()).hexdigest()[:16], {"note": "real function executed on symbolic inputs"})
    P = report.pool()
    jobs = [(cgmass_case, (False,)), (reorder_case, (3,)), (reorder_case, (4,)), (convert_case, ("sym", 2, True)), (convert_case, ("sym", 1, False)),
            (convert_case, ("m2e", 2, False)), (convert_case, ("e2m", 0, True)),
            (C15.cbtf_case, ((3, 0), False)), (C15.cbtf_case, ((0, 1), True)), (C15.cbtf_case, ((2, 1), True)), (C15.cbtf_case, ((1, 3), False))]
    rs = [P.apply_async(f, (a,)) for f, a in jobs]
    for (f, a), r in zip(jobs, rs):
        for d in r.get():
            run.add_verdicts([report.Verdict(d["name"], d["status"], "sympy-%s" % sp.__version__, d["seconds"], "post", CB, d["detail"])])
    d = conv_inverse()
    run.add_verdicts([report.Verdict(d["name"], d["status"], "exact rationals", 0.0, "post", CB, d["detail"])])
    ev, cf = report.guarded(run, uset_convert_bounded, seed)
    run.bounded.append(dict(name="float: uset_convert on generated USET tables (rectangular, offset cylindrical and spherical output systems) - only location and origin rows "
                                 "scale; rbgeom_uset of the converted table == unit-converted rigid-body modes", evaluations=ev, failures=0 if cf is None else 1,
                            label="bounded (never counted as proved)"))
    ev2, cf2 = report.guarded(run, cbcheck_bounded, seed, 8 if tier == "quick" else 420)
    run.bounded.append(dict(name="float: cbcheck on generated free 3-D structures (own Craig-Bampton reduction, 2 boundary grids, b-set first/last, reference = first/second grid, "
                                 "all/truncated modes, unit conversion): three rigid-body constructions coincide with geometry, mass properties of the structure, no grounding, "
                                 "effective-mass bookkeeping, fixed-base frequencies", evaluations=ev2, failures=0 if cf2 is None else 1, label="bounded (never counted as proved)"))
    failed = [v for v in run.verdicts if v.status == "failed"]
    if failed:
        v = failed[0]
        run.violation(v.name, "; ".join(x.name[:90] for x in failed[:5]), dict(failed=[x.as_dict() for x in failed[:8]], concrete=v.detail), concrete=True)
    elif cf is not None:
        run.violation("bounded:uset_convert", cf["what"], dict(concrete=cf), concrete=True)
    elif cf2 is not None:
        run.violation("bounded:cbcheck", cf2["what"], dict(concrete=cf2), concrete=True)
    return run.finish()


def replay(path):
    d = json.load(open(path))
    print(json.dumps(d.get("concrete"), indent=1)[:3000])
    return 1 if d.get("concrete") else 0
