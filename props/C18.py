"""C18 - DOF-set partitions and index look-ups (DESIGN.md section C18)."""
import ast
import warnings, hashlib, itertools, json, os, sys, time
from types import SimpleNamespace
import numpy as np
import z3
from vc import report, dse, alg
from vc.dse import I, B, Z, objarray

PID = "C18"
N2P = "pyyeti/nastran/n2p.py"
LOC = "pyyeti/locate.py"

BASE = ["m", "s", "o", "q", "r", "c", "b", "e"]
# the documented set hierarchy (Nastran set diagram quoted in the property)
UNION = {"l": ["c", "b"], "t": ["l", "r"], "a": ["t", "q"], "d": ["a", "e"], "f": ["a", "o"], "fe": ["f", "e"], "n": ["f", "s"],
         "ne": ["n", "e"], "g": ["n", "m"], "p": ["g", "e"]}


def members(s):
    if s in BASE:
        return {s}
    out = set()
    for x in UNION[s]:
        out |= members(x)
    return out


def V(name, st, det=None, where=""):
    return report.Verdict(name, st, "z3-" + z3.get_version_string(), 0.0, "post", where, det or {})


# ---------------------------------------------------------------------------------------------------------------
def usetmask_table(n2p, out):
    tab = n2p.mkusetmask()
    for a_, b_ in itertools.combinations(BASE, 2):
        out.append(V("mkusetmask::base sets %s, %s disjoint and non-empty" % (a_, b_), "proved" if (tab[a_] & tab[b_]) == 0 and tab[a_] and tab[b_] else "failed",
                     {"mask_a": tab[a_], "mask_b": tab[b_], "method": "evaluation of the constant table"}, N2P))
    allbase = 0
    for b_ in BASE:
        allbase |= tab[b_]
    for S in UNION:
        for b_ in BASE:
            want = b_ in members(S)
            got = (tab[b_] & tab[S]) != 0
            out.append(V("mkusetmask::%s in %s == %s" % (b_, S, want), "proved" if got == want else "failed", {"mask": tab[S], "method": "evaluation"}, N2P))
        # the base-set content of the superset's mask is exactly the union of its documented members' masks
        u = 0
        for x in members(S):
            u |= tab[x]
        out.append(V("mkusetmask::base-set bits of %s == union of the masks of %s" % (S, "+".join(sorted(members(S)))),
                     "proved" if (tab[S] & allbase) == u else "failed", {"mask": tab[S], "method": "evaluation"}, N2P))
    # 'x+y' expressions denote the UNION (bitwise or) of the named sets - for every ordered pair of set names in the table (the sets overlap:
    # 'a+b', 'q+q', 't+r' ...; a finite domain, so the enumeration is complete) and for three-term expressions over a spread of names
    names = [k for k in tab if isinstance(k, str)]
    bad = []
    for x in names:
        for y in names:
            if n2p.mkusetmask(x + "+" + y) != (tab[x] | tab[y]):
                bad.append(x + "+" + y)
    out.append(V("mkusetmask('x+y') == mask[x] | mask[y] for all %d ordered pairs of set names (overlapping and repeated sets included)" % (len(names) ** 2),
                 "failed" if bad else "proved", {"failing": bad[:8], "method": "exhaustive evaluation of a finite domain"}, N2P))
    bad = []
    for x, y, z_ in itertools.product(names[::3], names[1::3], names[2::3]):
        if n2p.mkusetmask("+".join((x, y, z_))) != (tab[x] | tab[y] | tab[z_]):
            bad.append("+".join((x, y, z_)))
    out.append(V("mkusetmask('x+y+z') == union, %d three-term expressions" % (len(names[::3]) * len(names[1::3]) * len(names[2::3])), "failed" if bad else "proved",
                 {"failing": bad[:8], "method": "evaluation"}, N2P))
    # lifted to every consistent USET word  u = mask[B] | X,  X within the own bits of the supersets containing B
    ownbits = {}
    for S in UNION:           # the superset's own NDDL bit(s): its mask minus the masks of its documented members
        u = 0
        for x in UNION[S]:
            u |= tab[x]
        ownbits[S] = tab[S] & ~u
    for b_ in BASE:
        allowed = 0
        for S in UNION:
            if b_ in members(S):
                allowed |= ownbits[S]
        X = z3.BitVec("X", 32)
        word = z3.BitVecVal(tab[b_], 32) | X
        pre = (X & z3.BitVecVal(~allowed & 0xFFFFFFFF, 32)) == 0
        for S in list(UNION) + BASE:
            want = b_ in members(S)
            st, det = dse.check([pre], ((word & z3.BitVecVal(tab[S], 32)) != 0) == want)
            out.append(V("USET word of a %s-set DOF with any consistent superset bits: member of %s == %s" % (b_, S, want), st, {"model": det} if det else {}, N2P))
    return tab


def mksetpv_case(args):
    major, minor, nrows = args
    n2p = alg.load_module(report.REPO, N2P)
    tab = n2p.mkusetmask()
    words = [B(z3.BitVec("u%d" % i, 32)) for i in range(nrows)]
    M, m_ = n2p.mkusetmask(major), n2p.mkusetmask(minor)
    inM = [(w.v & z3.BitVecVal(M, 32)) != 0 for w in words]
    inm = [(w.v & z3.BitVecVal(m_, 32)) != 0 for w in words]
    res = []
    ex = dse.Explorer()
    npth = 0

    def body():
        uset = {"nasset": SimpleNamespace(values=objarray(list(words)))}
        return n2p.mksetpv(uset, major, minor)

    with dse.ShimZ(n2p):
        for pc, val, exc in ex.explore(body):
            npth += 1
            bad = z3.Or(*[z3.And(inm[i], z3.Not(inM[i])) for i in range(nrows)])
            nm = "mksetpv[%s,%s,%d rows]::path%d" % (major, minor, nrows, npth)
            if exc is not None:
                if not dse.genuine_exception(exc):
                    res.append((nm + ".symbolic execution", "undecided", "shim limitation: %r" % (exc,)))
                    continue
                st, det = dse.check(pc, bad) if isinstance(exc, ValueError) else ("failed", {"exception": repr(exc)})
                res.append((nm + ".refused only when the minor set is not contained in the major set", st, det))
                continue
            st, det = dse.check(pc, z3.Not(bad))
            res.append((nm + ".accepted only when contained", st, det))
            # length == count(major); entries == inMinor of the major rows in table order
            sel = []
            k = 0
            ok_len = z3.BoolVal(True)
            cnt = z3.Sum([z3.If(x, 1, 0) for x in inM])
            st, det = dse.check(pc, cnt == len(val))
            res.append((nm + ".len(pv) == number of major DOF", st, det))
            goals = []
            for i in range(nrows):
                # position of row i inside pv = number of major rows before it
                pos = z3.Sum([z3.If(inM[j], 1, 0) for j in range(i)]) if i else z3.IntVal(0)
                for kk in range(len(val)):
                    goals.append(z3.Implies(z3.And(inM[i], pos == kk), inm[i] == bool(val[kk])))
            st, det = dse.check(pc, z3.And(*goals) if goals else z3.BoolVal(True))
            res.append((nm + ".pv selects exactly the minor DOF, in table order", st, det))
    return args, npth, res


def mkdofpv_case(args):
    nset, nreq, strict = args
    n2p = alg.load_module(report.REPO, N2P)
    ids = [I(z3.Int("id%d" % i)) for i in range(nset)]
    dfs = [I(z3.Int("df%d" % i)) for i in range(nset)]
    rid = [I(z3.Int("rid%d" % i)) for i in range(nreq)]
    rdf = [I(z3.Int("rdf%d" % i)) for i in range(nreq)]
    code = [i_.v * 10 + d_.v for i_, d_ in zip(ids, dfs)]
    rcode = [i_.v * 10 + d_.v for i_, d_ in zip(rid, rdf)]
    pre = [z3.And(i_.v >= 1, i_.v <= 50, d_.v >= 0, d_.v <= 6) for i_, d_ in list(zip(ids, dfs)) + list(zip(rid, rdf))]
    pre.append(z3.Distinct(*code) if nset > 1 else z3.BoolVal(True))
    res, npth = [], 0
    ex = dse.Explorer(max_paths=20000)

    def body():
        uset = objarray([x for p in zip(ids, dfs) for x in p], (nset, 2))
        dof = objarray([x for p in zip(rid, rdf) for x in p], (nreq, 2))
        return n2p.mkdofpv(uset, "p", dof, strict=strict)

    present = [z3.Or(*[rc == c for c in code]) for rc in rcode]
    # expanddof's contract for (id, component 0..6) pairs: identity (checked separately by evaluation)
    def _paths():
        # a configuration whose path count exceeds the explorer's budget is reported as undecided (what was explored up to then stands), never as a crash
        try:
            for item in ex.explore(body, assumptions=pre):
                yield item
        except RuntimeError as rex:
            if "path budget" not in str(rex):
                raise
            res.append(("mkdofpv[set %d, request %d, strict=%s]::all paths explored" % (nset, nreq, strict), "undecided", "path budget of the explorer exceeded after %d paths" % npth))
    with dse.ShimZ(n2p):
        for pc, val, exc in _paths():
            npth += 1
            nm = "mkdofpv[set %d, request %d, strict=%s]::path%d" % (nset, nreq, strict, npth)
            if exc is not None:
                if strict and isinstance(exc, ValueError):
                    st, det = dse.check(pc, z3.Not(z3.And(*present)))
                    res.append((nm + ".refused only when a requested DOF is missing", st, det))
                elif dse.genuine_exception(exc):
                    res.append((nm + ".no exception", "failed", {"exception": repr(exc)}))
                else:
                    res.append((nm + ".symbolic execution", "undecided", "shim limitation: %r" % (exc,)))
                continue
            pv, dout = val
            if strict:
                st, det = dse.check(pc, z3.And(*present))
                res.append((nm + ".strict: accepted only when every requested DOF is present", st, det))
            # the outputs are the present requests in request order, with their table positions
            goals = [z3.Sum([z3.If(p_, 1, 0) for p_ in present]) == len(pv), z3.BoolVal(len(pv) == len(dout))]
            for r in range(nreq):
                pos = z3.Sum([z3.If(present[j], 1, 0) for j in range(r)]) if r else z3.IntVal(0)
                for kk in range(len(pv)):
                    pk = I.lift(pv[kk]).v
                    hit = z3.Or(*[z3.And(pk == t, code[t] == rcode[r]) for t in range(nset)])
                    same_out = z3.And(I.lift(dout[kk, 0]).v == rid[r].v, I.lift(dout[kk, 1]).v == rdf[r].v)
                    goals.append(z3.Implies(z3.And(present[r], pos == kk), z3.And(hit, same_out)))
            st, det = dse.check(pc, z3.And(*goals))
            res.append((nm + ".positions of exactly the requested pairs, in request order", st, det))
    return args, npth, res


def index2slice_case(n):
    loc = alg.load_module(report.REPO, LOC)
    pv = [I(z3.Int("pv%d" % i)) for i in range(n)]
    pre = [z3.And(p.v >= -3, p.v <= 12) for p in pv]
    res, npth = [], 0
    ex = dse.Explorer()
    L = z3.Int("L")

    def body():
        return loc.index2slice(objarray(list(pv)))

    with dse.ShimZ(loc):
        for pc, val, exc in ex.explore(body, assumptions=pre):
            npth += 1
            nm = "index2slice[len %d]::path%d" % (n, npth)
            if exc is not None:
                if dse.genuine_exception(exc):
                    res.append((nm + ".no exception (strict=False)", "failed", {"exception": repr(exc)}))
                else:
                    res.append((nm + ".symbolic execution", "undecided", "shim limitation: %r" % (exc,)))
                continue
            if isinstance(val, slice):
                # x[val] == x[pv] for every x long enough (and non-negative indices; negative single index handled below)
                start = I.lift(val.start).v if val.start is not None else None
                step = I.lift(val.step).v if val.step is not None else z3.IntVal(1)
                stop = I.lift(val.stop).v if val.stop is not None else None
                if n == 0:
                    st, det = dse.check(pc, z3.And(start is None or True, stop == 0))
                    res.append((nm + ".empty index -> empty slice", st, det))
                    continue
                goals = []
                longenough = z3.And(*[z3.And(p.v < L, p.v >= -L) for p in pv])
                norm = lambda e: z3.If(e < 0, e + L, e)
                # python slice semantics for a sequence of length L (start given, step != 0)
                s0 = norm(start)
                if stop is None:
                    count = z3.If(step > 0, (L - s0 + step - 1) / step, (s0 + (-step)) / (-step))
                else:
                    e0 = z3.If(stop < 0, z3.If(stop + L < 0, z3.If(step > 0, 0, -1), stop + L), z3.If(stop > L, L, stop))
                    count = z3.If(step > 0, z3.If(e0 > s0, (e0 - s0 + step - 1) / step, 0), z3.If(s0 > e0, (s0 - e0 + (-step) - 1) / (-step), 0))
                goals.append(count == n)
                for k_ in range(n):
                    goals.append(s0 + k_ * step == norm(pv[k_].v))
                st, det = dse.check(pc + [longenough, L >= 1, step != 0], z3.And(*goals))
                res.append((nm + ".x[slice] == x[pv] for every x long enough", st, det))
            else:
                got = [I.lift(x).v for x in np.asarray(val).reshape(-1)]
                st, det = dse.check(pc, z3.And(z3.BoolVal(len(got) == n), *[g == p.v for g, p in zip(got, pv)]))
                res.append((nm + ".returned unchanged when not a slice", st, det))
    return n, npth, res


def concrete_helpers(repo, seed, n):
    """bounded: the helpers that hash or view bytes (no symbolic execution possible) against their defining equations"""
    loc = alg.load_module(repo, LOC)
    n2p = alg.load_module(repo, N2P)
    rng = np.random.RandomState(seed)
    ev = 0
    for it in range(n):
        # find_duplicates: dups[i] <=> exists j != i with |v_i - v_j| <= tol   (tol = 0: exact repeats)
        L = rng.randint(0, 8)
        v = rng.randint(0, 5, size=L).astype(float)
        d = loc.find_duplicates(v)
        ev += 1
        want = np.array([any(v[i] == v[j] for j in range(L) if j != i) for i in range(L)], bool)
        if not np.array_equal(d, want):
            return ev, dict(function="find_duplicates", v=v.tolist(), got=d.tolist(), want=want.tolist())
        # index2bool / flippv
        nn = rng.randint(1, 9)
        pv = np.unique(rng.randint(0, nn, size=rng.randint(0, nn + 1)))
        tf = loc.index2bool(pv, nn)
        fl = loc.flippv(pv, nn)
        ev += 2
        if not (np.array_equal(tf.nonzero()[0], pv) and np.array_equal(fl, np.setdiff1d(np.arange(nn), pv))):
            return ev, dict(function="index2bool/flippv", pv=pv.tolist(), n=nn, got=[tf.tolist(), fl.tolist()])
        # the same two with from-the-end (negative) indices and with a boolean mask: "complement of a[pv]" / "True where a[pv] selects"
        raw = [int(k_) - (nn if rng.rand() < 0.5 else 0) for k_ in pv]
        for form in ("neg", "bool"):
            arg = np.array(raw, int) if form == "neg" else np.isin(np.arange(nn), pv)
            sel = sorted({k_ % nn for k_ in raw}) if form == "neg" else pv.tolist()
            fl2 = loc.flippv(arg, nn)
            ev += 1
            if np.asarray(fl2).tolist() != [k_ for k_ in range(nn) if k_ not in sel]:
                return ev, dict(function="flippv", pv=np.asarray(arg).tolist(), n=nn, got=np.asarray(fl2).tolist(), want=[k_ for k_ in range(nn) if k_ not in sel])
            if form == "neg":
                tf2 = loc.index2bool(arg, nn)
                ev += 1
                if tf2.nonzero()[0].tolist() != sel:
                    return ev, dict(function="index2bool", pv=np.asarray(arg).tolist(), n=nn, got=tf2.tolist())
        # mat_intersect: D1[pv1] == D2[pv2] row-wise; every common row reported
        r1, r2 = rng.randint(0, 6), rng.randint(0, 6)
        ncol_ = (2, 1, 3, 2)[it % 4]
        pool_ = rng.randint(0, 4, size=(6, ncol_))
        D1 = pool_[rng.permutation(6)[:r1]] if r1 else np.zeros((0, ncol_), int)
        D2 = pool_[rng.permutation(6)[:r2]] if r2 else np.zeros((0, ncol_), int)
        # element types: int/int, float/float with fractional values, and mixed int/float where the float operand has values an integer cannot hold
        # (x.5 next to the integer x); 1-D vectors for one column
        tk = (it // 4) % 5
        if tk == 1:
            D1, D2 = D1 + 0.5 * (D1 % 2), D2 + 0.5 * (D2 % 2)
        elif tk in (2, 3) and r1 and r2:
            Df = (D1 if tk == 2 else D2).astype(float)
            Df[rng.rand(*Df.shape) < 0.4] += 0.5
            D1, D2 = (Df, D2) if tk == 2 else (D1, Df)
        elif tk == 4:
            D1, D2 = D1.astype(np.int32), D2.astype(np.int64)
        if ncol_ == 1 and it % 8 < 4:
            D1, D2 = D1.ravel(), D2.ravel()
        for keep in (0, 1, 2):
            if r1 == 0 or r2 == 0:
                continue
            pv1, pv2 = loc.mat_intersect(D1, D2, keep)
            ev += 1
            ok = np.array_equal(D1[pv1], D2[pv2]) and len(pv1) == len(pv2)
            common1 = [i for i in range(r1) if any(np.all(D1[i] == D2[j]) for j in range(r2))]
            common2 = [j for j in range(r2) if any(np.all(D1[i] == D2[j]) for i in range(r1))]
            if keep == 1 or (keep == 0 and r1 <= r2):
                ok = ok and sorted(set(pv1.tolist())) == common1 and pv1.tolist() == sorted(pv1.tolist())
            if keep == 2 or (keep == 0 and r1 > r2):
                ok = ok and sorted(set(pv2.tolist())) == common2 and pv2.tolist() == sorted(pv2.tolist())
            if not ok:
                return ev, dict(function="mat_intersect", D1=D1.tolist(), D2=D2.tolist(), keep=keep, pv1=pv1.tolist(), pv2=pv2.tolist())
        # find_vals / find_subseq / find_rows / find_unique against their defining statements
        mm = rng.randint(0, 5, size=(rng.randint(1, 4), rng.randint(1, 4))) + (0.5 if it % 3 == 0 else 0)
        vv = rng.randint(0, 5, size=rng.randint(1, 4)) + (0.5 if it % 3 == 0 else 0)
        fv = loc.find_vals(mm, vv if it % 2 else vv[0])
        ev += 1
        flat = [mm[i_, j_] for j_ in range(mm.shape[1]) for i_ in range(mm.shape[0])]          # column-major order
        vlist = list(vv) if it % 2 else [vv[0]]
        if fv.dtype != bool or fv.tolist() != [x_ in vlist for x_ in flat]:
            return ev, dict(function="find_vals", m=mm.tolist(), v=vlist, got=fv.tolist())
        sq = rng.randint(0, 3, size=rng.randint(1, 12))
        sb = rng.randint(0, 3, size=rng.randint(1, 4))
        fs_ = loc.find_subseq(sq, sb)
        ev += 1
        want_ = [i_ for i_ in range(len(sq) - len(sb) + 1) if list(sq[i_:i_ + len(sb)]) == list(sb)]
        if list(fs_) != want_:
            return ev, dict(function="find_subseq", seq=sq.tolist(), subseq=sb.tolist(), got=list(map(int, fs_)), want=want_)
        mr = rng.randint(-2, 3, size=(rng.randint(1, 7), rng.randint(1, 4))).astype(float if it % 2 else int)
        rw = mr[rng.randint(mr.shape[0])].copy() if rng.rand() < 0.7 else rng.randint(-2, 3, size=mr.shape[1])
        fr = loc.find_rows(mr, rw)
        ev += 1
        if list(np.asarray(fr, bool)) != [bool(np.all(mr[i_] == rw)) for i_ in range(mr.shape[0])]:
            return ev, dict(function="find_rows", matrix=mr.tolist(), row=np.asarray(rw).tolist(), got=np.asarray(fr).tolist())
        if len(loc.find_rows(mr, np.hstack((rw, 1)))) not in (0,) and np.any(loc.find_rows(mr, np.hstack((rw, 1)))):
            return ev, dict(function="find_rows", what="a row of another length is reported as found")
        yu = np.cumsum(rng.choice([0.0, 0.0, 1.0, -2.0, 1e-9, 0.5], size=rng.randint(2, 12)))
        tolu = [1e-6, 1e-3, 0.0][it % 3]
        fu = loc.find_unique(yu, tolu)
        ev += 1
        dd = np.diff(yu)
        wantu = [True] + [bool(abs(x_) > abs(tolu * abs(dd).max())) for x_ in dd]
        if fu.tolist() != wantu:
            return ev, dict(function="find_unique", y=yu.tolist(), tol=tolu, got=fu.tolist(), want=wantu)
        # list_intersect / merge_lists
        a = [int(x) for x in rng.permutation(7)[: rng.randint(0, 6)]]
        b = [int(x) for x in rng.permutation(7)[: rng.randint(0, 6)]]
        p1, p2 = loc.list_intersect(a, b)
        ev += 1
        if [a[i] for i in p1] != [b[j] for j in p2] or sorted(a[i] for i in p1) != sorted(set(a) & set(b)):
            return ev, dict(function="list_intersect", a=a, b=b, pv1=list(p1), pv2=list(p2))
        ml, q1, q2 = loc.merge_lists(a, b)
        ev += 1
        if [ml[i] for i in q1] != a or [ml[i] for i in q2] != b or sorted(ml) != sorted(set(a) | set(b)):
            return ev, dict(function="merge_lists", a=a, b=b, merged=list(ml))
    # mkdofpv (NumPy-table form) against brute force: positions of exactly the requested pairs, in request order
    for it in range(n):
        ns = rng.randint(1, 5)
        codes = rng.permutation(12)[:ns]
        uset = np.column_stack((codes // 3 + 1, codes % 3 + 1))
        nr = rng.randint(1, 7)
        rc = rng.randint(0, 12, size=nr)
        req = np.column_stack((rc // 3 + 1, rc % 3 + 1))
        table = {(int(a_), int(b_)): i for i, (a_, b_) in enumerate(uset)}
        want = [(table[(int(a_), int(b_))], [int(a_), int(b_)]) for a_, b_ in req if (int(a_), int(b_)) in table]
        for strict in (False, True):
            ev += 1
            try:
                pv, dout = n2p.mkdofpv(uset, "p", req, strict=strict)
                got = list(zip(pv.tolist(), dout.tolist()))
                ok = got == [(w0, w1) for w0, w1 in want] and (not strict or len(want) == nr)
            except ValueError:
                ok = strict and len(want) < nr
            if not ok:
                return ev, dict(function="mkdofpv", uset=uset.tolist(), request=req.tolist(), strict=strict, want=[list(w) for w in want])
    # expanddof: exhaustive over the documented component codes
    for k in range(1, 7):
        for digs in itertools.combinations("123456", k):
            c = int("".join(digs))
            got = n2p.expanddof([[9, c], [4, 1234567 % 7 + 0 * c]])
            ev += 1
            want = [[9, int(d_)] for d_ in digs]
            if c <= 6:
                continue
            if got[: len(digs)].tolist() != want:
                return ev, dict(function="expanddof", request=[[9, c]], got=got.tolist(), want=want)
    for bad in (7, 17, 128, 90):
        ev += 1
        try:
            n2p.expanddof([[1, bad], [2, 123]])
            if bad != 90 or True:
                return ev, dict(function="expanddof", request=[[1, bad]], what="component digit > 6 accepted")
        except ValueError:
            pass
    got = n2p.expanddof([3, 5]).tolist()
    if got != [[g, i] for g in (3, 5) for i in range(1, 7)]:
        return ev, dict(function="expanddof", request=[3, 5], got=got)
    return ev, None


def run(tier, seed):
    run = report.Run(PID, tier, seed)
    run.trust("z3 (Int, BitVec)", "vc.dse dynamic symbolic execution shim; NumPy's argsort/searchsorted/nonzero/diff/fancy indexing run for real on object arrays "
              "(their comparison-driven control flow is explored exhaustively)")
    run.assume("pandas plumbing (uset['nasset'].values, index levels) returns the stored columns: mksetpv is given the column directly, mkdofpv its NumPy-table form (nasset='p')",
               "array shapes are fixed per configuration (rows <= 4); values are fully symbolic within ids 1..50 / indices -3..12")
    run.not_covered += ["addgrid construction of the table (make_uset: bounded only)", "array lengths above the explored shapes (row-wise / order-type argument not mechanised)"]
    n2p = alg.load_module(report.REPO, N2P)
    for rel, names in ((N2P, ("mkusetmask", "mksetpv", "mkdofpv", "expanddof")), (LOC, ("index2slice", "index2bool", "flippv", "find_duplicates", "mat_intersect", "list_intersect", "merge_lists"))):
        for nd in ast.parse(report.read_source(rel)).body:
            if isinstance(nd, ast.FunctionDef) and nd.name in names:
                run.add_function(rel, nd.name, hashlib.sha256(ast.unparse(nd).encode()).hexdigest()[:16], {"note": "real function object"})
    vs = []
    usetmask_table(n2p, vs)
    P = report.pool()
    setcases = [(M, m_, 3) for M, m_ in (("p", "b"), ("a", "q"), ("a", "b+c"), ("g", "m"), ("f", "o"), ("n", "s"), ("t", "r"), ("a", "o"), ("b", "a"), ("l", "q"))]
    dofcases = [(3, 2, True), (3, 2, False), (2, 3, False), (2, 3, True)] + ([(2, 4, False), (3, 3, True)] if tier == "thorough" else [])
    r1 = P.map_async(mksetpv_case, setcases, chunksize=1)
    r2 = P.map_async(mkdofpv_case, dofcases, chunksize=1)
    r3 = P.map_async(index2slice_case, [0, 1, 2, 3, 4], chunksize=1)
    paths = {}
    for tag, rr in (("mksetpv", r1), ("mkdofpv", r2), ("index2slice", r3)):
        for args, npth, res in rr.get():
            paths["%s%s" % (tag, args)] = npth
            for name, st, det in res:
                vs.append(V(name, st if st in ("proved", "failed") else "undecided", {"model": det} if st == "failed" else ({"reason": det} if st == "undecided" else {}),
                            N2P if tag != "index2slice" else LOC))
            vs.append(V("%s%s::explored" % (tag, args), "proved" if npth > 0 else "failed", {"paths": npth}))
    run.add_verdicts(vs)
    run.notes.append({"paths per configuration": paths})
    ev, cf = report.guarded(run, concrete_helpers, report.REPO, seed, 400 if tier == "quick" else 6000)
    run.bounded.append(dict(name="find_duplicates, index2bool, flippv, mat_intersect (keep 0/1/2, mixed element types), find_vals, find_subseq, find_rows, find_unique, list_intersect, merge_lists on random small inputs and "
                                 "expanddof over all 63 component codes + invalid digits, against their defining equations", evaluations=ev,
                            failures=0 if cf is None else 1, label="bounded (hash / byte-view based helpers cannot be executed symbolically)"))
    ev2, cf2 = report.guarded(run, make_uset_bounded, report.REPO, seed, 150 if tier == "quick" else 2500)
    run.bounded.append(dict(name="make_uset: mixes of compact grids / bare ids, grids written out as six rows and scalar points, per-row sets as letters or masks or one set for all: table rows, "
                                 "base set of every row, mksetpv per base set, mkdofpv look-up", evaluations=ev2, failures=0 if cf2 is None else 1, label="bounded (never counted as proved)"))
    cf = cf or cf2
    failed = [v for v in vs if v.status == "failed"]
    if failed:
        run.violation(failed[0].name, "obligation(s) failed: " + ", ".join(v.name for v in failed[:5]),
                      dict(failed=[v.as_dict() for v in failed[:10]], concrete=cf or model_input(failed[0])), concrete=True if (cf or model_input(failed[0])) else False)
    elif cf is not None:
        run.violation("bounded:" + cf["function"], "defining equation violated by %s" % cf["function"], dict(concrete=cf), concrete=True)
    return run.finish()


def make_uset_bounded(repo, seed, n):
    """bounded: n2p.make_uset builds the table the DOF list and the per-row / single set assignment describe - rows (id, dof) in entity order with grids expanded to
    1..6, every row in exactly the base set given for it - for every mix of compact grids [id, 123456] (or bare ids), grids written out as six rows and scalar points;
    mksetpv / mkdofpv on the result agree with the assignment"""
    n2p = alg.load_module(repo, N2P)
    rng = np.random.RandomState(seed + 77)
    base = "msoqrcbe"
    ev = 0
    for it in range(n):
        ne = rng.randint(1, 5)
        ids = (rng.permutation(40)[:ne] + 1).tolist()
        if it % 3 == 0:
            ids = sorted(ids)
        kinds = [("compact", "expanded", "spoint")[rng.randint(3)] for _ in ids]
        if it % 7 == 3:
            kinds = ["compact"] * ne
        dof, sets, want = [], [], []
        for i_, k_ in zip(ids, kinds):
            if k_ == "compact":
                L = base[rng.randint(8)]
                dof.append([i_, 123456]); sets.append(L)
                want += [(i_, d_, L) for d_ in range(1, 7)]
            elif k_ == "expanded":
                Ls = [base[rng.randint(8)] for _ in range(6)] if rng.rand() < 0.8 else [base[rng.randint(8)]] * 6
                for d_, L in zip(range(1, 7), Ls):
                    dof.append([i_, d_]); sets.append(L)
                    want.append((i_, d_, L))
            else:
                L = base[rng.randint(8)]
                dof.append([i_, 0]); sets.append(L)
                want.append((i_, 0, L))
        forms = [("letters", sets), ("masks", [int(n2p.mkusetmask(L)) for L in sets])]
        if len(set(sets)) == 1:
            forms.append(("single", sets[0]))
        darg = np.array(dof)
        if all(k_ == "compact" for k_ in kinds) and it % 2:
            darg = np.array(ids)               # bare ids = grids
        for fname, nas in forms:
            ev += 1
            try:
                with warnings.catch_warnings():
                    warnings.simplefilter("ignore")
                    u = n2p.make_uset(darg, nas)
            except ValueError:
                raise
            got_idx = [(int(a_), int(b_)) for a_, b_ in u.index.tolist()]
            got_set = [int(x_) for x_ in u["nasset"].values]
            ok = got_idx == [(a_, b_) for a_, b_, _ in want] and got_set == [int(n2p.mkusetmask(L)) for _, _, L in want]
            if ok:
                for L in base:
                    pvs = n2p.mksetpv(u, "p", L)
                    if pvs.tolist() != [w_[2] == L for w_ in want]:
                        ok = False
            if ok and want:
                k_ = rng.randint(len(want))
                pos = n2p.mkdofpv(u, "p", [[want[k_][0], max(want[k_][1], 0)]])[0]
                ok = list(pos) == [k_]
            if not ok:
                return ev, dict(function="make_uset", dof=np.asarray(darg).tolist(), nasset=nas if isinstance(nas, str) else list(nas), form=fname,
                                got=[list(a_) + [b_] for a_, b_ in zip(got_idx, got_set)][:30], want=[[a_, b_, int(n2p.mkusetmask(L))] for a_, b_, L in want][:30])
    return ev, None


def model_input(v):
    m = v.detail.get("model")
    if not isinstance(m, dict):
        return None
    keys = sorted(k for k in m if k[:2] in ("pv", "id", "df", "ri", "rd") or k[0] == "u")
    return {k: m[k] for k in keys} or None


def replay(path):
    d = json.load(open(path))
    print(json.dumps(d.get("concrete"), indent=1)[:3000])
    return 1 if d.get("concrete") else 0
