"""C16 - Loads-analysis extrema / envelopes (DESIGN.md section C16)."""
import ast, copy, hashlib, json, os, sys, time, itertools
from types import SimpleNamespace
import numpy as np
import z3
from vc import report, dse, alg
from vc.dse import Z, same

PID = "C16"
FILE = "pyyeti/cla/_utilities.py"
NEW, OLD = 7, 3          # integer codes of the case labels inside the abstract multiset S


def zf(name, nan=True):
    return Z(z3.Real(name), z3.Bool(name + "_nan") if nan else z3.BoolVal(False))


def arr(rows):
    a = np.empty((len(rows), len(rows[0])), dtype=object)
    for i, r in enumerate(rows):
        for j, e in enumerate(r):
            a[i, j] = e
    return a


# --- the abstract multiset S of (value, abscissa, label) already enveloped -----------------------------------------
# Env(M, Mx, lab ; S, kind):  (bounded)  every member t of S is NaN or  key(t) <= key(M)  with M not NaN
#                             (attained) M is NaN, or some member has value M, abscissa Mx and label lab
# S is abstract (uninterpreted membership inS), so the statement covers every history of earlier cases.  The quantifiers are
# eliminated by hand: the goal's universal is skolemised (t0), the hypothesis is instantiated at t0, the hypothesis'
# existential is a skolem witness w, the goal's existential may choose w or the new case.
inS = z3.Function("inS", z3.RealSort(), z3.BoolSort(), z3.RealSort(), z3.BoolSort(), z3.IntSort(), z3.BoolSort())


def absz(v):
    return z3.If(v >= 0, v, -v)


def _ord(kind):
    key = (lambda v: v) if kind in ("max", "min") else absz
    return (lambda a, b: key(a) <= key(b)) if kind in ("max", "absmax") else (lambda a, b: key(a) >= key(b))


class Member:
    def __init__(self, tag):
        self.v, self.n = z3.Real(tag + "_v"), z3.Bool(tag + "_n")
        self.xv, self.xn, self.lab = z3.Real(tag + "_xv"), z3.Bool(tag + "_xn"), z3.Int(tag + "_lab")

    def inS(self):
        return inS(self.v, self.n, self.xv, self.xn, self.lab)

    def equals(self, val, x, lab):
        return z3.And(self.n == val.nan, z3.Or(self.n, self.v == val.val), same(Z(self.xv, self.xn), x), self.lab == lab)


def env_hyp(M, Mx, kind, t0, w):
    """hypothesis Env(M, Mx, OLD; S) instantiated at the arbitrary member t0, with skolem witness w"""
    le = _ord(kind)
    return [z3.Implies(t0.inS(), z3.Or(t0.n, z3.And(z3.Not(M.nan), le(t0.v, M.val)))),
            z3.Implies(w.inS(), z3.Or(w.n, z3.And(z3.Not(M.nan), le(w.v, M.val)))),
            z3.Or(M.nan, z3.And(w.inS(), z3.Not(w.n), w.v == M.val, same(Z(w.xv, w.xn), Mx), w.lab == OLD))]


def env_goal(M2, Mx2, lab2, kind, t0, w, new, newx, have_old):
    """goal Env(M2, Mx2, lab2; S + {new}) with t0 the skolemised arbitrary member and candidates {w, new} for the witness"""
    le = _ord(kind)
    member2 = z3.Or(t0.inS(), t0.equals(new, newx, NEW)) if have_old else t0.equals(new, newx, NEW)
    bounded = z3.Implies(member2, z3.Or(t0.n, z3.And(z3.Not(M2.nan), le(t0.v, M2.val))))
    cands = [z3.And(z3.Not(new.nan), new.val == M2.val, same(newx, Mx2), lab2 == NEW)]
    if have_old:
        cands.append(z3.And(w.inS(), z3.Not(w.n), w.v == M2.val, same(Z(w.xv, w.xn), Mx2), w.lab == lab2))
    return z3.And(bounded, z3.Or(M2.nan, *cands))


LAB = {"OLD": OLD, "NEW": NEW}


def extrema_cases(mod):
    """yield (name, body, assumptions, post)  for the explorer"""
    for ncol in (2, 1):
        for first in (False, True):
            for withx in (True, False) + (() if first else ("table only",)):
                for casenum in (None, 0):
                    yield ncol, first, withx, casenum


def run_extrema(mod, ncol, first, withx, casenum, results):
    # withx == "table only": the running table carries abscissae, the new case has none - where the new case wins, the abscissa must become NaN (not stay that of a beaten case)
    tag = "extrema[cols=%d,%s,%s,casenum=%s]" % (ncol, "first call" if first else "update", {True: "with abscissa", False: "no abscissa"}.get(withx, "table with / new case without abscissa"), casenum)
    curx, withx = bool(withx), withx is True
    M, m_, Mx, mx_ = zf("M"), zf("m"), zf("Mx"), zf("mx")
    a, b, ax, bx = zf("a"), zf("b"), zf("ax"), zf("bx")
    nanx = Z(0, z3.BoolVal(True))
    kinds = ("max", "min") if ncol == 2 else ("absmax", "absmin")
    t0 = [Member("t0max"), Member("t0min")]
    w = [Member("wmax"), Member("wmin")]
    hyp = []
    if not first:
        hyp = env_hyp(M, Mx if curx else nanx, kinds[0], t0[0], w[0]) + env_hyp(m_, mx_ if curx else nanx, kinds[1], t0[1], w[1])

    state = {}

    def body():
        cur = SimpleNamespace(ext=None if first else arr([[M, m_]]), ext_x=None if (first or not curx) else arr([[Mx, mx_]]),
                              maxcase=None if first else ["OLD"], mincase=None if first else ["OLD"])
        if casenum is not None:
            cur.mx, cur.mn = arr([[zf("p0", False)]]), arr([[zf("p1", False)]])
            cur.mx_x, cur.mn_x = arr([[zf("p2", False)]]), arr([[zf("p3", False)]])
        mm = SimpleNamespace(ext=arr([[a, b]]) if ncol == 2 else arr([[a]]),
                             ext_x=(arr([[ax, bx]]) if ncol == 2 else arr([[ax]])) if withx else None)
        state["mm"], state["mm_ext0"] = mm, list(mm.ext.reshape(-1))
        mod.extrema(cur, mm, "NEW", casenum=casenum)
        return cur

    ex = dse.Explorer()
    npaths = 0
    with dse.ShimZ(mod):
        for pc, cur, exc in ex.explore(body):
            npaths += 1
            pname = "%s::path%d" % (tag, npaths)
            if exc is not None:
                if dse.genuine_exception(exc):
                    results.append((pname + ".no-exception", "failed", {"exception": repr(exc)}, pc))
                else:
                    results.append((pname + ".symbolic execution", "undecided", "shim limitation: %r" % (exc,), pc))
                continue
            newmax, newmin = a, (b if ncol == 2 else a)
            newmaxx, newminx = (ax if withx else nanx), ((bx if ncol == 2 else ax) if withx else nanx)
            gotx = cur.ext_x
            goals = []
            for col, kind, new, newx, labs in ((0, kinds[0], newmax, newmaxx, cur.maxcase), (1, kinds[1], newmin, newminx, cur.mincase)):
                val = Z.lift(cur.ext[0, col])
                xval = Z.lift(gotx[0, col]) if gotx is not None else nanx
                goals.append(("Env_%s(S + {case})" % kind, env_goal(val, xval, LAB[labs[0]], kind, t0[col], w[col], new, newx, not first)))
            mmobj = state["mm"]
            alias = [n_ for n_ in ("ext", "ext_x") if getattr(cur, n_) is not None and getattr(mmobj, n_) is not None
                     and np.shares_memory(getattr(cur, n_), getattr(mmobj, n_))]
            goals.append(("frame: curext shares no array with mm (later updates must not write through)%s" % (" " + str(alias) if alias else ""),
                          z3.BoolVal(not alias)))
            goals.append(("frame: maxcase and mincase are distinct lists", z3.BoolVal(cur.maxcase is not cur.mincase)))
            unchanged = all(same(p_, q_) is not None and z3.is_true(z3.simplify(same(p_, q_))) for p_, q_ in zip(mmobj.ext.reshape(-1), state["mm_ext0"]))
            goals.append(("frame: mm.ext not modified", z3.BoolVal(bool(unchanged))))
            if casenum is not None:
                goals.append(("mx[:,casenum] is this case's max", same(cur.mx[0, 0], newmax)))
                goals.append(("mn[:,casenum] is this case's min", same(cur.mn[0, 0], newmin)))
                goals.append(("mx_x[:,casenum]", same(cur.mx_x[0, 0], newmaxx)))
                goals.append(("mn_x[:,casenum]", same(cur.mn_x[0, 0], newminx)))
            for lab, g in goals:
                st, det = dse.check(pc + hyp, g)
                results.append(("%s.%s" % (pname, lab), st, det, pc))
    results.append(("%s::explored" % tag, "proved" if npaths > 0 else "failed", {"paths": npaths, "solver_calls": ex.solver_calls}, []))
    return npaths


def run_kernels(mod, results):
    v1, v2 = zf("v1"), zf("v2")
    ex = dse.Explorer()
    for fn, cmp_ in (("nan_argmax", lambda: v2.val > v1.val), ("nan_argmin", lambda: v2.val < v1.val)):
        n = 0
        with dse.ShimZ(mod):
            for pc, val, exc in ex.explore(lambda: getattr(mod, fn)(arr([[v1]])[0], arr([[v2]])[0])):
                n += 1
                want = z3.And(z3.Not(v2.nan), z3.Or(v1.nan, cmp_()))
                g = want if (exc is None and bool(val[0])) else z3.Not(want)
                if exc is not None and not dse.genuine_exception(exc):
                    results.append(("%s::path%d.symbolic execution" % (fn, n), "undecided", "shim limitation: %r" % (exc,), pc))
                    continue
                if exc is not None:
                    g = z3.BoolVal(False)
                st, det = dse.check(pc, g)
                results.append(("%s::path%d.result == (v2 beats v1 ignoring NaN)" % (fn, n), st, det, pc))
    n = 0
    with dse.ShimZ(mod):
        for pc, val, exc in ex.explore(lambda: mod.nan_absmax(arr([[v1]])[0], arr([[v2]])[0])):
            n += 1
            if exc is not None:
                results.append(("nan_absmax::path%d.no-exception" % n, "failed" if dse.genuine_exception(exc) else "undecided", {"exception": repr(exc)}, pc))
                continue
            amx, pv = val
            want = z3.And(z3.Not(v2.nan), z3.Or(v1.nan, absz(v2.val) > absz(v1.val)))
            st, det = dse.check(pc, z3.And(want if bool(pv[0]) else z3.Not(want), same(amx[0], v2 if bool(pv[0]) else v1)))
            results.append(("nan_absmax::path%d.value and mask" % n, st, det, pc))
    # maxmin on one row of three samples with abscissa
    r = [zf("r%d" % i) for i in range(3)]
    x = [zf("x%d" % i, False) for i in range(3)]
    n = 0
    with dse.ShimZ(mod):
        for pc, val, exc in ex.explore(lambda: mod.maxmin(arr([r]), arr([x])[0])):
            n += 1
            allnan = z3.And(*[e.nan for e in r])
            if exc is not None and not dse.genuine_exception(exc) and not isinstance(exc, ValueError):
                results.append(("maxmin::path%d.symbolic execution" % n, "undecided", "shim limitation: %r" % (exc,), pc))
                continue
            if exc is not None:
                st, det = dse.check(pc, allnan)
                results.append(("maxmin::path%d.raises only on an all-NaN row (%s)" % (n, type(exc).__name__), st, det, pc))
                continue
            for col, le in ((0, lambda a_, b_: a_ <= b_), (1, lambda a_, b_: a_ >= b_)):
                e = Z.lift(val.ext[0, col])
                ex_ = Z.lift(val.ext_x[0, col])
                g = z3.And(z3.Not(e.nan), *[z3.Or(q.nan, le(q.val, e.val)) for q in r],
                           z3.Or(*[z3.And(z3.Not(q.nan), q.val == e.val, same(ex_, xx)) for q, xx in zip(r, x)]))
                st, det = dse.check(pc, g)
                results.append(("maxmin::path%d.col%d is the NaN-ignoring %s with its abscissa" % (n, col, "max" if col == 0 else "min"), st, det, pc))


def concrete_extrema(mod, seed, n=300):
    """bounded: random multi-row multi-case histories through the real extrema vs brute force (replay engine)"""
    rng = np.random.RandomState(seed)
    vals = [np.nan, -3.0, -1.5, 0.0, 1.5, 3.0, 4.0]
    ev = 0
    for it in range(n):
        ncol = 1 + it % 2
        rows, ncase = rng.randint(1, 4), rng.randint(1, 6)
        data = rng.choice(vals, size=(ncase, rows, ncol))
        if ncol == 2:
            data = np.where(np.isnan(data), np.nan, np.sort(np.nan_to_num(data, nan=0.0), axis=2)[:, :, ::-1])   # max >= min per case
            data[np.isnan(rng.choice(vals, size=data.shape))] = np.nan
        xs = rng.randn(ncase, rows, ncol)
        # some later cases carry no abscissa (e.g. filled in by add_maxmin without x-values): where such a case attains the extreme, the abscissa is NaN
        nox = [c > 0 and it % 3 == 2 and rng.rand() < 0.5 for c in range(ncase)]
        cur = SimpleNamespace(ext=None, ext_x=None, maxcase=None, mincase=None, mx=np.zeros((rows, ncase)), mn=np.zeros((rows, ncase)),
                              mx_x=np.zeros((rows, ncase)), mn_x=np.zeros((rows, ncase)))
        mms = [SimpleNamespace(ext=data[c].copy(), ext_x=None if nox[c] else xs[c].copy()) for c in range(ncase)]
        xs = np.where(np.array(nox)[:, None, None], np.nan, xs)
        for c in range(ncase):
            mod.extrema(cur, mms[c], "case%d" % c, casenum=c)
        ev += 1
        for c in range(ncase):     # frame: the per-case inputs must still hold their own data after later updates
            if not (np.array_equal(mms[c].ext, data[c], equal_nan=True) and (nox[c] or np.array_equal(mms[c].ext_x, xs[c]))):
                return ev, dict(ncol=ncol, cases=data.tolist(), abscissae=xs.tolist(), modified_case=c,
                                what="extrema modified (or aliased and later overwrote) the table of an earlier case/event")
        for r in range(rows):
            col0 = data[:, r, 0]
            col1 = data[:, r, -1]
            key = (lambda v: v) if ncol == 2 else abs
            for col, vec, pick, labs in ((0, col0, np.nanmax, cur.maxcase), (1, col1, np.nanmin, cur.mincase)):
                ok_all_nan = np.all(np.isnan(vec))
                got = cur.ext[r, col]
                if ok_all_nan:
                    good = np.isnan(got)
                else:
                    want = pick(key(vec))
                    ci = int(labs[r][4:])
                    wx = xs[ci, r, 0 if col == 0 else -1]
                    good = (key(got) == want) and (key(vec[ci]) == want) and (cur.ext_x[r, col] == wx or (np.isnan(wx) and np.isnan(cur.ext_x[r, col])))
                if not good:
                    return ev, dict(ncol=ncol, cases=data[:, r, :].tolist(), row=r, column=col, got=float(got), label=labs[r],
                                    what="extreme table does not hold the %s over the cases (or label/abscissa not from an attaining case)" % ("max" if col == 0 else "min"))
            if not (np.array_equal(cur.mx[r], data[:, r, 0], equal_nan=True) and np.array_equal(cur.mn[r], data[:, r, -1], equal_nan=True)):
                return ev, dict(ncol=ncol, cases=data[:, r, :].tolist(), row=r, what="per-case mx/mn columns are not the cases in order")
    # maxmin: the abscissae keep the type of `x` whatever the element type of the responses (float32 / integer-typed histories with a float64 time vector)
    for it in range(max(20, n // 10)):
        rows, nt = rng.randint(1, 5), rng.randint(2, 9)
        x = np.cumsum(rng.rand(nt) + 0.01) + (0.123456789 if it % 2 else 0.0)
        base = rng.randint(-50, 50, size=(rows, nt))
        for dt in (np.float64, np.float32, np.int64, np.int16):
            resp = (base + (rng.rand(rows, nt) if dt in (np.float64, np.float32) else 0)).astype(dt)
            got = mod.maxmin(resp, x)
            ev += 1
            for r in range(rows):
                jx, jn = int(np.argmax(resp[r])), int(np.argmin(resp[r]))
                if not (got.ext[r, 0] == resp[r, jx] and got.ext[r, 1] == resp[r, jn] and got.ext_x[r, 0] == x[jx] and got.ext_x[r, 1] == x[jn]):
                    return ev, dict(what="maxmin: extreme / abscissa of row %d is not (max, min) of the history with the x-values where they occur" % r, response=resp.tolist(),
                                    response_dtype=str(resp.dtype), x=x.tolist(), got_ext=got.ext.tolist(), got_ext_x=got.ext_x.tolist(), want_x=[float(x[jx]), float(x[jn])])
    return ev, None


def frame_scan():
    """frame condition for the functions of pyyeti/cla: no hidden state between calls through a mutable default argument
    (a default dict/list/set/call is created once at import and shared by every call that omits the argument)"""
    import ast as _ast, glob as _glob
    bad = []
    nfn = 0
    for f in sorted(_glob.glob(os.path.join(report.REPO, "pyyeti/cla/*.py"))):
        for n in _ast.walk(_ast.parse(open(f).read())):
            if isinstance(n, _ast.FunctionDef):
                nfn += 1
                for d in list(n.args.defaults) + [x for x in n.args.kw_defaults if x is not None]:
                    if isinstance(d, (_ast.Dict, _ast.List, _ast.Set, _ast.ListComp, _ast.DictComp)) or (isinstance(d, _ast.Call) and getattr(d.func, "id", "") in ("dict", "list", "set")):
                        bad.append("%s::%s(... = %s)" % (os.path.basename(f), n.name, _ast.unparse(d)))
    return nfn, bad


def apply_uf_nosave(seed):
    """bounded float: consecutive module-level apply_uf calls WITHOUT a cache argument on different solutions give what cache-free calls give"""
    sys.path.insert(0, report.REPO)
    from pyyeti import cla
    rng = np.random.RandomState(seed)
    ev = 0
    n, nt, nrb, rf = 5, 3, 1, np.array([4])
    m = np.array([2.0, 1.0, 3.0, 1.5, 1.0]); b = np.array([0.0, 0.4, 0.6, 0.9, 0.2]); k = np.array([0.0, 90.0, 150.0, 400.0, 5000.0])
    for it in range(4):
        sol = SimpleNamespace(a=rng.randn(n, nt), v=rng.randn(n, nt), d=rng.randn(n, nt))
        uf = (1.1 + 0.1 * it, 1.2, 1.3, 1.05)
        out = cla.apply_uf(sol, uf, m, b, k, nrb, rf)
        ev += 1
        ruf, euf, duf, suf = uf
        el = np.array([1, 2, 3])
        F = m[:, None] * sol.a + b[:, None] * sol.v + k[:, None] * sol.d
        d_el = euf * (suf * F[el] - duf * (m[el, None] * sol.a[el] + b[el, None] * sol.v[el])) / k[el, None]
        want_d = sol.d.copy(); want_d[el] = d_el; want_d[4] = euf * suf * sol.d[4]; want_d[0] = out.d[0]
        if not np.allclose(out.d[1:], want_d[1:], rtol=1e-10, atol=1e-12):
            return ev, dict(what="apply_uf called repeatedly without a cache argument: the displacement of call #%d is not that of a cache-free call" % (it + 1),
                            max_diff=float(abs(out.d[1:] - want_d[1:]).max()))
    # full (2-D) matrices in C and Fortran order, with and without rigid-body modes, no residual flexibility: repeated calls (fresh cache each, as for the next
    # load case) give the documented static + dynamic split every time, and the caller's m, b, k are not modified
    n2 = 4
    A_ = rng.randn(n2, n2)
    Kf = A_ @ A_.T + 40 * np.eye(n2)
    Mf = np.diag([2.0, 1.0, 3.0, 1.5]); Bf = 0.01 * Kf + 0.1 * Mf
    for order_ in ("C", "F"):
        for nrb2 in (0, 2):
            k2 = np.array(Kf, order=order_, copy=True)
            if nrb2:
                k2[:nrb2, :] = 0.0; k2[:, :nrb2] = 0.0
            m2, b2 = np.array(Mf, order=order_, copy=True), np.array(Bf, order=order_, copy=True)
            if nrb2:
                b2[:nrb2, :] = 0.0; b2[:, :nrb2] = 0.0
            keep = (m2.copy(), b2.copy(), k2.copy())
            el2 = np.arange(nrb2, n2)
            for call in range(3):
                sol = SimpleNamespace(a=rng.randn(n2, nt), v=rng.randn(n2, nt), d=rng.randn(n2, nt))
                uf = (1.0, 1.2, 1.3, 1.05) if call else (1.0, 1.0, 1.0, 1.0)
                out = cla.apply_uf(sol, uf, m2, b2, k2, nrb2, None)
                ev += 1
                ruf, euf, duf, suf = uf
                F = keep[0] @ sol.a + keep[1] @ sol.v + keep[2] @ sol.d
                kee = keep[2][np.ix_(el2, el2)]
                dyn = (keep[0] @ sol.a + keep[1] @ sol.v)[el2]
                want = euf * np.linalg.solve(kee, suf * F[el2] - duf * dyn)
                if not all(np.array_equal(x_, y_) for x_, y_ in zip((m2, b2, k2), keep)):
                    return ev, dict(what="apply_uf modified the caller's mass / damping / stiffness matrices (%s-ordered 2-D arrays, nrb=%d, call #%d)" % (order_, nrb2, call + 1))
                if not np.allclose(out.d[el2], want, rtol=1e-8, atol=1e-10 * abs(want).max()):
                    return ev, dict(what="apply_uf with full %s-ordered matrices, nrb=%d, call #%d (fresh cache): elastic displacement is not euf K^-1 (suf F - duf (M a + B v))" % (order_, nrb2, call + 1),
                                    max_diff=float(abs(out.d[el2] - want).max()))
    return ev, None


def dr_results_bounded(seed, quick):
    """bounded float: DR_Results bookkeeping over a two-level hierarchy of events with SRS - every level is the brute-force envelope of its parts, for both group
    orders; forming the envelope does not modify the parts; an envelope over a subset equals the brute-force envelope of that subset"""
    sys.path.insert(0, report.REPO)
    from pyyeti import cla, srs
    rng = np.random.RandomState(seed + 7)
    nrows, h = 3, 0.002
    t = np.arange(0, 0.3, h)
    frq = np.arange(5.0, 50.0, 7.5)
    Qs = (10, 25)
    UF = (1, 1, 1, 1)
    drdefs = cla.DR_Def(dict(se=0, uf_reds=UF, srsfrq=frq, srsQs=Qs))

    @cla.DR_Def.addcat
    def _():
        name = "acc"
        desc = "accelerations"
        units = "g"
        labels = ["Row %d" % i for i in range(nrows)]
        drfunc = "sol.a"
        histpv = "all"
        srspv = "all"
        drdefs.add(**locals())
    DR = cla.DR_Event()
    DR.add(None, drdefs)
    ev = 0

    def run_event(event, ncases, amp):
        res = DR.prepare_results("verif", event)
        resp = []
        for j in range(ncases):
            a = amp * (1 + 0.3 * j) * rng.randn(nrows, t.size)
            sol = {UF: SimpleNamespace(a=a, v=a, d=a, t=t, h=h)}
            res.time_data_recovery(sol, None, "%s case %d" % (event, j), DR, ncases, j)
            resp.append(a.copy())
        st = np.array(resp)
        orc = dict(mx=st.max(axis=2).max(axis=0), mn=st.min(axis=2).min(axis=0), percase_mx=st.max(axis=2).T, percase_mn=st.min(axis=2).T,
                   srs={q: np.max([srs.srs(r.T, 1 / h, frq, q).T for r in resp], axis=0) for q in Qs})
        return res, orc

    def env(os_):
        return dict(mx=np.max([o["mx"] for o in os_], axis=0), mn=np.min([o["mn"] for o in os_], axis=0), srs={q: np.max([o["srs"][q] for o in os_], axis=0) for q in Qs})

    def cmp_(where, cat, o):
        if not (np.allclose(cat.ext[:, 0], o["mx"]) and np.allclose(cat.ext[:, 1], o["mn"])):
            return "%s: max/min columns are not the envelope of the parts" % where
        for q in Qs:
            if not np.allclose(cat.srs.ext[q], o["srs"][q]):
                return "%s: srs.ext[Q=%d] is not the envelope of the parts (up to %.3f x)" % (where, q, float(np.max(cat.srs.ext[q] / o["srs"][q])))
        return None
    for order in (["G1", "G2"], ["G2", "G1"]):
        spec = {"G1": [("EvA", 3, 1.0), ("EvB", 2, 2.0)], "G2": [("EvC", 2, 4.0), ("EvD", 2, 3.0)]}
        top = cla.DR_Results()
        oev = {}
        for g in order:
            grp = cla.DR_Results()
            rs = []
            for e_, nc, amp in spec[g]:
                r, o = run_event(e_, nc, amp)
                oev[e_] = o
                rs.append(r)
            grp.merge(rs)
            top[g] = grp
        ogrp = {g: env([oev[e_] for e_, _, _ in spec[g]]) for g in spec}
        otop = env(list(ogrp.values()))
        for g in order:
            for e_, _, _ in spec[g]:
                ev += 1
                c = top[g][e_]["acc"]
                w = cmp_("%s/%s" % (g, e_), c, oev[e_])
                if w is None and not (np.allclose(c.mx, oev[e_]["percase_mx"]) and np.allclose(c.mn, oev[e_]["percase_mn"])):
                    w = "%s/%s: per-case max/min columns are not those of the cases in order" % (g, e_)
                if w:
                    return ev, dict(what=w)
        top.form_extreme()
        ev += 1
        checks = [("top extreme", top["extreme"]["acc"], otop)] + [("%s extreme" % g, top[g]["extreme"]["acc"], ogrp[g]) for g in order] + \
                 [("%s/%s after form_extreme (forming an envelope must not modify its parts)" % (g, e_), top[g][e_]["acc"], oev[e_]) for g in order for e_, _, _ in spec[g]]
        for where, cat, o in checks:
            w = cmp_(where, cat, o)
            if w:
                return ev, dict(what=w, group_order=order)
        # envelope over a subset of the parts
        g0 = order[0]
        try:
            top[g0].form_extreme(case_order=[spec[g0][1][0]])
            ev += 1
            w = cmp_("%s extreme over the subset [%s]" % (g0, spec[g0][1][0]), top[g0]["extreme"]["acc"], oev[spec[g0][1][0]])
            if w:
                return ev, dict(what=w)
        except TypeError:
            pass
    return ev, None


def dr_results_labels_frf(seed, quick):
    """bounded float: (a) form_extreme over events whose categories list their rows in different orders / with different row sets: the envelope, its case labels and
    abscissae and the per-event columns are those of a label-keyed brute-force oracle, for every merge order; (b) frequency-domain data recovery over cases with ties and
    NaNs: per-case and overall peaks, frequencies and case labels equal the NaN-aware brute force"""
    sys.path.insert(0, report.REPO)
    import itertools, warnings
    from pyyeti import cla
    rng = np.random.RandomState(seed + 31)
    UF = (1, 1, 1, 1)
    T = np.arange(0.0, 0.5, 0.01)
    ev = 0

    def make_event(name, labels, resps, kind="time", f=None):
        drdefs = cla.DR_Def(dict(se=0, uf_reds=UF))
        drdefs.add(name="LTM", labels=list(labels), drfunc="sol.a", units="N", srspv=None, histpv="all")
        DR = cla.DR_Event()
        DR.add(None, drdefs)
        res = DR.prepare_results("verif", name)
        for j, r in enumerate(resps):
            if kind == "time":
                res.time_data_recovery({UF: SimpleNamespace(a=r, v=r, d=r, t=T, h=T[1] - T[0])}, None, "%s case %d" % (name, j), DR, len(resps), j)
            else:
                res.frf_data_recovery({UF: SimpleNamespace(a=r, v=r, d=r, f=f)}, None, "%s case %d" % (name, j), DR, len(resps), j, dosrs=False)
        return res
    base = ["Row %s" % c for c in "ABCDEF"]
    nrep = 2 if quick else 40
    for rep in range(nrep):
        mk = lambda n_: [rng.uniform(1, 10, size=(n_, 1)) * rng.randn(n_, T.size) for _ in range(2)]
        perm = list(rng.permutation(6))
        sub = base[1:4] + ["Row G"]
        scen = {"same order": {"E1": base, "E2": base, "E3": base},
                "permuted rows in one event": {"E1": base, "E2": [base[i] for i in perm], "E3": base},
                "permuted rows in two events": {"E1": [base[i] for i in perm[::-1]], "E2": base, "E3": [base[i] for i in perm]},
                "different row sets": {"E1": base, "E2": sub, "E3": base},
                "subset in another order": {"E1": base, "E2": [base[i] for i in (4, 1, 3)], "E3": [base[i] for i in perm]}}
        for sname, lab in scen.items():
            events = {n_: (l_, mk(len(l_))) for n_, l_ in lab.items()}
            for order in (["E1", "E2", "E3"], ["E2", "E3", "E1"], ["E3", "E1", "E2"]):
                ev += 1
                with warnings.catch_warnings():
                    warnings.simplefilter("ignore")
                    results = cla.DR_Results()
                    results.merge(make_event(n_, *events[n_]) for n_ in order)
                    results.form_extreme()
                env = results["extreme"]["LTM"]
                got = list(env.drminfo.labels)
                want_labels = []
                for n_ in order:
                    want_labels += [l_ for l_ in events[n_][0] if l_ not in want_labels]
                if sorted(got) != sorted(want_labels) or len(got) != len(set(got)):
                    return ev, dict(what="form_extreme (%s): row labels of the envelope are not the union of the parts' labels" % sname, order=order, labels=got)
                for i, lbl in enumerate(got):
                    per_mx, per_mn, best_mx, best_mn = [], [], None, None
                    for n_ in order:
                        ls, rs = events[n_]
                        if lbl not in ls:
                            per_mx.append(np.nan); per_mn.append(np.nan)
                            continue
                        row = np.array([r[list(ls).index(lbl)] for r in rs])
                        per_mx.append(row.max()); per_mn.append(row.min())
                        if best_mx is None or row.max() > best_mx[0]:
                            best_mx = (row.max(), n_, T[np.unravel_index(row.argmax(), row.shape)[1]])
                        if best_mn is None or row.min() < best_mn[0]:
                            best_mn = (row.min(), n_, T[np.unravel_index(row.argmin(), row.shape)[1]])
                    prob = None
                    if not (np.isclose(env.ext[i, 0], best_mx[0]) and np.isclose(env.ext[i, 1], best_mn[0])):
                        prob = "envelope [%g, %g] but the true max/min of this row over all events is [%g, %g]" % (env.ext[i, 0], env.ext[i, 1], best_mx[0], best_mn[0])
                    elif env.maxcase[i] != best_mx[1] or env.mincase[i] != best_mn[1]:
                        prob = "case labels (%s, %s) but the extremes come from (%s, %s)" % (env.maxcase[i], env.mincase[i], best_mx[1], best_mn[1])
                    elif not (np.isclose(env.ext_x[i, 0], best_mx[2]) and np.isclose(env.ext_x[i, 1], best_mn[2])):
                        prob = "abscissae of the extremes are wrong"
                    elif not (np.allclose(env.mx[i], per_mx, equal_nan=True) and np.allclose(env.mn[i], per_mn, equal_nan=True)):
                        prob = "per-event maxima/minima columns are not those of the events in order"
                    if prob:
                        return ev, dict(what="form_extreme (%s), row %r: %s" % (sname, lbl, prob), order=order)
                if list(env.cases) != order:
                    return ev, dict(what="form_extreme (%s): cases %s" % (sname, list(env.cases)), order=order)
    # (a2) load cases recovered OUT OF SEQUENCE (case number j given explicitly): labels, per-case columns and histories belong to case j whatever the call order
    for order in ([0, 1, 2, 3], [2, 0, 3, 1], [3, 2, 1, 0], [1, 3, 0, 2]):
        nrow_ = 3
        resps_ = [(1 + 0.5 * j_) * rng.randn(nrow_, T.size) for j_ in range(4)]
        drdefs = cla.DR_Def(dict(se=0, uf_reds=UF))
        drdefs.add(name="LTM", labels=["r%d" % i_ for i_ in range(nrow_)], drfunc="sol.a", units="N", srspv=None, histpv="all")
        DR_ = cla.DR_Event(); DR_.add(None, drdefs)
        res_ = DR_.prepare_results("verif", "EV")
        with warnings.catch_warnings():
            warnings.simplefilter("ignore")
            for j_ in order:
                res_.time_data_recovery({UF: SimpleNamespace(a=resps_[j_], v=resps_[j_], d=resps_[j_], t=T, h=T[1] - T[0])}, None, "case %d" % j_, DR_, 4, j_)
        ev += 1
        cat_ = res_["LTM"]
        st_ = np.array(resps_)
        prob = None
        if list(cat_.cases) != ["case %d" % j_ for j_ in range(4)]:
            prob = "case labels %s are not in case-number order" % (list(cat_.cases),)
        elif not (np.allclose(cat_.mx, st_.max(axis=2).T) and np.allclose(cat_.mn, st_.min(axis=2).T)):
            prob = "per-case max/min column j is not that of case j"
        elif not all(np.array_equal(cat_.hist[j_], resps_[j_]) for j_ in range(4)):
            prob = "stored history j is not that of case j"
        else:
            for i_ in range(nrow_):
                jb_ = int(np.argmax(st_.max(axis=2)[:, i_]))
                if cat_.maxcase[i_] != "case %d" % jb_ or not np.isclose(cat_.ext[i_, 0], st_[jb_, i_].max()):
                    prob = "row %d: maximum %g attributed to %r, it occurs in case %d" % (i_, cat_.ext[i_, 0], cat_.maxcase[i_], jb_)
        if prob:
            return ev, dict(what="time_data_recovery with cases recovered in the order %s: %s" % (order, prob))
    # (b) frequency-response recovery with NaNs and ties
    F = np.arange(0.0, 20.0, 1.0)
    for rep in range(3 if quick else 60):
        ncase, nrow = 4, 5
        resps = []
        for j in range(ncase):
            r = (rng.randn(nrow, F.size) + 1j * rng.randn(nrow, F.size)) * (1 + j)
            if rep % 3 != 2:
                r[rng.randint(nrow), rng.randint(F.size)] = np.nan          # e.g. 0/0 at one frequency
            if rep % 3 == 1:
                r[1, 0] = np.nan
                r[2, 3] = r[2, 7] = 50.0 * (1 + (j == 1))                     # tie within a case; case 1 governs
            resps.append(r)
        for order in itertools.islice(itertools.permutations(range(ncase)), 0, 24, 7):
            ev += 1
            with warnings.catch_warnings():
                warnings.simplefilter("ignore")
                res = make_event("FRF", base[:nrow], [resps[k] for k in order], kind="frf", f=F)
            cat = res["LTM"]
            mags = np.array([abs(resps[k]) for k in order])                # case x row x freq
            with warnings.catch_warnings():
                warnings.simplefilter("ignore")
                pk = np.nanmax(mags, axis=2)                                # case x row
            allnan = np.isnan(mags).all(axis=2)
            prob = None
            if not np.allclose(cat.mx, pk.T, equal_nan=True) or not np.allclose(cat.mn, -pk.T, equal_nan=True):
                prob = "per-case peak columns are not the NaN-aware peaks of |FRF|"
            else:
                for i in range(nrow):
                    col = np.where(allnan[:, i], -np.inf, pk[:, i])
                    jb = int(np.argmax(col))
                    fb = F[int(np.nanargmax(mags[jb, i]))]
                    if not (np.isclose(cat.ext[i, 0], col[jb]) and np.isclose(cat.ext[i, 1], -col[jb])):
                        prob = "row %d: envelope %s but the largest |FRF| over all cases is %g" % (i, cat.ext[i], col[jb])
                    elif cat.maxcase[i] != "FRF case %d" % jb or cat.mincase[i] != "FRF case %d" % jb:
                        prob = "row %d: case label %r but the peak comes from case %d" % (i, cat.maxcase[i], jb)
                    elif not np.isclose(cat.ext_x[i, 0], fb):
                        prob = "row %d: frequency of the peak is %g, reported %g" % (i, fb, cat.ext_x[i, 0])
                    if prob:
                        break
            if prob is None and not all(np.allclose(cat.frf[j], resps[k], equal_nan=True) for j, k in enumerate(order)):
                prob = "stored FRFs are not the recovered responses in case order"
            if prob:
                return ev, dict(what="frf_data_recovery: " + prob, case_order=list(order), nan=rep % 3 != 2)
    return ev, None


def run(tier, seed):
    run = report.Run(PID, tier, seed)
    run.trust("z3 (path feasibility and obligations, incl. the quantified envelope invariant over an abstract multiset)",
              "vc.dse: dynamic symbolic execution shim (object arrays of (real, isnan) pairs); np.nanargmax/np.nanargmin/np.isnan shims = assumed contracts")
    run.assume("floats are reals + NaN (no infinities, no rounding)",
               "extrema is row-wise: proved for a generic single row (shape 1 x c); NumPy fancy indexing with the nonzero() row set acts per row",
               "labels are opaque; the multiset S of earlier cases is abstract (uninterpreted membership), so every history/order of earlier cases is covered by induction")
    run.not_covered += ["DR_Results plumbing (pandas, reports) deductively; merge/form_extreme/SRS envelopes are a bounded float check",
                        "apply_uf / uncertainty factors and cache reuse", "PSD-consistent RSS"]
    mod = alg.load_module(report.REPO, FILE)
    src = report.read_source(FILE)
    for n in ast.parse(src).body:
        if isinstance(n, ast.FunctionDef) and n.name in ("extrema", "nan_argmax", "nan_argmin", "nan_absmax", "maxmin"):
            run.add_function(FILE, n.name, hashlib.sha256(ast.unparse(n).encode()).hexdigest()[:16], {"note": "real function object executed symbolically, all paths"})
    results = []
    t0 = time.time()
    run_kernels(mod, results)
    paths = {}
    for ncol, first, withx, casenum in extrema_cases(mod):
        paths["%d/%s/%s/%s" % (ncol, first, withx, casenum)] = run_extrema(mod, ncol, first, withx, casenum, results)
    vs = []
    for name, st, det, pc in results:
        vs.append(report.Verdict(name, st if st in ("proved", "failed") else "undecided", "z3-" + z3.get_version_string(), 0.0, "post", FILE,
                                 {"model": det} if st == "failed" else ({"reason": det} if st == "undecided" else (det or {}))))
    run.add_verdicts(vs)
    run.notes.append({"paths explored per configuration (cols/first/abscissa/casenum)": paths, "seconds": round(time.time() - t0, 1)})
    ev, cf = report.guarded(run, concrete_extrema, mod, seed, 300 if tier == "quick" else 5000)
    run.bounded.append(dict(name="real extrema over random multi-row, multi-case histories (NaNs, ties, 1 and 2 columns) vs brute force", evaluations=ev,
                            failures=0 if cf is None else 1, label="bounded (replay engine)"))
    one, sym = (1.0, 1.0, 1.0, 1.0), ("s", "s", "s", "s")
    ufcases = [(kf, mf, seq) for kf in ("diag", "full") for mf in ("given", "none")
               for seq in ([sym], [one, (1.0, 1.0, 1.25, 1.0)], [(1.0, 1.0, 1.25, 1.0), one], [sym, one, sym], [one, one])]
    ufcases += [(kf, mf, seq, "rf-interior") for kf in ("diag", "full") for mf in ("given", "none") for seq in ([sym], [one, sym], [one, one])]
    uouts = report.pool().map(apply_uf_case, ufcases, chunksize=1)
    un, ufails = sum(o[1] for o in uouts), [dict(case=dict(k=o[0][0], m=o[0][1], calls=str(o[0][2])), **f) for o in uouts for f in o[2]]
    for f_ in [x for x in ufails if x.get("undecided")]:
        run.undecided.append("apply_uf %s %s: %s" % (f_["case"], f_["quantity"], f_.get("detail")))
    ufails = [x for x in ufails if not x.get("undecided")]
    run.bounded.append(dict(name="real apply_uf on a symbolic 4-mode solution [1 rigid, 2 elastic, 1 residual-flexibility] x 2 samples, shared cache, several "
                                 "call orders incl. unit factors: documented scaling table, d = d_static + d_dynamic, inputs untouched",
                            scope="k/b (and m) diagonal or full in the elastic block, m None or given; symbolic values and factors", evaluations=un,
                            failures=len(ufails), label="bounded in size (never counted as proved)"))
    run.assume("scipy.linalg.lu_factor/lu_solve = exact inverse (assumed contract, shimmed by sympy) in the apply_uf check")
    nfn, badfr = frame_scan()
    run.add_verdicts([report.Verdict("frame::no function of pyyeti/cla keeps state between calls through a mutable default argument (%d functions scanned)" % nfn,
                                     "failed" if badfr else "proved", "ast scan", 0.0, "frame", "pyyeti/cla", {"offending": badfr[:5]})])
    vs.append(run.verdicts[-1])
    ev3, cf3 = report.guarded(run, apply_uf_nosave, seed)
    run.bounded.append(dict(name="float: consecutive apply_uf calls without a cache argument on different solutions", evaluations=ev3, failures=0 if cf3 is None else 1, label="bounded"))
    try:
        ev4, cf4 = dr_results_bounded(seed, tier == "quick")
    except Exception as ex_:
        import traceback as _tb
        ev4, cf4 = 0, None
        run.undecided.append("DR_Results bounded check could not run (checker error): %r %s" % (ex_, _tb.format_exc()[-300:]))
    run.bounded.append(dict(name="float: DR_Results two-level hierarchy (4 events, 2 groups, SRS with two Qs, both group orders): every level is the brute-force envelope of its parts, per-case "
                                 "columns in case order, parts unchanged by form_extreme, subset envelope", evaluations=ev4, failures=0 if cf4 is None else 1, label="bounded"))
    try:
        ev5, cf5 = dr_results_labels_frf(seed, tier == "quick")
    except Exception as ex_:
        import traceback as _tb
        tb_ = _tb.extract_tb(ex_.__traceback__)
        inrepo = [f_ for f_ in tb_ if "/pyyeti/" in f_.filename]
        ev5, cf5 = 0, None
        if inrepo:
            cf5 = dict(what="DR_Results label / FRF scenario: the real code raised %r at %s:%s" % (ex_, inrepo[-1].filename.split("/pyyeti/")[-1], inrepo[-1].lineno))
        else:
            run.undecided.append("DR_Results label/FRF bounded check could not run (checker error): %r %s" % (ex_, _tb.format_exc()[-300:]))
    run.bounded.append(dict(name="float: form_extreme over events with permuted rows / different row sets x merge orders (label-keyed oracle: envelope, case labels, abscissae, per-event "
                                 "columns); frf_data_recovery over cases with NaNs and ties x case orders (NaN-aware peaks, frequencies, labels, stored FRFs)",
                            evaluations=ev5, failures=0 if cf5 is None else 1, label="bounded"))
    if cf is None:
        cf = cf3 or cf4 or cf5
    failed = [v for v in vs if v.status == "failed"]
    if not failed and cf is None and ufails:
        run.violation("bounded:apply_uf:" + json.dumps(ufails[0]["case"]), "apply_uf result differs from the documented formulas: %s" % ufails[0]["quantity"],
                      dict(concrete=ufails[0], all=ufails[:8]), concrete=True)
    if failed:
        run.violation(failed[0].name, "obligation(s) failed: " + ", ".join(v.name for v in failed[:5]),
                      dict(failed=[v.as_dict() for v in failed[:10]], concrete=cf), concrete=cf is not None)
    elif cf is not None:
        run.violation("bounded:" + cf["what"][:70], cf["what"], dict(concrete=cf), concrete=True)
    return run.finish()


def replay(path):
    d = json.load(open(path))
    print(json.dumps(d.get("concrete"), indent=1)[:3000])
    return 1 if d.get("concrete") else 0


# ------------------------------------------------------------------------------------------------------------------
# apply_uf: documented scaling table, static/dynamic split, cache (save) reuse -- real function on symbolic arrays
def _lu_shim():
    import sympy as sp

    def lu_factor(a, overwrite_a=False, check_finite=True):
        return ("LU", sp.Matrix([[alg.expr_of(x) for x in row] for row in np.asarray(a)]))

    def lu_solve(lup, b, check_finite=True):
        A = lup[1]
        B = sp.Matrix([[alg.expr_of(x) for x in row] for row in np.atleast_2d(np.asarray(b))])
        X = A.inv() * B
        out = np.empty(B.shape, dtype=object)
        for i in range(B.shape[0]):
            for j in range(B.shape[1]):
                out[i, j] = alg.S(X[i, j])
        return out.view(alg.SymArr)
    return SimpleNamespace(lu_factor=lu_factor, lu_solve=lu_solve)


def apply_uf_case(args):
    """kform in {'diag', 'full'}; ufs: list of uf tuples applied in order on ONE shared cache; each result is compared with the
    documented formulas (computed independently) -- which is also what a cache-free call must give."""
    import sympy as sp
    kform, mform, ufs = args[:3]
    interior = len(args) > 3 and args[3] == "rf-interior"       # the residual-flexibility mode between the elastic modes (the elastic partition is then not a slice)
    ev = alg.load_module(report.REPO, "pyyeti/cla/dr_event.py")
    n, nt, nrb, rf = (5 if interior else 4), 2, 1, ([2] if interior else [3])      # interior: modes rb, el, rf, el, el - the elastic set [1, 3, 4] is not evenly spaced
    e0, e1 = (1, 3) if interior else (1, 2)
    A = sp.Matrix(n, nt, sp.symbols("a0:%d" % (n * nt), real=True))
    V = sp.Matrix(n, nt, sp.symbols("v0:%d" % (n * nt), real=True))
    D = sp.Matrix(n, nt, sp.symbols("d0:%d" % (n * nt), real=True))
    msym = sp.symbols("m0:%d" % n, positive=True)
    bsym = sp.symbols("b0:%d" % n, positive=True)
    ksym = sp.symbols("k0:%d" % n, positive=True)
    kc, bc, mc = sp.Symbol("kc", real=True), sp.Symbol("bc", real=True), sp.Symbol("mc", real=True)
    Km, Bm, Mm = sp.diag(*ksym), sp.diag(*bsym), (sp.eye(n) if mform == "none" else sp.diag(*msym))
    Km[0, 0] = 0
    Bm[0, 0] = 0
    if kform == "full":
        Km[e0, e1] = Km[e1, e0] = kc
        Bm[e0, e1] = Bm[e1, e0] = bc
        if mform != "none":
            Mm[e0, e1] = Mm[e1, e0] = mc
    wit = {s: sp.Rational(3 + i, 2) for i, s in enumerate(list(A) + list(V) + list(D) + list(msym) + list(bsym) + list(ksym))}
    wit.update({kc: sp.Rational(1, 3), bc: sp.Rational(1, 5), mc: sp.Rational(1, 7)})
    usym = sp.symbols("ruf euf duf suf", positive=True)
    wit.update({usym[0]: sp.Rational(5, 4), usym[1]: sp.Rational(6, 5), usym[2]: sp.Rational(7, 5), usym[3]: sp.Rational(9, 8)})
    reg = alg.Regime("uf", wit)

    def mk(Mx, two_d):
        if two_d:
            a = np.empty(Mx.shape, dtype=object)
            for i in range(Mx.shape[0]):
                for j in range(Mx.shape[1]):
                    a[i, j] = alg.S(Mx[i, j])
            return a.view(alg.SymArr)
        return alg.sym_array([Mx[i, i] for i in range(Mx.shape[0])])

    fails, nchk = [], 0
    with alg.Shimmed(ev, reg, extra={"la": _lu_shim()}):
        sol = SimpleNamespace(a=mk(A, True), v=mk(V, True), d=mk(D, True))
        snap = {k_: [alg.expr_of(x) for x in getattr(sol, k_).reshape(-1)] for k_ in "avd"}
        marg = None if mform == "none" else mk(Mm, kform == "full")
        barg, karg = mk(Bm, kform == "full"), mk(Km, kform == "full")
        save = {}
        el = [1, 3, 4] if interior else [e0, e1]
        F = Mm * A + Bm * V + Km * D
        Kel = Km[el, el]
        for uf in ufs:
            ufv = tuple(usym[i] if u == "s" else u for i, u in enumerate(uf))
            out = ev.apply_uf(sol, tuple(alg.S(x) if isinstance(x, sp.Basic) else x for x in ufv), marg, barg, karg, nrb, np.array(rf), save)
            ruf, euf, duf, suf = [sp.sympify(x) for x in ufv]
            want_a, want_v, want_d = sp.zeros(n, nt), sp.zeros(n, nt), sp.zeros(n, nt)
            want_a[0, :], want_v[0, :] = ruf * suf * A[0, :], ruf * suf * V[0, :]
            for r_ in el:
                want_a[r_, :], want_v[r_, :] = euf * duf * A[r_, :], euf * duf * V[r_, :]
            avel = (Mm * A + Bm * V)[el, :]
            dst = euf * Kel.inv() * (suf * F[el, :])
            ddy = -euf * Kel.inv() * (duf * avel)
            for i_, r_ in enumerate(el):
                want_d[r_, :] = dst[i_, :] + ddy[i_, :]
            want_d[rf[0], :] = euf * suf * D[rf[0], :]
            for nm, want in (("a", want_a), ("v", want_v), ("d", want_d)):
                got = getattr(out, nm)
                for i in range(n):
                    for j in range(nt):
                        nchk += 1
                        st, det = alg.prove_zero(alg.expr_of(got[i, j]) - want[i, j], numeric_only=True)
                        if st in ("failed", "undecided"):
                            fails.append(dict(call=str(uf), quantity="%s[%d,%d]" % (nm, i, j), detail=det, undecided=(st == "undecided")))
            for i in range(n):
                for j in range(nt):
                    nchk += 1
                    st, det = alg.prove_zero(alg.expr_of(out.d[i, j]) - alg.expr_of(out.d_static[i, j]) - alg.expr_of(out.d_dynamic[i, j]), numeric_only=True)
                    if st == "failed":
                        fails.append(dict(call=str(uf), quantity="d == d_static + d_dynamic [%d,%d]" % (i, j), detail=det))
            for k_ in "avd":      # frame: the input solution is not modified
                now = [alg.expr_of(x) for x in getattr(sol, k_).reshape(-1)]
                nchk += 1
                if any(sp.simplify(p - q) != 0 for p, q in zip(now, snap[k_])):
                    fails.append(dict(call=str(uf), quantity="input sol.%s modified" % k_))
    return args, nchk, fails
