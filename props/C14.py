"""C14 - coordinate systems and rigid-body geometry (DESIGN.md section C14).

Proved on symbolic inputs with the real functions (sympy): n2p.rbgeom / rbmove (rigid-body kinematics, reference-point change),
n2p._get_loc_a_basic and getcoordinates (a point queried in a rectangular / cylindrical / spherical system and entered again is the
same point - for generic points and for the special positions where a naive formula divides by zero), n2p.mkusetcoordinfo
(A-B-C construction: orthonormal, z through B, x in the A-B-C plane, origin at A, composition through rectangular, cylindrical and
spherical reference systems).  Bounded (float): rbgeom_uset / rbcoords / formrbe3 on generated USET tables against an independent
geometric oracle, with grids placed at the special angles.
"""
import contextlib, io, warnings, ast, hashlib, itertools, json, os, sys, time, traceback
from types import SimpleNamespace
import numpy as np
import sympy as sp
from vc import report, alg, symla, npx

PID = "C14"
N2P = "pyyeti/nastran/n2p.py"
R_ = sp.Rational


def _mathx():
    ns = SimpleNamespace(pi=alg.S(sp.pi))
    for k, v in alg.MATH_SHIMS.items():
        setattr(ns, k, v)

    def hypot(a, b):
        return alg.S(sp.sqrt(alg.expr_of(a) ** 2 + alg.expr_of(b) ** 2))
    ns.hypot = hypot
    return ns


def _load():
    return alg.load_module(report.REPO, N2P)


def _ctx(n2p, reg):
    return alg.Shimmed(n2p, reg, {"np": npx.NPX(), "math": _mathx(), "linalg": npx.LinalgX()})


def _guard(f, args, label):
    t0 = time.time()
    try:
        return f(args, t0)
    except Exception as ex:
        tb = traceback.extract_tb(ex.__traceback__)
        last = tb[-1]
        inrepo = "/pyyeti/" in last.filename and "/verif/" not in last.filename
        st = "undecided"          # an exception on symbolic stand-ins is a tool limit, never a violation by itself (concrete arms report real exceptions)
        return [dict(name="%s%s::symbolic run completes" % (label, args), status=st, seconds=time.time() - t0,
                     detail={"reason": "%r at %s:%s" % (ex, last.filename, last.lineno)})]


def _skew(p):
    return sp.Matrix([[0, -p[2], p[1]], [p[2], 0, -p[0]], [-p[1], p[0], 0]])


def _decide(items, t0, budget=300):
    out = []
    for name, e in items:
        st, det = alg.prove_zero(sp.sympify(e), budget=budget)
        out.append(dict(name=name, status=st, seconds=time.time() - t0, detail=det))
    return out


def _rbgeom_case(args, t0):
    refkind, = args
    n2p = _load()
    g = sp.Matrix(2, 3, lambda i, j: sp.Symbol("g%d%d" % (i, j), real=True))
    r = sp.Matrix(1, 3, lambda i, j: sp.Symbol("r%d" % j, real=True))
    r2 = sp.Matrix(1, 3, lambda i, j: sp.Symbol("s%d" % j, real=True))
    reg = alg.HashRegime("rbgeom")
    with _ctx(n2p, reg):
        if refkind == "xyz":
            rb = n2p.rbgeom(symla.toarr(g), symla.toarr(r))
            ref = r
        elif refkind == "index":
            rb = n2p.rbgeom(symla.toarr(g), 1)
            ref = g[1, :]
        else:
            rb = n2p.rbgeom(symla.toarr(g))
            ref = sp.zeros(1, 3)
        rb_old = n2p.rbgeom(symla.toarr(g), symla.toarr(r))
        rb_new = n2p.rbgeom(symla.toarr(g), symla.toarr(r2))
        moved = n2p.rbmove(rb_old, symla.toarr(r), symla.toarr(r2))
    items = []
    for i in range(2):
        p = (g[i, :] - ref).T
        want = sp.zeros(6, 6)
        want[:3, :3] = sp.eye(3)
        want[:3, 3:] = -_skew(p)             # translation caused by a unit rotation w about the reference: w x p
        want[3:, 3:] = sp.eye(3)
        for a in range(6):
            for c in range(6):
                items.append(("rbgeom[ref=%s]::grid %d block[%d,%d] == [[I, -(p - ref)x], [0, I]]" % (refkind, i, a, c), alg.expr_of(rb[6 * i + a, c]) - want[a, c]))
    if refkind == "xyz":
        for a in range(12):
            for c in range(6):
                items.append(("rbmove::rbgeom(g, old) @ rbgeom(old, new) == rbgeom(g, new) [%d,%d]" % (a, c), alg.expr_of(moved[a, c]) - alg.expr_of(rb_new[a, c])))
    res = _decide(items, t0)
    # fold into a few obligations
    bad = [r_ for r_ in res if r_["status"] != "proved"]
    return [dict(name="rbgeom[ref=%s]%s::every 6x6 grid block is [[I, -(p - ref)x], [0, I]] (%d entries)" % (refkind, " and rbmove is reference-point consistent" if refkind == "xyz" else "", len(res)),
                 status=("failed" if any(b["status"] == "failed" for b in bad) else ("undecided" if bad else "proved")), seconds=time.time() - t0,
                 detail={"entries": len(res), "not_proved": [dict(name=b["name"], detail=b["detail"]) for b in bad[:4]]})]


def rbgeom_case(args):
    return _guard(_rbgeom_case, args, "rbgeom")


ROT = sp.Matrix([[R_(2, 3), R_(-1, 3), R_(2, 3)], [R_(2, 3), R_(2, 3), R_(-1, 3)], [R_(-1, 3), R_(2, 3), R_(2, 3)]])     # exact rational rotation (det +1)


def _coordinfo(ctype, T=None, origin=None):
    T = ROT if T is None else T
    o = sp.Matrix(sp.symbols("o0:3", real=True)).T if origin is None else origin
    return sp.Matrix.vstack(sp.Matrix([[7, ctype, 0]]), o, T), o, T


POINTS = {
    "generic": lambda: sp.Matrix(sp.symbols("x y z", real=True)),
    "x=0,y>0": lambda: sp.Matrix([0, sp.Symbol("y", positive=True), sp.Symbol("z", real=True)]),
    "x=0,y<0": lambda: sp.Matrix([0, -sp.Symbol("y", positive=True), sp.Symbol("z", real=True)]),
    "y=0,x>0": lambda: sp.Matrix([sp.Symbol("x", positive=True), 0, sp.Symbol("z", real=True)]),
    "y=0,x<0": lambda: sp.Matrix([-sp.Symbol("x", positive=True), 0, sp.Symbol("z", real=True)]),
    "z=0": lambda: sp.Matrix([sp.Symbol("x", real=True), sp.Symbol("y", real=True), 0]),
    "x=y": lambda: sp.Matrix([sp.Symbol("x", positive=True), sp.Symbol("x", positive=True), sp.Symbol("z", real=True)]),
}


def _roundtrip_case(args, t0):
    ctype, pname = args
    n2p = _load()
    ci, o, T = _coordinfo(ctype)
    gl = POINTS[pname]()                       # point in LOCAL rectangular components
    basic = (o.T + T * gl)                     # the same point in basic
    reg = alg.HashRegime("roundtrip")
    res = []
    for wit in (0, 1):
        reg = alg.HashRegime("roundtrip%d" % wit)
        if wit:
            # second witness with |sin(phi)| < |cos(phi)| / the other octant, so both branches of the spherical selection are executed
            for s_ in gl.free_symbols:
                reg.witness[s_] = R_(7, 3) if str(s_) == "x" else (R_(2, 5) if str(s_) == "y" else R_(-3, 2))
        with _ctx(n2p, reg):
            coords = n2p.getcoordinates(None, symla.toarr(basic.T), 7, coordref={7: symla.toarr(ci)})
            back = n2p._get_loc_a_basic(symla.toarr(ci), coords)
        items = [("getcoordinates/_get_loc_a_basic[%s, point %s, witness %d]::re-entering the returned coordinates gives the same basic point, component %d" %
                  ({1: "rectangular", 2: "cylindrical", 3: "spherical"}[ctype], pname, wit, i), alg.expr_of(back[i]) - basic[i]) for i in range(3)]
        # the radius is the Euclidean distance from the origin (cyl: from the axis)
        if ctype == 2:
            items.append(("getcoordinates[cylindrical, %s, witness %d]::R^2 == x^2 + y^2 and Z == z (local)" % (pname, wit), alg.expr_of(coords[0]) ** 2 - (gl[0] ** 2 + gl[1] ** 2)))
            items.append(("getcoordinates[cylindrical, %s, witness %d]::Z == z (local)" % (pname, wit), alg.expr_of(coords[2]) - gl[2]))
        if ctype == 3:
            items.append(("getcoordinates[spherical, %s, witness %d]::R^2 == x^2 + y^2 + z^2 (local)" % (pname, wit), alg.expr_of(coords[0]) ** 2 - (gl[0] ** 2 + gl[1] ** 2 + gl[2] ** 2)))
        res += _decide(items, t0, budget=200)
        res[-1]["detail"] = dict(res[-1]["detail"], decisions=reg.path[:6])
    return res


def roundtrip_case(args):
    return _guard(_roundtrip_case, args, "roundtrip")


def _abc_case(args, t0):
    reftype, = args
    n2p = _load()
    # reference system (id 5): origin symbolic, exact rational rotation, of the given type; new system 9 defined by A, B, C given IN the reference system
    ci_ref, o_ref, T_ref = _coordinfo(reftype, origin=sp.Matrix(sp.symbols("q0:3", real=True)).T)
    ci_ref[0, 0] = 5
    if reftype == 1:
        A, B, C = [sp.Matrix(sp.symbols("%s0:3" % n_, real=True)) for n_ in "abc"]
        toloc = lambda P: P
    else:
        # use numeric angles (degrees) that give exact trig values, radii symbolic
        ra, rb_, rc = sp.symbols("ra rb rc", positive=True)
        if reftype == 2:
            A, B, C = sp.Matrix([ra, 30, sp.Symbol("za", real=True)]), sp.Matrix([rb_, 90, sp.Symbol("zb", real=True)]), sp.Matrix([rc, 180, sp.Symbol("zc", real=True)])
            toloc = lambda P: sp.Matrix([P[0] * sp.cos(P[1] * sp.pi / 180), P[0] * sp.sin(P[1] * sp.pi / 180), P[2]])
        else:
            A, B, C = sp.Matrix([ra, 60, 45]), sp.Matrix([rb_, 90, 180]), sp.Matrix([rc, 30, 270])
            toloc = lambda P: P[0] * sp.Matrix([sp.sin(P[1] * sp.pi / 180) * sp.cos(P[2] * sp.pi / 180), sp.sin(P[1] * sp.pi / 180) * sp.sin(P[2] * sp.pi / 180), sp.cos(P[1] * sp.pi / 180)])
    cord = sp.Matrix.vstack(sp.Matrix([[9, 1, 5]]), A.T, B.T, C.T)
    reg = alg.HashRegime("abc")
    with _ctx(n2p, reg):
        ci = n2p.mkusetcoordinfo(symla.toarr(cord), None, {5: symla.toarr(ci_ref)})
    ci = symla.tomat(ci)
    T = ci[2:, :]
    Ab, Bb, Cb = [o_ref.T + T_ref * toloc(P) for P in (A, B, C)]
    items = []
    tag = "mkusetcoordinfo[A-B-C given in a %s reference system]" % {1: "rectangular", 2: "cylindrical", 3: "spherical"}[reftype]
    TT = T.T * T
    for i in range(3):
        for j in range(i, 3):
            items.append((tag + "::T^T T == I [%d,%d]" % (i, j), TT[i, j] - (1 if i == j else 0)))
    for i in range(3):
        items.append((tag + "::origin == A expressed in basic [%d]" % i, ci[1, i] - Ab[i]))
    zax, xax, yax = T[:, 2], T[:, 0], T[:, 1]
    ab, ac = Bb - Ab, Cb - Ab
    cr = zax.cross(ab)
    for i in range(3):
        items.append((tag + "::z axis is parallel to B - A [%d]" % i, cr[i]))
    items.append((tag + "::C lies in the x-z plane (y . (C - A) == 0)", yax.dot(ac)))
    res = _decide(items, t0, budget=300)
    # right-handed: T^T T == I (above) gives det = +-1; the admissible (A, B, C) set (non-collinear) is connected, so the sign is that at any one point
    detw = sp.N(xax.dot(yax.cross(zax)).xreplace({s_: alg.HashRegime.value(s_) for s_ in T.free_symbols}), 30)
    res.append(dict(name=tag + "::det T == +1 (orthogonality proved above; sign fixed by continuity, evaluated at the witness)",
                    status="proved" if abs(detw - 1) < 1e-20 else "failed", seconds=0.0, detail={"det_at_witness": str(detw)}))
    # orientation: z points from A towards B, and C is on the +x side.  Both scalar products are non-zero on the whole (connected) admissible set,
    # so their sign is the sign at the witness
    wsub = {s_: alg.HashRegime.value(s_) for s_ in (T.free_symbols | ab.free_symbols | ac.free_symbols)}
    zs = sp.N(zax.dot(ab).xreplace(wsub), 30)
    xs = sp.N(xax.dot(ac).xreplace(wsub), 30)
    res.append(dict(name=tag + "::z . (B - A) > 0 and x . (C - A) > 0 (orientation; sign constant on the admissible set, evaluated at the witness)",
                    status="proved" if (zs > 0 and xs > 0) else "failed", seconds=0.0, detail={"z.(B-A)": str(zs), "x.(C-A)": str(xs)}))
    # orientation (inequalities) at the witness: z along +(B - A), C on the +x side
    res.append(dict(name=tag + "::row 0 == [id, type, 0]", status="proved" if [ci[0, 0], ci[0, 1], ci[0, 2]] == [9, 1, 0] else "failed", seconds=0.0, detail={"row": str(ci[0, :])}))
    return res


def abc_case(args):
    return _guard(_abc_case, args, "mkusetcoordinfo")


# ------------------------------------------------------------------------------------------------------------------------------
def geometry_bounded(seed, n_it):
    """float: generated USET tables (chains of rectangular/cylindrical/spherical systems, grids at special angles incl. 0/90/180/270 deg, a q-set grid and
    a scalar point) against an independent geometric oracle: coordinates round trip, rbgeom_uset == E^T [I, -(p-ref)x; 0, I], rbmove, rbcoords, formrbe3"""
    sys.path.insert(0, report.REPO)
    from pyyeti.nastran import n2p
    rng = np.random.RandomState(seed)
    ev = 0
    d2r = np.pi / 180

    def rot(rng):
        q = rng.randn(4); q /= np.linalg.norm(q)
        w, x, y, z = q
        return np.array([[1 - 2 * (y * y + z * z), 2 * (x * y - z * w), 2 * (x * z + y * w)], [2 * (x * y + z * w), 1 - 2 * (x * x + z * z), 2 * (y * z - x * w)],
                         [2 * (x * z - y * w), 2 * (y * z + x * w), 1 - 2 * (x * x + y * y)]])

    def local_to_xyz(ct, a):
        if ct == 1:
            return np.array(a, float)
        if ct == 2:
            return np.array([a[0] * np.cos(a[1] * d2r), a[0] * np.sin(a[1] * d2r), a[2]])
        return a[0] * np.array([np.sin(a[1] * d2r) * np.cos(a[2] * d2r), np.sin(a[1] * d2r) * np.sin(a[2] * d2r), np.cos(a[1] * d2r)])

    def frame(ct, T, o, p):
        """unit vectors (columns, in basic) of the displacement coordinate system of a grid at basic point p"""
        g = T.T @ (p - o)
        if ct == 1:
            return T
        onaxis = abs(g[0]) + abs(g[1]) <= 1e-8          # on the axis the azimuth is undefined: the documented convention is azimuth 0
        if ct == 2:
            th = 0.0 if onaxis else np.arctan2(g[1], g[0])
            E = np.array([[np.cos(th), -np.sin(th), 0], [np.sin(th), np.cos(th), 0], [0, 0, 1]])
            return T @ E
        R = np.linalg.norm(g)
        th = 0.0 if R <= 1e-8 else np.arccos(np.clip(g[2] / R, -1.0, 1.0))
        ph = 0.0 if onaxis else np.arctan2(g[1], g[0])
        er = np.array([np.sin(th) * np.cos(ph), np.sin(th) * np.sin(ph), np.cos(th)])
        et = np.array([np.cos(th) * np.cos(ph), np.cos(th) * np.sin(ph), -np.sin(th)])
        ep = np.array([-np.sin(ph), np.cos(ph), 0])
        return T @ np.column_stack((er, et, ep))
    for it in range(n_it):
        # chain: system 10 (type t1) defined in basic, 20 (t2) defined in 10, 30 (t3) defined in 20
        types = [int(x) for x in rng.permutation([1, 2, 3])] if it % 2 == 0 else [int(x) for x in rng.choice([2, 3], 3)]
        systems = {0: (1, np.eye(3), np.zeros(3))}
        cords = {}
        parent = 0
        for cid, ct in zip((10, 20, 30), types):
            pt, pT, po = systems[parent]
            while True:
                Tl = rot(rng)
                ol = rng.randn(3) * 2
                # A, B, C in the parent's LOCAL rectangular frame, then expressed in the parent's own coordinates
                Al, Bl, Cl = ol, ol + Tl[:, 2] * 1.7, ol + Tl[:, 0] * 0.9 + Tl[:, 2] * 0.3
                if pt == 1 or all(np.hypot(P[0], P[1]) > 0.2 for P in (Al, Bl, Cl)):
                    break

            def toparent(P):
                if pt == 1:
                    return P
                if pt == 2:
                    return np.array([np.hypot(P[0], P[1]), np.arctan2(P[1], P[0]) / d2r, P[2]])
                Rr = np.linalg.norm(P)
                return np.array([Rr, np.arccos(P[2] / Rr) / d2r, np.arctan2(P[1], P[0]) / d2r])
            cords[cid] = np.vstack(([cid, ct, parent], toparent(Al), toparent(Bl), toparent(Cl)))
            systems[cid] = (ct, pT @ Tl, po + pT @ ol)
            parent = cid
        coordref = {}
        cords0 = {k_: v_.copy() for k_, v_ in cords.items()}            # frame: the definition arrays handed to the library must come back unchanged
        uset = None
        grids = []
        special = [0.0, 90.0, 180.0, 270.0, -90.0, 45.0, 135.0]
        gid = 100
        for cid in (0, 10, 20, 30):
            ct, T, o = systems[cid]
            for k in range(3 if ct == 1 else 4):
                if ct == 1:
                    a = rng.randn(3) * 3
                elif ct == 2:
                    a = np.array([rng.uniform(0.5, 3), [180.0, special[rng.randint(len(special))], rng.uniform(-180, 180)][k], rng.randn()]) if k < 3 else \
                        np.array([0.0, 0.0, rng.randn()])                                             # on the axis of the cylindrical system
                else:
                    a = np.array([rng.uniform(0.5, 3), [90.0, 45.0, rng.uniform(10, 170)][k], [180.0, special[rng.randint(len(special))], rng.uniform(-180, 180)][k]]) if k < 3 else \
                        np.array([rng.uniform(0.5, 3), [180.0, 0.0][(it // 2) % 2], 0.0])                # on the negative / positive polar axis of the spherical system
                gid += 1
                cin = 0 if cid == 0 else cords[cid]
                # make sure parents are known
                for pc in (10, 20, 30):
                    if pc <= cid and pc not in coordref:
                        n2p.mkusetcoordinfo(cords[pc], None, coordref) if False else None
                uset = n2p.addgrid(uset, gid, "b", _cin(cords, cid), a, _cin(cords, cid), coordref) if cid == 0 else _add(n2p, uset, gid, cords, cid, a, coordref)
                p = o + T @ local_to_xyz(ct, a)
                grids.append((gid, cid, a, p))
        # a q-set grid and a scalar point are present
        uset = n2p.addgrid(uset, 900, "q", 0, [0, 0, 0], 0, coordref)
        uset = pd_concat_spoint(n2p, uset)
        # table layout: scalar points BEFORE the grids, and coordinate systems referenced by ID and resolved from the table alone (no coordref)
        import pandas as pd
        uset2 = pd.concat([n2p.make_uset([[940, 0], [941, 0]], n2p.mkusetmask("q")), uset], axis=0)
        for cid in (10, 20, 30):
            ct, T, o = systems[cid]
            a = np.array([rng.uniform(0.5, 3), rng.uniform(20, 160), rng.uniform(-170, 170)]) if ct != 1 else rng.randn(3)
            try:
                u3 = n2p.addgrid(uset2, 700 + cid, "b", cid, a, cid)          # cid only known through the table
                c_ = n2p.getcoordinates(u3, 700 + cid, cid)
                loc = u3.loc[(700 + cid, 1), "x":"z"].values.astype(float)
            except Exception as ex:
                return ev, dict(what="coordinate system %d referenced by id cannot be resolved from a table that starts with scalar points: %r" % (cid, ex))
            ev += 1
            p = o + T @ local_to_xyz(ct, a)
            back = o + T @ local_to_xyz(ct, c_)
            if not (np.allclose(loc, p, atol=1e-8) and np.allclose(back, p, atol=1e-8)):
                return ev, dict(what="a grid entered in system %d (type %d), referenced by id and resolved from a table with leading scalar points, is not at the entered location" % (cid, ct),
                                got=loc.tolist(), want=p.tolist(), queried_back=back.tolist())
        # 1. locations in basic agree with the oracle; coordinates query back in own and other systems
        for gid, cid, a, p in grids:
            ev += 1
            loc = uset.loc[(gid, 1), "x":"z"].values.astype(float)
            if not np.allclose(loc, p, atol=1e-9):
                return ev, dict(what="grid location in basic differs from the chain geometry", grid=gid, system=cid, types=types, got=loc.tolist(), want=p.tolist())
            for qc in (0, 10, 20, 30):
                ct, T, o = systems[qc]
                c_ = n2p.getcoordinates(uset, gid, 0 if qc == 0 else cords[qc], coordref)
                back = o + T @ local_to_xyz(ct, c_)
                if not np.allclose(back, p, atol=1e-8):
                    return ev, dict(what="a location queried back in system %d (type %d) is not the same point" % (qc, ct), grid=gid, types=types, coords=np.asarray(c_, float).tolist(),
                                    recovered=back.tolist(), want=p.tolist())
        # frame: the caller's coordinate-system definition arrays are not modified, and resolving the same arrays again (nothing cached) gives the same systems
        for cid_ in (10, 20, 30):
            ev += 1
            if not np.array_equal(cords[cid_], cords0[cid_]):
                return ev, dict(what="the 4x3 definition array of coordinate system %d (type %d, defined in a type-%d system) handed to addgrid/mkusetcoordinfo/getcoordinates was modified by the call"
                                % (cid_, systems[cid_][0], systems[int(cords0[cid_][0, 2])][0]), before=cords0[cid_].tolist(), after=cords[cid_].tolist())
        cref2 = {}
        for cid_ in (10, 20, 30):
            ci2 = n2p.mkusetcoordinfo(cords[cid_], None, cref2)
            ev += 1
            if not np.allclose(np.asarray(ci2, float), np.asarray(coordref[cid_], float), atol=1e-10):
                return ev, dict(what="resolving the definition of system %d a second time (fresh cache) gives a different origin / orientation than the first time" % cid_,
                                first=np.asarray(coordref[cid_], float).tolist(), second=np.asarray(ci2, float).tolist())
        # table layouts with scalar points AHEAD of the grids (and of the q-set grid): the rows of every grid are what they are without the scalar points, scalar / q rows are zero
        rb_a = n2p.rbgeom_uset(uset, np.array([0.3, -0.2, 0.5]))
        for lay_, tab_ in (("two scalar points first", uset2), ("scalar points first, between and last", pd.concat([uset2.iloc[:8], n2p.make_uset([[942, 0]], n2p.mkusetmask("q")), uset2.iloc[8:]], axis=0))):
            ev += 1
            try:
                rb_b = n2p.rbgeom_uset(tab_, np.array([0.3, -0.2, 0.5]))
            except Exception as ex:          # noqa: BLE001
                return ev, dict(what="rbgeom_uset raises %r on a table with %s (q-set grid present)" % (ex, lay_))
            isg_a = uset.index.get_level_values(1).values > 0
            isg_b = tab_.index.get_level_values(1).values > 0
            if rb_b.shape[0] != tab_.shape[0] or not np.allclose(rb_b[isg_b], rb_a[isg_a], atol=1e-10) or abs(rb_b[~isg_b]).max() != 0:
                return ev, dict(what="rbgeom_uset on a table with %s: grid rows differ from the table without them / scalar rows not zero" % lay_,
                                max_diff=float(abs(rb_b[isg_b] - rb_a[isg_a]).max()) if rb_b[isg_b].shape == rb_a[isg_a].shape else None)
        # 2. rigid-body modes in each grid's own displacement system
        zc = rng.randn(3); zc[rng.randint(3)] = 0.0                      # a reference point on a coordinate plane / axis (one or two components exactly zero)
        zc2 = np.zeros(3); zc2[rng.randint(3)] = 7.0
        for ref in (np.array([0.0, 0, 0]), rng.randn(3), grids[4][0], zc, zc2, [float(x_) for x_ in zc2]):
            rb = n2p.rbgeom_uset(uset, ref)
            refxyz = ref if np.size(ref) == 3 else [g for g in grids if g[0] == ref][0][3]
            ev += 1
            for gid, cid, a, p in grids:
                ct, T, o = systems[cid]
                E = frame(ct, T, o, p)
                d = p - refxyz
                G = np.zeros((6, 6)); G[:3, :3] = np.eye(3); G[3:, 3:] = np.eye(3)
                G[:3, 3:] = -np.array([[0, -d[2], d[1]], [d[2], 0, -d[0]], [-d[1], d[0], 0]])
                want = np.zeros((6, 6)); want[:3] = E.T @ G[:3]; want[3:] = E.T @ G[3:]
                rows = uset.index.get_locs([gid])
                got = rb[rows]
                if not np.allclose(got, want, atol=1e-8):
                    return ev, dict(what="rbgeom_uset rows of a grid are not the rigid motion expressed in the grid's own displacement system", grid=gid, system_type=ct,
                                    local_coords=np.asarray(a, float).tolist(), max_diff=float(abs(got - want).max()), types=types)
            q_rows = uset.index.get_locs([900])
            if abs(rb[q_rows]).max() != 0:
                return ev, dict(what="q-set grid rows of rbgeom_uset are not zero")
        # 3. rbmove consistency and rbcoords
        r1, r2 = rng.randn(3), rng.randn(3)
        ev += 1
        if not np.allclose(n2p.rbmove(n2p.rbgeom_uset(uset, r1), r1, r2), n2p.rbgeom_uset(uset, r2), atol=1e-9):
            return ev, dict(what="rbmove(rbgeom_uset(ref1)) != rbgeom_uset(ref2)")
        # integer-typed coordinates entered in cylindrical / spherical / rectangular systems land where the same numbers entered as floats land
        for cid_i in (10, 20, 30):
            ct_i = systems[cid_i][0]
            a_int = np.array([3, 30, 2]) if ct_i != 3 else np.array([3, 40, 70])
            u_i = _add(n2p, None, 5001, cords, cid_i, a_int, dict(coordref))
            u_f = _add(n2p, None, 5001, cords, cid_i, a_int.astype(float), dict(coordref))
            ev += 1
            li, lf = u_i.loc[(5001, 1), "x":"z"].values.astype(float), u_f.loc[(5001, 1), "x":"z"].values.astype(float)
            if not np.allclose(li, lf, atol=1e-12):
                return ev, dict(what="a grid whose coordinates are given as integers in a type-%d system is not at the location of the same numbers given as floats" % ct_i,
                                integers=li.tolist(), floats=lf.tolist())
        # rbcoords: the node locations (relative to the reference point, in the reference frame) recovered from rigid-body modes whose nodes are in their own
        # rectangular / cylindrical / spherical displacement systems
        rbm = n2p.rbgeom_uset(uset, r1)
        rows = np.hstack([uset.index.get_locs([g[0]]) for g in grids])
        with contextlib.redirect_stdout(io.StringIO()):
            crd, maxdev, maxerr = n2p.rbcoords(rbm[rows], verbose=0)
        ev += 1
        want_c = np.array([g[3] - r1 for g in grids])
        if crd.shape != want_c.shape or not np.allclose(crd, want_c, atol=1e-7) or maxdev > 1e-6:
            bad_ = int(np.argmax(abs(crd - want_c).max(axis=1))) if crd.shape == want_c.shape else -1
            return ev, dict(what="rbcoords does not recover the node locations from rigid-body modes given in the nodes' own displacement systems", node=bad_,
                            system_type=systems[grids[bad_][1]][0] if bad_ >= 0 else None, got=crd[bad_].tolist() if bad_ >= 0 else None,
                            want=want_c[bad_].tolist() if bad_ >= 0 else None, maxdev=float(maxdev))
    return ev, None


def _cin(cords, cid):
    return 0 if cid == 0 else cords[cid]


def _add(n2p, uset, gid, cords, cid, a, coordref):
    # define the chain bottom-up so that every referenced system is known
    for pc in (10, 20, 30):
        if pc <= cid and pc not in coordref:
            n2p.mkusetcoordinfo(cords[pc], None, coordref)
    return n2p.addgrid(uset, gid, "b", cords[cid], a, cords[cid], coordref)


def pd_concat_spoint(n2p, uset):
    import pandas as pd
    sp_ = n2p.make_uset([[950, 0]], n2p.mkusetmask("q"))
    return pd.concat([uset, sp_], axis=0)


def rbe3_bounded(seed, n_it):
    sys.path.insert(0, report.REPO)
    from pyyeti.nastran import n2p
    rng = np.random.RandomState(seed + 3)
    ev = 0
    for it in range(n_it):
        uset = None
        ng = rng.randint(3, 6)
        ids = [10 + k for k in range(ng)]
        if it % 2:
            ids = [int(x) for x in rng.permutation(ids)]              # grids stored in non-ascending id order (addgrid keeps the order given)
            uset = n2p.addgrid(uset, 99, "b", 0, rng.randn(3), 0)    # ... and the dependent grid first
        for gid_ in ids:
            uset = n2p.addgrid(uset, gid_, "b", 0, rng.randn(3) * 4, 0)
        if not it % 2:
            uset = n2p.addgrid(uset, 99, "b", 0, rng.randn(3), 0)
        wts = [float(rng.uniform(0.3, 2.5)) for _ in range(ng)]
        ind = []
        order_ = [int(x) for x in rng.permutation(ng)]           # every independent grid once (listed in an order unrelated to the table order on odd iterations)
        for k in range(ng):
            ind += [[123 if rng.rand() < 0.6 else 123456, wts[k]], ids[order_[k]] if it % 2 else 10 + k]
        try:
            with warnings.catch_warnings(record=True) as wlist:
                warnings.simplefilter("always")
                rbe3 = n2p.formrbe3(uset, 99, 123456, ind)
        except Exception as ex:
            continue
        if any("condition" in str(w_.message).lower() for w_ in wlist):
            continue                                              # nearly collinear independent grids: formrbe3 itself says the result is inaccurate
        ev += 1
        rb = n2p.rbgeom_uset(uset, [0, 0, 0])
        dep = uset.index.get_locs([99])
        # columns of the interpolation matrix: the independent DOF named in the groups, in the order of the USET table
        used = set()
        for q in range(0, len(ind), 2):
            for ch in str(ind[q][0]):
                used.add((ind[q + 1], int(ch)))
        indep = np.array([i for i, key in enumerate(uset.index) if tuple(key) in used])
        if rbe3.shape != (6, indep.size):
            return ev, dict(what="formrbe3 matrix shape %s is not 6 x (number of independent DOF named = %d)" % (rbe3.shape, indep.size))
        if not np.allclose(rbe3 @ rb[indep], rb[dep], atol=1e-8):
            return ev, dict(what="formrbe3 interpolation matrix does not reproduce rigid-body motion of the independent grids at the dependent grid",
                            max_diff=float(abs(rbe3 @ rb[indep] - rb[dep]).max()))
    return ev, None


def run(tier, seed):
    run = report.Run(PID, tier, seed)
    run.trust("sympy (trig/sqrt normal forms, atan2 identities) with 50-digit numeric refutation", "vc.alg / vc.npx shims of math and NumPy")
    run.assume("floats are reals; angles in degrees as the code uses them", "coordinate transforms T are exact rational rotation matrices, origins and points symbolic",
               "special positions (x=0, y=0, z=0, x=y, both signs) are separate exact cases: a formula that is algebraically right but divides 0/0 there fails (NaN)",
               "away from the polar axis (property's own exclusion)")
    run.not_covered += ["rbgeom_uset (pandas; cylindrical/spherical fix-ups), rbcoords, formrbe3: bounded float checks only", "replace_basic_cs (raises 'assignment destination is "
                        "read-only' with the installed pandas on the unchanged tree; its tests are in the always-failing set)", "build_coords sorting/duplicate logic"]
    for nd in ast.walk(ast.parse(report.read_source(N2P))):
        if isinstance(nd, ast.FunctionDef) and nd.name in ("rbgeom", "rbmove", "getcoordinates", "_get_loc_a_basic", "mkusetcoordinfo", "rbgeom_uset", "formrbe3", "addgrid"):
            run.add_function(N2P, nd.name, hashlib.sha256(ast.unparse(nd).encode()).hexdigest()[:16],
                             {"note": "real function executed on symbolic inputs" if nd.name not in ("rbgeom_uset", "formrbe3", "addgrid") else "bounded float only"})
    P = report.pool()
    jobs = [(rbgeom_case, ("xyz",)), (rbgeom_case, ("index",)), (rbgeom_case, ("origin",))]
    jobs += [(roundtrip_case, (ct, pn)) for ct in (1, 2, 3) for pn in POINTS if not (ct == 1 and pn != "generic")]
    jobs += [(abc_case, (1,)), (abc_case, (2,)), (abc_case, (3,))]
    rs = [P.apply_async(f, (a,)) for f, a in jobs]
    for (f, a), r in zip(jobs, rs):
        for d in r.get():
            run.add_verdicts([report.Verdict(d["name"], d["status"], "sympy-%s" % sp.__version__, d["seconds"], "post", N2P, d["detail"])])
    ev, cf = report.guarded(run, geometry_bounded, seed, 3 if tier == "quick" else 60)
    run.bounded.append(dict(name="float: chains of 3 random rect/cyl/sph systems, 12 grids incl. special angles (0/90/180/270/45/135 deg), q-set grid and scalar point: locations, "
                                 "coordinate queries in every system, rbgeom_uset vs E^T[I,-(p-ref)x;0,I], rbmove", evaluations=ev, failures=0 if cf is None else 1,
                            label="bounded (never counted as proved)"))
    ev2, cf2 = report.guarded(run, rbe3_bounded, seed, 6 if tier == "quick" else 100)
    run.bounded.append(dict(name="float: formrbe3 reproduces rigid-body motion (random grids, weights and DOF selections)", evaluations=ev2, failures=0 if cf2 is None else 1,
                            label="bounded (never counted as proved)"))
    failed = [v for v in run.verdicts if v.status == "failed"]
    if failed:
        v = failed[0]
        run.violation(v.name, "; ".join(x.name[:100] for x in failed[:5]), dict(failed=[x.as_dict() for x in failed[:8]], concrete=v.detail), concrete=True)
    elif cf is not None:
        run.violation("bounded:geometry", cf["what"], dict(concrete=cf), concrete=True)
    elif cf2 is not None:
        run.violation("bounded:formrbe3", cf2["what"], dict(concrete=cf2), concrete=True)
    return run.finish()


def replay(path):
    d = json.load(open(path))
    print(json.dumps(d.get("concrete"), indent=1)[:3000])
    return 1 if d.get("concrete") else 0
