"""C03 - SRS equals the exact single-DOF response peaks (DESIGN.md section C03)."""
import json, os, sys, time, types, itertools
import numpy as np
import sympy as sp
from vc import report, alg
from contracts import srs_coef as SC

PID = "C03"
FILE = "pyyeti/srs.py"
STYPES = SC.FUNCS
W1 = {SC.Q: 10, SC.T: sp.Rational(1, 1000), SC.w: 300}
# further regimes: the symbolic result is valid for every input that takes the same branches as the witness, so a branch on the size of wn*dT or on the damping
# is only seen by a witness on its side.  wn*dT from 1e-6 (sr/fn = 6e6) over 2e-3 and 0.3 to 2.5; light and heavy damping
REGIMES = [("wn>0", W1),
           ("wn>0,wn*dT=3e-3,Q=0.6", {SC.Q: sp.Rational(3, 5), SC.T: sp.Rational(1, 1000), SC.w: 3}),
           ("wn>0,wn*dT=1e-6,Q=25", {SC.Q: 25, SC.T: sp.Rational(1, 100000), SC.w: sp.Rational(1, 10)}),
           ("wn>0,wn*dT=2.5,Q=2", {SC.Q: 2, SC.T: sp.Rational(1, 1000), SC.w: 2500}),
           ("wn>0,wn*dT=2e-5,Q=0.51", {SC.Q: sp.Rational(51, 100), SC.T: sp.Rational(1, 50000), SC.w: 1})]


def sym_lfilter(b, a, x, axis=0):
    """assumed contract of scipy.signal.lfilter: direct-form difference equation, zero initial state"""
    b = [alg.expr_of(v) for v in b]
    a = [alg.expr_of(v) for v in a]
    x = np.asarray(x)
    y = np.empty(x.shape, dtype=object)
    for n in range(x.shape[0]):
        acc = sum(alg.S(b[k]) * x[n - k] for k in range(len(b)) if n - k >= 0)
        acc = acc - sum(alg.S(a[k]) * y[n - k] for k in range(1, len(a)) if n - k >= 0)
        y[n] = acc / alg.S(a[0])
    return y


def coef_items(mod):
    items, paths, outs = [], {}, {}
    for fn in STYPES:
        seen = {}
        for rname, wit in [("wn==0", W1)] + REGIMES:
            wz = rname == "wn==0"
            reg = alg.Regime(rname, wit)
            with alg.Shimmed(mod, reg):
                b, a = getattr(mod, fn)(alg.S(SC.Q), alg.S(SC.T), alg.S(0) if wz else alg.S(SC.w))
            b = [alg.expr_of(x) for x in b]
            a = [alg.expr_of(x) for x in a]
            paths["%s[%s]" % (fn, reg.name)] = reg.path
            if rname in ("wn==0", "wn>0"):
                outs[(fn, wz)] = (b, a)
            key = (wz, tuple(map(str, b)), tuple(map(str, a)))
            if key in seen:
                paths["%s[%s]" % (fn, reg.name)] = dict(path=reg.path, note="same branches and terms as regime %s: covered by its obligations" % seen[key])
                continue
            seen[key] = rname
            for lab, e in SC.obligations(fn, b, a, wz):
                items.append(("srs.%s[%s]::%s" % (fn, reg.name, lab), e, FILE, "post"))
    # relations between spectra types (property: pvelo = w*reldisp, pacce = w^2*reldisp)
    bd, ad = outs[("reldisp", False)]
    for fn, p in (("pvelo", 1), ("pacce", 2)):
        b, a = outs[(fn, False)]
        for k in range(3):
            items.append(("srs.%s::b[%d] == wn^%d * reldisp.b[%d]" % (fn, k, p, k), b[k] - SC.w ** p * bd[k], FILE, "post"))
            items.append(("srs.%s::a[%d] == reldisp.a[%d]" % (fn, k, k), a[k] - ad[k], FILE, "post"))
    # static gains used by the steady-state add-back: response to a constant unit input at rest-in-equilibrium
    steady = {"reldisp": -1 / SC.w ** 2, "pvelo": -1 / SC.w, "pacce": -1, "absacce": 1, "relacce": 0, "relvelo": 0}
    for fn in STYPES:
        b, a = outs[(fn, False)]
        items.append(("srs.%s::static gain sum(b)/sum(a) == steady response to unit constant input" % fn,
                      sum(b) - steady[fn] * sum(a), FILE, "post"))
    return items, paths


# ------------------------------------------------------------------------------------------------
# end-to-end runs of the real srs.srs (serial arm) on a symbolic record of fixed small length
def e2e_case(args):
    t0 = time.time()
    try:
        return _e2e_case(args)
    except Exception as ex:
        import traceback
        tb = traceback.extract_tb(ex.__traceback__)
        fr_ = ([f for f in tb if "/pyyeti/" in f.filename] or [tb[-1]])[-1]
        return (args, [("symbolic run completes", "undecided", "exception while the real code ran on SYMBOLIC stand-ins (%r at %s:%s): not a violation unless a concrete run "
                        "reproduces it - tool limit" % (ex, fr_.filename, fr_.lineno))], time.time() - t0)


def _e2e_case(args):
    stype, ic, tm, eqs, nsamp = args[:5]
    freqs = list(args[5]) if len(args) > 5 else [1]
    t0 = time.time()
    mod = alg.load_module(report.REPO, FILE)
    Q = sp.Symbol("Q", positive=True)
    s = sp.symbols("s0:2", real=True)
    srv = 4                   # concrete sr and f: they fix the number of padded samples (ceil(sr/min f) = 4)
    reg = alg.Regime("e2e", {Q: 7, s[0]: 3, s[1]: -2})
    sig = alg.sym_array(list(s))
    with alg.Shimmed(mod, reg, extra={"signal": types.SimpleNamespace(lfilter=sym_lfilter)}):
        sh, resp = mod.srs(sig, srv, freqs, alg.S(Q), ic=ic, stype=stype, getresp=True, time=tm, parallel="no",
                           rolloff="none", peak=(lambda r: r[0]), eqsine=eqs)
    hist = resp["hist"]
    tvec = [alg.expr_of(x) for x in np.asarray(resp["t"]).reshape(-1)]
    # specification
    N = 2
    nz = int(sp.ceiling(sp.Rational(srv) / min(f_ for f_ in freqs if f_ > 0)))
    T = sp.Rational(1, srv)
    total = N + nz if tm != "primary" else N
    ns = list(range(total)) if tm != "residual" else list(range(N, total))
    out = []
    if hist.shape != (len(ns), 1, len(freqs)) or len(tvec) != len(ns):
        return (args, [("shape", "failed", "hist shape %s, t length %d, expected %d samples x 1 x %d" % (hist.shape, len(tvec), len(ns), len(freqs)))], time.time() - t0)
    for jf, fv in enumerate(freqs):
        out += _e2e_freq(stype, ic, tm, eqs, nsamp, fv, jf, hist, tvec, s, Q, N, nz, T)
    res = []
    for lab, e, note in out:
        st, det = alg.prove_zero(e, numeric_only=True)
        res.append((lab, st, det))
    return (args, res, time.time() - t0)


def _e2e_freq(stype, ic, tm, eqs, nsamp, fv, jf, hist, tvec, s, Q, N, nz, T):
    wn = 2 * sp.pi * fv
    z, _ = SC.ramp_response(fv == 0)
    Y = SC.output(stype, z, fv == 0)
    sub = {SC.w: wn, SC.T: T}
    Yat = lambda x: Y.subs(SC.t, x).subs(sub)

    def h(n):
        if n < 0:
            return 0
        r = Yat((n + 1) * T)
        if n >= 1:
            r -= 2 * Yat(n * T)
        if n >= 2:
            r += Yat((n - 1) * T)
        return r / T

    steady = {"reldisp": (-1 / wn ** 2 if fv else 0), "pvelo": (-1 / wn if fv else 0), "pacce": -1, "absacce": 1, "relacce": 0, "relvelo": 0}[stype]
    shift = {"zero": 0, "shift": s[0], "mshift": (s[0] + s[1]) / 2, "steady": s[0]}[ic]
    x = [s[0] - shift, s[1] - shift]
    total = N + nz if tm != "primary" else N
    pad = -s[0] if ic == "steady" else 0          # after the record the base acceleration is zero
    x = x + [pad] * (total - N)
    addback = steady * s[0] if ic == "steady" else 0
    ns = list(range(total)) if tm != "residual" else list(range(N, total))
    out = []
    pick = range(len(ns)) if nsamp is None else sorted(set([0, len(ns) // 2, len(ns) - 1]))
    for i in pick:
        n = ns[i]
        spec = sum(x[k] * h(n - k) for k in range(n + 1)) + addback
        if eqs:
            spec = spec / Q
        out.append(("hist[%d,0,%d]" % (i, jf), alg.expr_of(hist[i, 0, jf]) - spec, ""))
        out.append(("t[%d]" % i, tvec[i] - n * T, ""))
    return out


def selectors(mod):
    """peak selectors on 3x1 symbolic columns, every ordering/sign pattern through witnesses (bounded)"""
    a = sp.symbols("a0:3", real=True)
    fails, n = [], 0
    for vals in itertools.product([-3, -1, 2, 5], repeat=3):
        reg = alg.Regime("sel", dict(zip(a, vals)))
        with alg.Shimmed(mod, reg):
            col = alg.sym_array(list(a)).reshape(3, 1)
            r = {k: alg.expr_of(getattr(mod, "_%smeth" % k)(col)[0]).subs(dict(zip(a, vals))) for k in ("abs", "pos", "neg", "poss", "negs")}
        n += 1
        ok = (r["abs"] == max(abs(v) for v in vals) and r["poss"] == max(vals) and r["negs"] == min(vals)
              and r["pos"] == abs(max(vals)) and r["neg"] == abs(min(vals)) and r["abs"] == max(r["pos"], r["neg"]))
        if not ok:
            fails.append(dict(values=vals, got={k: str(v) for k, v in r.items()}))
    return n, fails


def run(tier, seed):
    run = report.Run(PID, tier, seed)
    run.trust("sympy 1.14 (normal forms: expand / trig-exp ideal reduction), mpmath numeric refutation",
              "vc.alg symbolic shims of math.sqrt/exp/sin/cos and of NumPy allocation (object arrays)",
              "scipy.signal.lfilter = direct-form difference equation with zero initial state, linear and time invariant (assumed contract)")
    run.assume("floats are mathematical reals (round-off and the sr/fn <= 2000 conditioning clause are not decided)",
               "hat-function argument: a filter that is exact for the triangular input centred on one sample is exact for every "
               "piecewise-linear input starting from rest (linearity + time invariance of lfilter and of the ODE)",
               "Q > 1/2 (underdamped), wn >= 0, dT > 0")
    run.not_covered += ["rolloff resamplers (fft/lanczos/prefilter/linear) accuracy (their bookkeeping inside srs: bounded)", "srs_frf / vrs / Miles closed forms: bounded float oracle only",
                        "column-order / 1-D vs 2-D packaging independence (follows from lfilter acting column-wise: assumed)",
                        "record lengths other than 2 in the end-to-end window/IC check (bounded part)"]
    mod = alg.load_module(report.REPO, FILE)
    items, paths = coef_items(mod)
    import hashlib, ast
    src = report.read_source(FILE)
    tree = ast.parse(src)
    for fn in STYPES + ["_process_ic", "_add_one_cycle", "srs"]:
        node = [n for n in tree.body if isinstance(n, ast.FunctionDef) and n.name == fn]
        if node:
            run.add_function(FILE, fn, hashlib.sha256(ast.unparse(node[0]).encode()).hexdigest()[:16],
                             {"note": "executed as is (real function object) on symbolic inputs"})
    vs = report.discharge_alg(items)
    run.add_verdicts(vs)
    run.notes.append({"regime decisions (comparison, truth at witness)": paths})
    # bounded: end-to-end symbolic runs
    cases = [(st, ic, tm, eq, (None if tier == "thorough" else 3)) for st in STYPES for ic in ("zero", "shift", "mshift", "steady")
             for tm in ("primary", "total", "residual") for eq in ((False, True) if tier == "thorough" else (False,))]
    if tier != "thorough":
        cases += [("absacce", "steady", "total", True, 3)]
    # several oscillators, frequency list not ascending, with a zero frequency
    cases += [(st, ic, tm, False, 3, (2, 1)) for st in ("absacce", "reldisp") for ic in ("zero", "steady") for tm in ("total", "residual")]
    cases += [("relvelo", "zero", "total", False, 3, (0, 2, 1))]
    outs = report.pool().map(e2e_case, cases, chunksize=1)
    nev, fails, und = 0, [], []
    for args, res, secs in outs:
        for lab, st, det in res:
            nev += 1
            if st == "failed" or lab == "shape":
                fails.append(dict(case=dict(stype=args[0], ic=args[1], time=args[2], eqsine=args[3]), item=lab, detail=det))
            elif st == "undecided":
                und.append((args, lab))
                run.undecided.append("bounded e2e %s %s: %s" % (args[:4], lab, det))
    nsel, sel_fails = selectors(mod)
    run.bounded.append(dict(name="real srs.srs (serial arm, getresp=True) run on a symbolic 2-sample record, one column, sr=4, f=1 Hz: "
                                 "resp['hist'] and resp['t'] against the exact response under each ic rule and time window",
                            scope="record length 2 (+4 padded samples), all stype x ic x time%s; symbolic in signal values and Q" % (" x eqsine" if tier == "thorough" else ""),
                            evaluations=nev, cases=len(cases), failures=len(fails), undecided=len(und), label="bounded in record length (never counted as proved)"))
    run.bounded.append(dict(name="peak selectors _abs/_pos/_neg/_poss/_negs on 3-sample columns", scope="all 64 value patterns over {-3,-1,2,5}",
                            evaluations=nsel, failures=len(sel_fails), label="bounded"))
    evf, ff_ = freq_domain_bounded(seed, tier == "quick")
    run.bounded.append(dict(name="float: srs.vrs (Zvrs, Miles estimate, response PSDs; uniform / logarithmic / two-step / irregular integration grids, Fn on and off the grid, 1-3 "
                                 "specifications, linear and log-log expansion) and srs.srs_frf (merged frequency vector, response FRFs, peaks, srs_frq=None, scale_by_Q_only) against "
                                 "brute-force evaluation of the documented closed forms", evaluations=evf, failures=0 if ff_ is None else 1, label="bounded (never counted as proved)"))
    evr, fr_ = report.guarded(run, rolloff_bounded, seed, tier == "quick")
    run.bounded.append(dict(name="float: srs with roll-off resampling inside (linear x2 / lanczos / fft / callable) == srs without roll-off on the record upsampled outside, for "
                                 "primary / total / residual windows, response types, peak selectors (peaks, histories, time vectors); integer-typed records == their float copies "
                                 "for every roll-off and ic rule", evaluations=evr, failures=0 if fr_ is None else 1, label="bounded (never counted as proved)"))
    ff_ = ff_ or fr_
    failed = [v for v in vs if v.status == "failed"]
    if failed:
        v = failed[0]
        conc = replay_coef(v)
        run.violation(v.name, "closed-form obligation fails: " + ", ".join(x.name for x in failed[:6]),
                      dict(failed=[x.as_dict() for x in failed[:10]], concrete=conc), concrete=bool(conc and conc.get("fails")))
    elif fails:
        run.violation("bounded:e2e:" + json.dumps(fails[0]["case"]), "srs history differs from the exact response",
                      dict(concrete=fails[0], all=fails[:10]), concrete=True)
    elif sel_fails:
        run.violation("bounded:selectors", "peak selector relation violated", dict(concrete=sel_fails[0]), concrete=True)
    elif ff_ is not None:
        run.violation("bounded:" + ff_["what"][:60], ff_["what"], dict(concrete=ff_), concrete=True)
    return run.finish()


def rolloff_bounded(seed, quick):
    """srs with a resampling roll-off (record upsampled inside srs because sr/max(freq) < ppc) against srs WITHOUT roll-off on the same record upsampled outside (the path
    the symbolic end-to-end check covers): peaks, histories and time vectors for every time window, response type and peak selector; 'linear' (factor 2, upsampled here
    with np.interp), 'lanczos' and 'fft' (their resamplers applied to the float record), a callable; integer-typed records must give what their float copies give"""
    sys.path.insert(0, report.REPO)
    import warnings
    from pyyeti import srs as S
    rng = np.random.RandomState(seed + 911)
    ev = 0

    def lin2(sig, sr, ppc, frq):
        n = sig.shape[0]
        t_old = np.arange(n) / sr
        t_new = np.arange(2 * n - 1) / (2 * sr)
        return np.column_stack([np.interp(t_new, t_old, sig[:, j]) for j in range(sig.shape[1])]), 2 * sr

    for it in range(6 if quick else 40):
        n = int(rng.choice([24, 31, 40]))
        H = 1 + it % 2
        sr = 200.0
        sig = np.cumsum(rng.randn(n, H), axis=0)
        sig[0] = 0.0
        Q = float(rng.choice([10, 25]))
        ppc = 10
        kind = ("linear", "lanczos", "fft", "callable")[it % 4]
        freq = np.array([6.0, 17.0, 38.0]) if kind in ("linear", "callable") else np.array([5.0, 21.0, float(rng.choice([38.0, 55.0, 90.0]))])   # linear: factor exactly 2
        roll = {"linear": "linear", "lanczos": "lanczos", "fft": "fft", "callable": lin2}[kind]
        outside = {"linear": lin2, "callable": lin2, "lanczos": S.lanroll, "fft": S.fftroll}[kind]
        with warnings.catch_warnings():
            warnings.simplefilter("ignore")
            sig2, sr2 = outside(sig.copy(), sr, ppc, freq.max())
            for stype in (("absacce", "reldisp") if quick else ("absacce", "relacce", "reldisp", "relvelo", "pvelo", "pacce")):
                for tm in ("primary", "total", "residual"):
                    for pk in (("abs", "poss") if quick else ("abs", "pos", "neg", "poss", "negs", "rms")):
                        a, ra = S.srs(sig, sr, freq, Q, ic="zero", stype=stype, peak=pk, ppc=ppc, rolloff=roll, time=tm, getresp=True, parallel="no")
                        b, rb = S.srs(sig2, sr2, freq, Q, ic="zero", stype=stype, peak=pk, ppc=ppc, rolloff="none", time=tm, getresp=True, parallel="no")
                        ev += 1
                        prob = None
                        if ra["hist"].shape != rb["hist"].shape or ra["t"].shape != rb["t"].shape:
                            prob = "history / time vector have %s / %s samples, expected %s / %s" % (ra["hist"].shape, ra["t"].shape, rb["hist"].shape, rb["t"].shape)
                        elif not np.allclose(ra["t"], rb["t"], rtol=1e-12, atol=1e-12):
                            prob = "time vector differs (starts at %g, expected %g)" % (ra["t"][0], rb["t"][0])
                        elif not (np.allclose(ra["hist"], rb["hist"], rtol=1e-9, atol=1e-9 * (1 + abs(rb["hist"]).max())) and np.allclose(a, b, rtol=1e-9, atol=1e-12)):
                            prob = "peaks / histories differ by %.3g" % max(abs(np.asarray(a) - np.asarray(b)).max(), abs(ra["hist"] - rb["hist"]).max())
                        if prob:
                            return ev, dict(what="srs(rolloff=%s, time=%s, stype=%s, peak=%s) is not srs of the upsampled record: %s" % (kind, tm, stype, pk, prob),
                                            sig=sig.tolist(), sr=sr, freq=freq.tolist(), Q=Q, ppc=ppc)
            # integer-typed record == its float copy (every roll-off, ic rule)
            sig_i = np.round(20 * sig).astype([np.int64, np.int32, np.int16][it % 3])
            for ic in ("zero", "shift", "steady"):
                for rl in ("lanczos", "fft", "linear", "none"):
                    a, ra = S.srs(sig_i, sr, freq, Q, ic=ic, rolloff=rl, ppc=ppc, getresp=True, parallel="no")
                    b, rb = S.srs(sig_i.astype(float), sr, freq, Q, ic=ic, rolloff=rl, ppc=ppc, getresp=True, parallel="no")
                    ev += 1
                    if ra["hist"].shape != rb["hist"].shape or not (np.allclose(a, b, rtol=1e-9, atol=1e-12) and np.allclose(ra["hist"], rb["hist"], rtol=1e-9, atol=1e-9 * (1 + abs(rb["hist"]).max()))):
                        return ev, dict(what="srs(ic=%s, rolloff=%s) of an integer-typed record (%s) differs from srs of its float copy by %.3g" % (ic, rl, sig_i.dtype, abs(np.asarray(a) - np.asarray(b)).max()),
                                        sig=sig_i.tolist(), sr=sr, freq=freq.tolist(), Q=Q, ppc=ppc)
    return ev, None


def freq_domain_bounded(seed, quick):
    """srs.vrs (and its Miles estimate) and srs.srs_frf against their documented closed forms, evaluated by brute force"""
    sys.path.insert(0, report.REPO)
    import warnings
    from pyyeti import srs as S
    rng = np.random.RandomState(seed + 303)
    ev = 0
    H2 = lambda p_, Q_: (1 + (p_ / Q_) ** 2) / ((1 - p_ ** 2) ** 2 + (p_ / Q_) ** 2)
    for it in range(12 if quick else 60):
        Q = float(rng.choice([0.8, 5, 10, 25, 50]))
        linear = bool(it % 2)
        npsd = 1 + it % 3
        brk = np.sort(rng.choice(np.arange(20, 2000, 7.0), 4, replace=False))
        brk[0], brk[-1] = 20.0, 2000.0
        lev = 10.0 ** rng.uniform(-3, -1, size=(4, npsd))
        kind = it % 4
        if kind == 0:
            freq = np.arange(20.0, 2000.0, 2.0)                                       # uniform
        elif kind == 1:
            freq = np.geomspace(20.0, 2000.0, 400)                                    # logarithmic
        elif kind == 2:
            freq = np.hstack((np.arange(20.0, 300.0, 0.5), np.arange(300.0, 2000.0, 5.0)))   # two step sizes
        else:
            freq = np.sort(rng.uniform(20, 2000, 500))                                # irregular
        Fn = None if it % 5 == 0 else np.sort(rng.uniform(60, 900, 4)) + 0.123        # not on the integration grid
        one_d = npsd == 1 and it % 2 == 0
        spec = (brk, lev[:, 0]) if one_d else np.column_stack((brk, lev))
        with warnings.catch_warnings():
            warnings.simplefilter("ignore")
            z, zm, resp = S.vrs(spec, freq, Q, linear, Fn=Fn, getresp=True)
            z_only = S.vrs(spec, freq, Q, linear, Fn=Fn)
        ev += 1
        fgrid = np.unique(np.hstack((freq, Fn))) if Fn is not None else freq
        fn_ = fgrid if Fn is None else Fn
        # documented expansion of the specification (psd.interp: log-log or linear between break points, zero outside)
        P = np.zeros((len(fgrid), npsd))
        for j in range(npsd):
            if linear:
                P[:, j] = np.interp(fgrid, brk, lev[:, j], left=0, right=0)
            else:
                P[:, j] = np.exp(np.interp(np.log(fgrid), np.log(brk), np.log(lev[:, j])))
                P[(fgrid < brk[0]) | (fgrid > brk[-1]), j] = 0
        # integration weights: distance between the midpoints of the neighbouring intervals; the full first and last interval at the two ends
        w = np.empty(len(fgrid))
        for i in range(len(fgrid)):
            w[i] = (fgrid[1] - fgrid[0]) if i == 0 else (fgrid[-1] - fgrid[-2]) if i == len(fgrid) - 1 else (fgrid[i + 1] - fgrid[i - 1]) / 2
        want = np.array([[np.sqrt(sum(H2(fgrid[i] / f0, Q) * P[i, j] * w[i] for i in range(len(fgrid)))) for j in range(npsd)] for f0 in fn_])
        Pfn = np.array([[np.interp(f0, fgrid, P[:, j]) for j in range(npsd)] for f0 in fn_])
        miles = np.sqrt(np.pi / 2 * np.asarray(fn_)[:, None] * Q * Pfn)
        zz, mm = (np.asarray(z).reshape(len(fn_), -1), np.asarray(zm).reshape(len(fn_), -1))
        prob = None
        if np.shape(z) != ((len(fn_),) if one_d else (len(fn_), npsd)):
            prob = "Zvrs has shape %s" % (np.shape(z),)
        elif not np.allclose(zz, want, rtol=1e-9, atol=0):
            prob = "Zvrs differs from sqrt(sum |H(f_i/fn)|^2 PSD(f_i) df_i) (max relative difference %.3g)" % float(np.max(abs(zz - want) / want))
        elif not np.allclose(mm, miles, rtol=1e-9, atol=1e-300):
            prob = "the Miles estimate differs from sqrt(pi/2 fn Q PSD(fn))"
        elif not np.allclose(np.asarray(z_only), np.asarray(z), rtol=1e-12):
            prob = "Zvrs depends on getresp"
        elif not (np.array_equal(resp["f"], fgrid) and np.allclose(resp["psd"], np.array([[H2(fgrid / f0, Q) * P[:, j] for j in range(npsd)] for f0 in fn_]), rtol=1e-9, atol=1e-300)):
            prob = "the response PSD curves differ from |H|^2 PSD"
        if prob:
            return ev, dict(what="vrs: " + prob, Q=Q, linear=linear, grid=("uniform", "log", "two-step", "irregular")[kind], Fn=None if Fn is None else Fn.tolist(), npsd=npsd)
    # srs_frf
    for it in range(10 if quick else 40):
        Q = float(rng.choice([5, 10, 30]))
        nf, ncol = rng.randint(3, 30), 1 + it % 2
        ff = np.sort(rng.uniform(5, 100, nf))
        frf = rng.randn(nf, ncol) + 1j * rng.randn(nf, ncol) * (it % 3 == 0)
        sf = None if it % 4 == 0 else np.sort(rng.uniform(5, 100, rng.randint(1, 6)))
        with warnings.catch_warnings():
            warnings.simplefilter("ignore")
            out = S.srs_frf(frf if ncol > 1 or it % 2 else frf[:, 0], ff, sf, Q, getresp=True)
            shq = S.srs_frf(frf, ff, sf, Q, scale_by_Q_only=True)
        ev += 1
        sh, resp = out[0], out[-1]
        p_peak = Q * np.sqrt(np.sqrt(1 + 2 / Q ** 2) - 1)
        sfr = ff / p_peak if sf is None else sf
        prob = None
        if sf is None and not (len(out) == 3 and np.allclose(out[1], sfr, rtol=1e-12)):
            prob = "the SDOF frequencies chosen for srs_frq=None are not frf_frq / p_peak"
        fq = resp["freq"]
        A = np.array([np.interp(fq, ff, abs(frf[:, j]), left=0, right=0) for j in range(ncol)]).T
        if prob is None and not (np.all(np.diff(fq) > 0) and all(np.min(abs(fq - x)) <= 1e-5 for x in np.hstack((ff, p_peak * sfr)))):
            prob = "resp['freq'] is not the merged frequency vector (every FRF frequency and every p_peak*srs_frq within 1e-5)"
        if prob is None:
            for k, f0 in enumerate(sfr):
                pp = fq / f0
                Hc = 1 + pp ** 2 / (1 - pp ** 2 + 1j * pp / Q)
                wantk = Hc[:, None] * A
                if not np.allclose(resp["frfs"][:, :, k], wantk, rtol=1e-9, atol=1e-12):
                    prob = "response FRF of the %.4g Hz oscillator differs from (1 + p^2/(1 - p^2 + j p/Q)) |frf|" % f0
                    break
                if not np.allclose(sh[k], abs(wantk).max(axis=0), rtol=1e-9):
                    prob = "sh is not the peak of |X(Omega)| over the analysed frequencies"
                    break
        if prob is None:
            shq_ = shq[0] if isinstance(shq, tuple) else shq
            fq2 = ff if sf is None else sf
            if not np.allclose(shq_, Q * np.array([np.interp(fq2, ff, abs(frf[:, j]), left=0, right=0) for j in range(ncol)]).T, rtol=1e-12, atol=0):
                prob = "scale_by_Q_only: sh != Q |frf|"
        # the maximising property of p_peak
        if prob is None and not all(abs(1 + q_ ** 2 / (1 - q_ ** 2 + 1j * q_ / Q)) <= abs(1 + p_peak ** 2 / (1 - p_peak ** 2 + 1j * p_peak / Q)) + 1e-12 for q_ in p_peak * (1 + np.array([-1e-3, 1e-3, -1e-5, 1e-5]))):
            prob = "p_peak does not maximise |H(p)|"
        if prob:
            return ev, dict(what="srs_frf: " + prob, Q=Q, frf_frq=ff.tolist(), srs_frq=None if sf is None else sf.tolist(), ncol=ncol)
    return ev, None


def replay_coef(v):
    """evaluate the real (float) coefficient function at the numeric witness and compare with the spec numerically"""
    try:
        w = v.detail.get("witness")
        if not w:
            return None
        name = v.name.split("::")[0].split(".")[1].split("[")[0]
        wz = "wn==0" in v.name
        import importlib
        mod = alg.load_module(report.REPO, FILE)
        vals = {k: float(sp.Rational(x)) for k, x in w.items()}
        Qv, Tv, wv = vals.get("Q", 10.0), vals.get("dT", 0.001), (0.0 if wz else vals.get("wn", 300.0))
        b, a = getattr(mod, name)(Qv, Tv, wv)
        sub = {SC.Q: sp.Rational(w.get("Q", 10)), SC.T: sp.Rational(w.get("dT", "1/1000")), SC.w: sp.Rational(w.get("wn", 300))}
        obl = SC.obligations(name, [sp.Float(float(x), 30) for x in b], [sp.Float(float(x), 30) for x in a], wz)
        bad = []
        for lab, e in obl:
            val = sp.N(sp.Abs(e.subs(sub).subs(SC.tau, sp.Rational(1, 7)).subs(SC.t, sp.Rational(3, 11))), 20)
            if not val.is_number or float(val) > 1e-9:
                bad.append((lab, str(val)))
        return dict(function=name, inputs=dict(Q=Qv, dT=Tv, wn=wv), b=[float(x) for x in b], a=[float(x) for x in a],
                    violated=bad[:6], fails=bool(bad))
    except Exception as ex:
        return dict(error=repr(ex), fails=False)


def replay(path):
    d = json.load(open(path))
    print(json.dumps(d.get("concrete"), indent=1)[:2000])
    return 1 if d.get("concrete") else 0
