"""C01 - Exact time-domain ODE solution (DESIGN.md section C01)."""
import ast, hashlib, json, os, sys, time, itertools
import numpy as np
import sympy as sp
from vc import report, alg, pipeline
from contracts import ode_coef as OC, solveunc_loop as SL

PID = "C01"
UTIL = "pyyeti/ode/_utilities.py"
SU = "pyyeti/ode/solveunc.py"
BASE = "pyyeti/ode/_base_ode_class.py"
R = sp.Rational
m, b, k, h = OC.m, OC.b, OC.k, OC.h

REGIMES = [
    ("underdamped", dict(m=m, b=b, k=k), {m: 2, b: R(3, 10), k: 5, h: R(1, 10)}, False),
    ("overdamped", dict(m=m, b=b, k=k), {m: 2, b: 9, k: 5, h: R(1, 10)}, False),
    ("critical (b = 2 sqrt(k m))", dict(m=m, b=2 * sp.sqrt(k * m), k=k), {m: 2, k: 5, h: R(1, 10)}, False),
    # near critical damping (1 - zeta^2 = +-1e-6 and +-3e-8; the documented band in which the critical formulas are used is |1 - zeta^2| < 1e-8)
    ("underdamped, 1-zeta^2 = 1e-6", dict(m=m, b=b, k=k), {m: 1, b: 2 * (1 - R(5, 10 ** 7)), k: 1, h: R(1, 10)}, False),
    ("underdamped, 1-zeta^2 = 3e-8", dict(m=m, b=b, k=k), {m: 1, b: 2 * (1 - R(15, 10 ** 9)), k: 1, h: R(1, 10)}, False),
    ("overdamped, 1-zeta^2 = -1e-6", dict(m=m, b=b, k=k), {m: 1, b: 2 * (1 + R(5, 10 ** 7)), k: 1, h: R(1, 10)}, False),
    ("overdamped, 1-zeta^2 = -3e-8", dict(m=m, b=b, k=k), {m: 1, b: 2 * (1 + R(15, 10 ** 9)), k: 1, h: R(1, 10)}, False),
    ("rigid (k = b = 0)", dict(m=m, b=0, k=0), {m: 2, h: R(1, 10)}, False),
    ("rigid, damped (k = 0)", dict(m=m, b=b, k=0), {m: 2, b: 3, h: R(1, 10)}, False),
    ("rigid, lightly damped: velocity formulas only", dict(m=m, b=b, k=0), {m: 2, b: R(1, 1000), h: R(1, 10)}, True),
    ("underdamped, m=None", dict(m=None, b=b, k=k), {b: R(3, 10), k: 5, h: R(1, 10)}, False),
    ("overdamped, m=None", dict(m=None, b=b, k=k), {b: 9, k: 5, h: R(1, 10)}, False),
    ("rigid, m=None", dict(m=None, b=0, k=0), {h: R(1, 10)}, False),
]


def coef_items(util):
    items, paths, seen = [], {}, {}
    for name, inp, wit, vo in REGIMES:
        reg = alg.Regime(name, wit)
        with alg.Shimmed(util, reg):
            mm = None if inp["m"] is None else alg.sym_array([inp["m"]])
            co = util.get_su_coef(mm, alg.sym_array([inp["b"]]), alg.sym_array([inp["k"]]), alg.S(h))
        paths[name] = reg.path
        d = {n: alg.expr_of(getattr(co, n)[0]) for n in ("F", "G", "A", "B", "Fp", "Gp", "Ap", "Bp")}
        key = (str(inp["m"]), str(inp["b"]), str(inp["k"]), vo, tuple(sorted((n_, str(e_)) for n_, e_ in d.items())))
        if key in seen:
            paths[name] = dict(path=reg.path, note="same branches and terms as regime '%s': covered by its obligations" % seen[key])
            continue
        seen[key] = name
        for lab, e in OC.lemmas(d, 1 if inp["m"] is None else inp["m"], inp["b"], inp["k"], vo):
            items.append(("get_su_coef[%s]::%s" % (name, lab), e, UTIL, "post"))
    # residual-flexibility rows: static solution k q = force at the new sample
    reg = alg.Regime("rf", {m: 2, b: R(3, 10), k: 5, h: R(1, 10)})
    with alg.Shimmed(util, reg):
        co = util.get_su_coef(alg.sym_array([m]), alg.sym_array([b]), alg.sym_array([k]), alg.S(h), rfmodes=np.array([0]))
    want = dict(F=0, G=0, A=0, B=1 / k, Fp=0, Gp=0, Ap=0, Bp=0)
    for n, w in want.items():
        items.append(("get_su_coef[residual flexibility]::%s == %s" % (n, w), alg.expr_of(getattr(co, n)[0]) - w, UTIL, "post"))
    # complex-modal coefficients of the coupled path (scalar first-order hold integrals)
    su = alg.load_module(report.REPO, SU)
    import types
    lam = OC.lam
    for name, lamv, wit in (("elastic root", lam, {lam: R(-3, 10) + 2 * sp.I, h: R(1, 10)}),
                            ("slow root, small step (|lam| >= 5e-5 but |lam h| < 5e-5)", lam, {lam: R(-1, 50), h: R(1, 1000)}),
                            ("slow complex root, small step", lam, {lam: R(-1, 100) + sp.I / 200, h: R(1, 2000)}),
                            ("zero root", 0, {h: R(1, 10)})):
        reg = alg.Regime(name, wit)
        pc = types.SimpleNamespace()
        with alg.Shimmed(su, reg):
            su.SolveUnc._get_complex_su_coefs(None, pc, alg.sym_array([lamv]), alg.S(h))
        paths["_get_complex_su_coefs[%s]" % name] = reg.path
        for lab, e in OC.complex_lemmas(alg.expr_of(pc.Fe[0]), alg.expr_of(pc.Ae[0]), alg.expr_of(pc.Be[0]), lamv):
            items.append(("_get_complex_su_coefs[%s]::%s" % (name, lab), e, SU, "post"))
    return items, paths


# ---------------------------------------------------------------------------------------------
def e2e_case(args):
    try:
        return _e2e_case(args)
    except Exception as ex:
        import traceback
        tb = traceback.extract_tb(ex.__traceback__)
        fr_ = ([f for f in tb if "/pyyeti/" in f.filename] or [tb[-1]])[-1]
        return (args, [("symbolic run completes", "undecided", "exception while the real code ran on SYMBOLIC stand-ins (%r at %s:%s): not a violation unless a concrete run "
                        "reproduces it - tool limit" % (ex, fr_.filename, fr_.lineno))], 0.0)


def _e2e_case(args):
    """real SolveUnc (uncoupled path) on a symbolic 3-mode system [rb, elastic, rf], nt = 3"""
    order, mform, rbgiven, ic = args[:4]
    heavy = len(args) > 4 and args[4] == "heavy"      # a heavy, soft elastic mode: |k| >= 0.005 (elastic by the documented rule) although k/m < 0.005
    t0 = time.time()
    su = alg.load_module(report.REPO, SU)
    util = alg.load_module(report.REPO, UTIL)
    base = alg.load_module(report.REPO, BASE)
    ms = sp.symbols("m0:3", positive=True)
    bs = sp.symbols("b0:3", positive=True)
    ks = sp.symbols("k0:3", positive=True)
    f = sp.symbols("f0:9", real=True)
    d0s = sp.symbols("d0_0:3", real=True)
    v0s = sp.symbols("v0_0:3", real=True)
    wit = {h: R(1, 10)}
    for i in range(3):
        wit.update({ms[i]: 2 + i, bs[i]: R(3, 10), ks[i]: 5 + i, d0s[i]: i + 1, v0s[i]: 2 - i})
    for i in range(9):
        wit[f[i]] = i - 4
    if heavy:
        wit.update({ms[1]: 4000, ks[1]: 3})
    reg = alg.Regime("e2e", wit)
    mv = [1, 1, 1] if mform == "none" else list(ms)
    bv = [0, bs[1], bs[2]]
    kv = [0, ks[1], ks[2]]
    nt = 3
    with alg.Multi([su, util, base], reg):
        marg = None if mform == "none" else (alg.sym_array(mv) if mform == "vector" else _diag(mv))
        ts = su.SolveUnc(marg, alg.sym_array(bv), alg.sym_array(kv), alg.S(h), rb=([0] if rbgiven else None), rf=[2], order=order)
        Fm = alg.sym_array(list(f)).reshape(3, nt)
        if ic == "zero":
            sol = ts.tsolve(Fm)
            d0v, v0v = [0, 0, 0], [0, 0, 0]
        elif ic == "d0v0":
            sol = ts.tsolve(Fm, d0=alg.sym_array(list(d0s)), v0=alg.sym_array(list(v0s)))
            d0v, v0v = list(d0s), list(v0s)
        elif ic == "static+v0":
            # static initial displacement AND a given initial velocity in the same call
            sol = ts.tsolve(Fm, v0=alg.sym_array(list(v0s)), static_ic=True)
            d0v, v0v = [0, Fm[1, 0].e / kv[1], None], list(v0s)
        else:
            sol = ts.tsolve(Fm, static_ic=True)
            d0v, v0v = [0, Fm[1, 0].e / kv[1], None], [0, 0, 0]
        co = util.get_su_coef(None if mform == "none" else alg.sym_array(mv), alg.sym_array(bv), alg.sym_array(kv), alg.S(h),
                              rbmodes=np.array([0]), rfmodes=np.array([2]))
    E = lambda x: alg.expr_of(x)
    out = []
    for r in (0, 1):      # dynamic rows
        out.append(("row%d d[0] == d0" % r, E(sol.d[r, 0]) - d0v[r]))
        out.append(("row%d v[0] == v0" % r, E(sol.v[r, 0]) - v0v[r]))
        for j in range(nt):
            out.append(("row%d equation of motion @%d" % (r, j), mv[r] * E(sol.a[r, j]) + bv[r] * E(sol.v[r, j]) + kv[r] * E(sol.d[r, j]) - f[r * nt + j]))
        for j in range(nt - 1):
            P0, P1 = f[r * nt + j], f[r * nt + j + 1]
            if order == 0:
                P1 = P0
            c = {n: E(getattr(co, n)[r]) for n in ("F", "G", "A", "B", "Fp", "Gp", "Ap", "Bp")}
            out.append(("row%d d step %d" % (r, j), E(sol.d[r, j + 1]) - (c["F"] * E(sol.d[r, j]) + c["G"] * E(sol.v[r, j]) + c["A"] * P0 + c["B"] * P1)))
            out.append(("row%d v step %d" % (r, j), E(sol.v[r, j + 1]) - (c["Fp"] * E(sol.d[r, j]) + c["Gp"] * E(sol.v[r, j]) + c["Ap"] * P0 + c["Bp"] * P1)))
    for j in range(nt):   # residual-flexibility row: static
        out.append(("rf row k d == F @%d" % j, kv[2] * E(sol.d[2, j]) - f[2 * nt + j]))
        out.append(("rf row v == 0 @%d" % j, E(sol.v[2, j])))
        out.append(("rf row a == 0 @%d" % j, E(sol.a[2, j])))
    res = []
    for lab, e in out:
        st, det = alg.prove_zero(sp.sympify(e), numeric_only=True)
        res.append((lab, st, det))
    return (args, res, time.time() - t0)


def _diag(v):
    n = len(v)
    a = np.empty((n, n), dtype=object)
    for i in range(n):
        for j in range(n):
            a[i, j] = alg.S(v[i]) if i == j else alg.S(0)
    return a.view(alg.SymArr)


def pre_eig_ic(seed):
    """concrete: SolveUnc(..., pre_eig=True).tsolve(F, d0, v0) must start at d0, v0 (known finding D6)"""
    su = alg.load_module(report.REPO, SU)
    rng = np.random.RandomState(seed)
    mm = np.array([[2.0, 0.3], [0.3, 1.5]])
    kk = np.array([[40.0, -10.0], [-10.0, 30.0]])
    bb = 0.02 * kk
    F = rng.randn(2, 5)
    d0 = np.array([1.0, 2.0])
    v0 = np.array([0.5, -0.25])
    ts = su.SolveUnc(mm, bb, kk, 0.01, pre_eig=True)
    sol = ts.tsolve(F, d0=d0, v0=v0)
    err = float(max(abs(sol.d[:, 0] - d0).max(), abs(sol.v[:, 0] - v0).max()))
    ref = su.SolveUnc(mm, bb, kk, 0.01).tsolve(F, d0=d0, v0=v0)
    err2 = float(abs(sol.d - ref.d).max())
    return dict(d0=d0.tolist(), v0=v0.tolist(), got_d0=sol.d[:, 0].tolist(), got_v0=sol.v[:, 0].tolist(), ic_error=err,
                max_diff_vs_no_pre_eig=err2, fails=bool(err > 1e-9))


def concrete(seed):
    import subprocess
    p = subprocess.run([sys.executable, "-m", "vc.c01_concrete", report.REPO, str(seed)], capture_output=True, text=True, cwd=report.VERIF, timeout=1500)
    for line in p.stdout.splitlines():
        if line.startswith("RESULT "):
            return json.loads(line[7:])
    return dict(evaluations=0, cases=[], failure=dict(what="concrete harness crashed: " + (p.stderr or p.stdout)[-400:], crash=True))


# ------------------------------------------------------------------------------------------------------------------
# SolveExp2 / SolveExp1: the stepping realises y+ = E y + P w_i + Q w_(i+1) for y = [v; d], w = M^-1 F, with getEPQ under contract (C07)
def exp_case(args):
    t0 = time.time()
    try:
        return _exp_case(args, t0)
    except Exception as ex:
        import traceback
        tb = traceback.extract_tb(ex.__traceback__)
        last = tb[-1]
        inrepo = "/pyyeti/" in last.filename and "/verif/" not in last.filename
        st = "undecided"          # an exception on symbolic stand-ins is a tool limit, never a violation by itself (concrete arms report real exceptions)
        return [dict(name="SolveExp%s::symbolic run completes" % (args,), status=st, seconds=time.time() - t0, detail={"reason": "%r at %s:%s" % (ex, last.filename, last.lineno)})]


def _exp_case(args, t0):
    from types import SimpleNamespace
    from vc import symla, npx
    cls, order, mform, rf = args
    SE2, SE1 = "pyyeti/ode/solveexp2.py", "pyyeti/ode/solveexp1.py"
    mods = [alg.load_module(report.REPO, p_) for p_ in (SE2, SE1, BASE)]
    se2, se1, base = mods
    n, nt = 2, 3
    h = sp.Symbol("h", positive=True)

    def iszero(e):
        e = sp.expand(e)
        return e == 0 or sp.expand(sp.numer(sp.together(e))) == 0
    calls = []
    if cls == "SolveExp1":
        A = sp.Matrix(n, n, lambda i, j: sp.Symbol("A%d%d" % (i, j), real=True))
        E = sp.Matrix(n, n, lambda i, j: sp.Symbol("E%d%d" % (i, j), real=True))
        P = sp.Matrix(n, n, lambda i, j: sp.Symbol("P%d%d" % (i, j), real=True))
        Q = sp.Matrix(n, n, lambda i, j: sp.Symbol("Q%d%d" % (i, j), real=True))

        def getEPQ(Ain, hh, order_=1, B=None, half=False):
            calls.append(dict(A=symla.tomat(Ain), h=alg.expr_of(hh), order=order_, half=half))
            return symla.toarr(E), symla.toarr(P), (symla.toarr(Q) if order_ == 1 else 0.0)
        F = sp.Matrix(n, nt, lambda i, j: sp.Symbol("F%d_%d" % (i, j), real=True))
        d0 = sp.Matrix(n, 1, lambda i, j: sp.Symbol("d0_%d" % i, real=True))
        reg = alg.HashRegime("se1")
        extra = {se1.__name__: {"np": npx.NPX(), "expmint": SimpleNamespace(getEPQ=getEPQ)}}
        with alg.Multi([se1], reg, extra):
            ts = se1.SolveExp1(symla.toarr(A), alg.S(h), order=order)
            sol = ts.tsolve(symla.toarr(F), d0=alg.sym_array(list(d0)))
        bad = []
        D = sp.Matrix(n, nt, lambda i, j: alg.expr_of(sol.d[i, j]))
        V = sp.Matrix(n, nt, lambda i, j: alg.expr_of(sol.v[i, j]))
        for i in range(n):
            if not iszero(D[i, 0] - d0[i]):
                bad.append(("d0", i))
        for j in range(1, nt):
            want = E * D[:, j - 1] + P * F[:, j - 1] + (Q * F[:, j] if order == 1 else sp.zeros(n, 1))
            bad += [("step", j, i) for i in range(n) if not iszero(D[i, j] - want[i])]
        for j in range(nt):
            w = F[:, j] + A * D[:, j]
            bad += [("v = f + A d", j, i) for i in range(n) if not iszero(V[i, j] - w[i])]
        ok = len(calls) == 1 and calls[0]["A"] == A and calls[0]["h"] == h and calls[0]["order"] == order and not calls[0]["half"]
        return [dict(name="SolveExp1[order=%d]::d[:, j] == E d[:, j-1] + P f[:, j-1]%s, d[:, 0] == d0, v == f + A d; getEPQ(A, h, order) called once" % (order, " + Q f[:, j]" if order else ""),
                     status="failed" if (bad or not ok) else "proved", seconds=time.time() - t0, detail={"bad": bad[:6], "call_ok": ok})]
    # SolveExp2
    k_ = n
    ntot = n + (1 if rf else 0)
    full = mform == "matrix"
    if full:
        M = sp.Matrix(k_, k_, lambda i, j: sp.Symbol("m%d%d" % (min(i, j), max(i, j)), real=True))
        Bm = sp.Matrix(k_, k_, lambda i, j: sp.Symbol("b%d%d" % (i, j), real=True))
        Km = sp.Matrix(k_, k_, lambda i, j: sp.Symbol("k%d%d" % (min(i, j), max(i, j)), real=True))
    else:
        M = sp.diag(*[sp.Symbol("m%d" % i, positive=True) for i in range(k_)]) if mform != "none" else sp.eye(k_)
        Bm = sp.Matrix(k_, k_, lambda i, j: sp.Symbol("b%d%d" % (i, j), real=True))       # full damping -> coupled solver path
        Km = sp.diag(*[sp.Symbol("k%d" % i, positive=True) for i in range(k_)])
    krf = sp.Symbol("krf", positive=True)
    E = sp.Matrix(2 * k_, 2 * k_, lambda i, j: sp.Symbol("E%d%d" % (i, j), real=True))
    P = sp.Matrix(2 * k_, k_, lambda i, j: sp.Symbol("P%d%d" % (i, j), real=True))
    Q = sp.Matrix(2 * k_, k_, lambda i, j: sp.Symbol("Q%d%d" % (i, j), real=True))

    def getEPQ(Ain, hh, order_=1, B=None, half=False):
        calls.append(dict(A=symla.tomat(Ain), h=alg.expr_of(hh), order=order_, half=half, B=B))
        return symla.toarr(E), symla.toarr(P), (symla.toarr(Q) if order_ == 1 else 0.0)

    def ext(X, last):
        if not rf:
            return X
        Y = sp.zeros(ntot, ntot)
        Y[:k_, :k_] = X
        Y[k_, k_] = last
        return Y
    F = sp.Matrix(ntot, nt, lambda i, j: sp.Symbol("F%d_%d" % (i, j), real=True))
    d0 = [sp.Symbol("d0_%d" % i, real=True) for i in range(k_)] + ([0] if rf else [])
    v0 = [sp.Symbol("v0_%d" % i, real=True) for i in range(k_)] + ([0] if rf else [])
    reg = alg.HashRegime("se2")
    extra = {mm.__name__: {"np": npx.NPX(), "la": symla} for mm in (se2, base)}
    extra[se2.__name__]["expmint"] = SimpleNamespace(getEPQ=getEPQ)
    with alg.Multi([se2, base], reg, extra):
        marg = None if mform == "none" else symla.toarr(ext(M, 1))
        ts = se2.SolveExp2(marg, symla.toarr(ext(Bm, 0)), symla.toarr(ext(Km, krf)), alg.S(h), rf=([k_] if rf else None), order=order)
        sol = ts.tsolve(symla.toarr(F), d0=alg.sym_array(d0), v0=alg.sym_array(v0))
    res = []
    tag = "SolveExp2[order=%d, m=%s, %s]" % (order, mform, "with rf" if rf else "no rf")
    Mi = M.inv()
    Awant = sp.zeros(2 * k_, 2 * k_)
    Awant[:k_, :k_] = -Mi * Bm
    Awant[:k_, k_:] = -Mi * Km
    Awant[k_:, :k_] = sp.eye(k_)
    okA = len(calls) == 1 and all(iszero(x) for x in (calls[0]["A"] - Awant)) and calls[0]["h"] == h and calls[0]["order"] == order and calls[0]["half"] and calls[0]["B"] is None
    res.append(dict(name=tag + "::getEPQ is called once on the state matrix [[-M^-1 B, -M^-1 K], [I, 0]] (state [v; d]) with (h, order, half=True)", status="proved" if okA else "failed",
                    seconds=time.time() - t0, detail={"calls": len(calls)}))
    D = sp.Matrix(ntot, nt, lambda i, j: alg.expr_of(sol.d[i, j]))
    V = sp.Matrix(ntot, nt, lambda i, j: alg.expr_of(sol.v[i, j]))
    Ac = sp.Matrix(ntot, nt, lambda i, j: alg.expr_of(sol.a[i, j]))
    bad = []
    for i in range(k_):
        if not iszero(D[i, 0] - d0[i]) or not iszero(V[i, 0] - v0[i]):
            bad.append(("initial conditions", i))
    for j in range(1, nt):
        y0 = sp.Matrix.vstack(V[:k_, j - 1], D[:k_, j - 1])
        w0, w1 = Mi * F[:k_, j - 1], Mi * F[:k_, j]
        y1 = E * y0 + P * w0 + (Q * w1 if order == 1 else sp.zeros(2 * k_, 1))
        for i in range(k_):
            if not iszero(V[i, j] - y1[i]):
                bad.append(("v step", j, i))
            if not iszero(D[i, j] - y1[k_ + i]):
                bad.append(("d step", j, i))
    res.append(dict(name=tag + "::[v; d](j) == E [v; d](j-1) + P M^-1 F(j-1)%s for every step (nt=3), initial conditions kept" % (" + Q M^-1 F(j)" if order else ""),
                    status="failed" if bad else "proved", seconds=time.time() - t0, detail={"bad": bad[:6]}))
    bad = []
    for j in range(nt):
        r = M * Ac[:k_, j] + Bm * V[:k_, j] + Km * D[:k_, j] - F[:k_, j]
        bad += [("eom", j, i) for i in range(k_) if not iszero(r[i])]
        if rf:
            if not iszero(D[k_, j] - F[k_, j] / krf) or V[k_, j] != 0 or Ac[k_, j] != 0:
                bad.append(("rf row", j))
    res.append(dict(name=tag + "::M a + B v + K d == F at every step; residual-flexibility row static", status="failed" if bad else "proved", seconds=time.time() - t0, detail={"bad": bad[:6]}))
    return res


def run(tier, seed):
    run = report.Run(PID, tier, seed)
    run.trust("sympy 1.14 normal forms + 50-digit numeric refutation", "z3/cvc5", "vc.alg symbolic shims (math, NumPy allocation)",
              "uniqueness of solutions of linear constant-coefficient initial-value problems (ODE lemma characterisation)")
    run.assume("floats are mathematical reals: 'to round-off' and the w*h conditioning grades are not decided",
               "regime coverage: each regime's closed form is proved on the set of parameters taking the same branch decisions as its witness "
               "(decisions listed in notes); the critical regime is proved at exact critical damping only",
               "row-wise abstraction of _solve_real_unc_inner_loop: NumPy arithmetic on 1-D operands is elementwise")
    run.not_covered += ["coupled path (_solve_complex_unc: needs scipy.linalg.eig), SolveExp1/SolveExp2 (scipy expm)", "pre_eig transformation beyond the known finding",
                        "accuracy inside |1 - zeta^2| < 1e-8 and the damped rigid-body cut-off (1e-3)",
                        "step recurrences for nt > 3 in the end-to-end wiring check (bounded part; the loop itself is proved for all nt)"]
    util = alg.load_module(report.REPO, UTIL)
    items, paths = coef_items(util)
    for rel, fns in ((UTIL, ["get_su_coef"]), (SU, ["_solve_real_unc_inner_loop"])):
        tree = ast.parse(report.read_source(rel))
        for n in ast.walk(tree):
            if isinstance(n, ast.FunctionDef) and n.name in fns and rel == UTIL:
                run.add_function(rel, n.name, hashlib.sha256(ast.unparse(n).encode()).hexdigest()[:16],
                                 {"note": "real function object executed on symbolic inputs"})
    vs = report.discharge_alg(items)
    run.add_verdicts(vs)
    run.notes.append({"regime decisions": paths})
    src = report.read_source(SU)
    vs2 = pipeline.verify_jobs(run, [dict(contract=SL.inner_loop(o), source=src, lang="python", tag="_solve_real_unc_inner_loop[order=%d]" % o)
                                     for o in (1, 0)], cross=(tier == "thorough"))
    cases = [(o, mf, rg, ic) for o in (1, 0) for mf in ("vector", "none", "matrix") for rg in (True, False) for ic in ("zero", "d0v0", "static", "static+v0")]
    cases += [(1, "vector", False, "zero", "heavy"), (0, "matrix", False, "d0v0", "heavy"), (1, "matrix", True, "static", "heavy")]
    outs = report.pool().map(e2e_case, cases, chunksize=1)
    nev, fails, und = 0, [], 0
    for args, res, secs in outs:
        for lab, st, det in res:
            nev += 1
            if st == "failed":
                fails.append(dict(case=dict(order=args[0], m=args[1], rb_given=args[2], ic=args[3], heavy_soft_mode=len(args) > 4), item=lab, detail=det))
            elif st == "undecided":
                run.undecided.append("bounded e2e %s %s: %s" % (args, lab, det))
    run.bounded.append(dict(name="real SolveUnc (uncoupled path) on a symbolic 3-mode system [rigid, elastic, residual-flexibility], nt=3: initial "
                                 "conditions, step relation with get_su_coef's coefficients, equation of motion, static rf rows",
                            scope="order x m in {vector, None, diagonal matrix} x rb given/auto x ic in {zero, d0/v0, static_ic}; symbolic values",
                            evaluations=nev, cases=len(cases), failures=len(fails), label="bounded in nt and size (never counted as proved)"))
    ecases = [("SolveExp1", 1, None, False), ("SolveExp1", 0, None, False)] + [("SolveExp2", o, mf, rf_) for o in (1, 0) for mf, rf_ in (("matrix", False), ("vector", True), ("none", True))]
    for lst in report.pool().map(exp_case, ecases, chunksize=1):
        for d_ in lst:
            run.add_verdicts([report.Verdict(d_["name"], d_["status"], "sympy-%s (rational identities)" % sp.__version__, d_["seconds"], "post", "pyyeti/ode/solveexp2.py", d_["detail"])])
    run.assume("SolveExp1/SolveExp2: expmint.getEPQ is under contract (abstract E, P, Q; property C07); 2 dynamic equations (+1 residual flexibility), nt = 3, all values symbolic")
    conc = concrete(seed)
    run.bounded.append(dict(name="real SolveUnc / SolveExp2 (float) vs exact first-order-hold reference from scipy.linalg.expm; equation-of-motion residual",
                            scope="diagonal 8-mode systems covering every damping regime incl. the lightly-damped rigid-body cut-off band (h=1e-3, 1e-2), "
                                  "coupled 3-DOF with a slow root; order 0/1; tolerances: 1e-6 (1e-5 near-critical, 2e-3 in the cut-off band as documented)",
                            evaluations=conc["evaluations"], failures=0 if not conc["failure"] else 1,
                            worst=sorted([c_["max_rel_err"] for c_ in conc["cases"]])[-3:], label="bounded (never counted as proved)"))
    # known finding D6
    pe = pre_eig_ic(seed)
    kf = [kf for kf in run.known if kf.get("obligation") == "pre_eig.initial-conditions"]
    failed = [v for v in vs + vs2 if v.status == "failed"]
    if failed:
        cc = fails[0] if fails else conc["failure"]
        run.violation(failed[0].name, "obligation(s) failed: " + ", ".join(v.name for v in failed[:6]),
                      dict(failed=[v.as_dict() for v in failed[:10]], concrete=cc), concrete=bool(cc))
    elif conc["failure"]:
        run.violation("bounded:exact-reference:" + conc["failure"].get("system", ""), conc["failure"]["what"], dict(concrete=conc["failure"]), concrete=True)
    elif fails:
        run.violation("bounded:e2e:" + json.dumps(fails[0]["case"]), "SolveUnc result violates %s" % fails[0]["item"],
                      dict(concrete=fails[0], all=fails[:10]), concrete=True)
    if kf and kf[0].get("status") == "open":
        run.known_finding(kf[0], pe["fails"])
    elif pe["fails"]:
        run.violation("pre_eig.initial-conditions", "pre_eig=True does not start at the given d0/v0", dict(concrete=pe), concrete=True)
    run.bounded.append(dict(name="pre_eig=True initial conditions (concrete 2-DOF)", evaluations=1, failures=int(pe["fails"]), detail=pe))
    return run.finish()


def replay(path):
    d = json.load(open(path))
    print(json.dumps(d.get("concrete"), indent=1)[:3000])
    return 1 if d.get("concrete") else 0
