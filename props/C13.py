"""C13 - Bulk-data writers and their readers are mutual inverses (DESIGN.md section C13)."""
import ast, hashlib, io, itertools, json, os, sys, time
import numpy as np
import z3
from vc import report, dse, alg, pipeline
from vc.dse import I
from vc.symex import Contract

PID = "C13"
BULK = "pyyeti/nastran/bulk.py"
TOK = "§"


def V(name, st, det=None):
    return report.Verdict(name, st, "z3-" + z3.get_version_string(), 0.0, "post", BULK, det or {})


# ----------------------------------------------------------------------------------------------------------------
# the card grammars (Nastran Quick Reference Guide), written here independently of pyYeti's readers
def parse_fixed(text, header_fields):
    """small-field cards: 8-character fields, continuation lines start with a blank or '+' first field.
    -> list of cards, each a list of data items after the `header_fields` leading fields; items are
       ('tok', k) | ('thru',) | ('blank',) ;  raises ValueError on any layout violation"""
    cards, cur = [], None
    for ln, line in enumerate(text.split("\n")):
        if line == "":
            continue
        if len(line) > 80:
            raise ValueError("line %d longer than 80 columns" % ln)
        flds = [line[i:i + 8] for i in range(0, len(line), 8)]
        if len(flds) > 10:
            raise ValueError("more than 10 fields on line %d" % ln)
        first = flds[0]
        cont = first.strip() in ("", "+") or first.startswith("+")
        if not cont:
            cur = dict(name=first.strip(), header=flds[1:1 + header_fields], items=[], lines=1)
            cards.append(cur)
            data = flds[1 + header_fields:9]
        else:
            if cur is None:
                raise ValueError("continuation without a card")
            cur["lines"] += 1
            data = flds[1:9]
        for fd in data:
            cur["items"].append(classify(fd, 8, ln))
        # a THRU triple may not straddle a line
        its = [classify(fd, 8, ln) for fd in data]
        for i, it in enumerate(its):
            if it == ("thru",) and (i == 0 or i == len(its) - 1 or its[i - 1][0] != "tok" or its[i + 1][0] != "tok"):
                raise ValueError("THRU without both ends on line %d" % ln)
    return cards


def classify(fd, width, ln):
    s = fd.strip()
    if s == "":
        return ("blank",)
    if s == "THRU":
        return ("thru",)
    if len(fd) == width and fd[0] == TOK and fd[-1] == TOK and fd[1:-1].isdigit():
        return ("tok", int(fd[1:-1]))
    if s.lstrip("-").isdigit():
        return ("int", int(s))
    raise ValueError("field %r on line %d is not an integer field of width %d" % (fd, ln, width))


def parse_set(text):
    """case-control SET:  SET n = item {, item}  with item = i | i THRU j ; physical lines are simply joined"""
    body = " ".join(text.split("\n"))
    head, _, rest = body.partition("=")
    if not head.strip().upper().startswith("SET"):
        raise ValueError("not a SET card")
    items = []
    for part in rest.split(","):
        w = part.split()
        if len(w) == 1:
            items.append(("tok", tokid(w[0])))
        elif len(w) == 3 and w[1].upper() == "THRU":
            items += [("tok", tokid(w[0])), ("thru",), ("tok", tokid(w[2]))]
        else:
            raise ValueError("bad SET item %r" % part)
    return items


def tokid(s):
    if s[0] == TOK and s[-1] == TOK and s[1:-1].isdigit():
        return int(s[1:-1])
    raise ValueError("not a token: %r" % s)


def expansion_obligations(items, toks, ids, pc):
    """the expansion of the written items (single -> [a]; a THRU b -> a..b) is exactly `ids`.  -> list of (label, status, detail)"""
    out, p, n = [], 0, len(ids)
    i = 0
    items = [it for it in items if it != ("blank",)]
    while i < len(items):
        it = items[i]
        if it[0] != "tok":
            return out + [("well-formed item sequence", "failed", {"item": str(it)})]
        a = toks[it[1]].v
        if i + 1 < len(items) and items[i + 1] == ("thru",):
            if i + 2 >= len(items) or items[i + 2][0] != "tok":
                return out + [("THRU has both ends", "failed", {})]
            b = toks[items[i + 2][1]].v
            m = None
            for cand in range(2, n - p + 1):
                st, _ = dse.check(pc, b - a + 1 == cand)
                if st == "proved":
                    m = cand
                    break
            if m is None:
                return out + [("a THRU b covers a determinate number of ids (b - a + 1 in 2..remaining)", "failed", {"at": p})]
            g = z3.And(*[ids[p + j].v == a + j for j in range(m)])
            st, det = dse.check(pc, g)
            out.append(("ids[%d:%d] == a..b of the THRU item" % (p, p + m), st, det))
            p += m
            i += 3
        else:
            if p >= n:
                return out + [("no more items than ids", "failed", {})]
            st, det = dse.check(pc, ids[p].v == a)
            out.append(("ids[%d] == written single" % p, st, det))
            p += 1
            i += 1
    out.append(("every id written exactly once (count)", "proved" if p == n else "failed", {"written": p, "ids": n}))
    return out


def writer_case(args):
    kind, n, extra = args
    bulk = alg.load_module(report.REPO, BULK)
    ids = [I(z3.Int("id%d" % k)) for k in range(n)]
    pre = [ids[0].v >= 1] + [ids[k].v < ids[k + 1].v for k in range(n - 1)] + [ids[-1].v < 90000000]
    sorted_ok = kind != "wtnasints"
    if not sorted_ok:
        pre = [z3.And(x.v >= 0, x.v < 90000000) for x in ids]
    res, npth = [], 0
    ex = dse.Explorer(max_paths=5000)

    def body():
        dse.TOKENS.clear()
        f = io.StringIO()
        if kind == "wtset":
            bulk.wtset(f, 100, list(ids))
        elif kind == "wtspoints":
            bulk.wtspoints(f, list(ids))
        elif kind == "wtxset1":
            bulk.wtxset1(f, 123456, list(ids), "BSET1")
        elif kind == "wtseset":
            bulk.wtseset(f, 100, list(ids))
        elif kind == "wtcsuper":
            bulk.wtcsuper(f, 100, list(ids))
        elif kind == "wtnasints":
            f.write("X" * (8 * (extra - 1)))
            bulk.wtnasints(f, extra, list(ids))
        return f.getvalue(), list(dse.TOKENS)

    def _paths():
        try:
            yield from ex.explore(body, assumptions=pre)
        except RuntimeError as ex_:          # path budget: a tool limit, reported as undecided (never as a crash or a violation)
            res.append(("%s[n=%d]::all paths explored" % (kind, n), "undecided", {"reason": str(ex_)}))
    for pc, val, exc in _paths():
        npth += 1
        nm = "%s[n=%d%s]::path%d" % (kind, n, ",start=%d" % extra if kind == "wtnasints" else "", npth)
        if exc is not None:
            res.append((nm + (".no exception" if dse.genuine_exception(exc) else ".symbolic execution"),
                        "failed" if dse.genuine_exception(exc) else "undecided", {"exception": repr(exc)}))
            continue
        text, toks = val
        try:
            if kind == "wtset":
                items = parse_set(text)
                lines = text.split("\n")
                res.append((nm + ".every physical line <= 72 columns", "proved" if all(len(l) <= 72 for l in lines) else "failed", {"lines": lines}))
            else:
                hdr = {"wtspoints": 0, "wtxset1": 1, "wtseset": 1, "wtcsuper": 2}.get(kind, (extra or 2) - 2)
                cards = parse_fixed(text, hdr)
                items = [it for c in cards for it in c["items"]]
                if kind in ("wtspoints", "wtxset1", "wtseset"):
                    res.append((nm + ".every card repeats its header and has <= 8 data fields per line", "proved", {"cards": len(cards)}))
                if kind in ("wtcsuper", "wtnasints"):
                    if any(it == ("thru",) for it in items):
                        raise ValueError("THRU in a plain integer list")
        except ValueError as pe:
            res.append((nm + ".output follows the card grammar", "failed", {"text": text, "error": str(pe)}))
            continue
        res.append((nm + ".output follows the card grammar", "proved", {}))
        for lab, st, det in expansion_obligations(items, toks, ids, pc):
            res.append((nm + "." + lab, st if st in ("proved", "failed") else "undecided", det if isinstance(det, dict) else {"model": det} if det else {}))
    return args, npth, res


def find_sequence_contract():
    c = Contract(BULK, "_find_sequence", floats="real")
    c.types(seq="ilist", start="int")
    c.raises("ValueError", "start < 0 or start >= len(seq)")
    c.loop("0", invariant=["start + 1 <= i", "i <= length", "length == len(seq)", "current_val == seq[i - 1]",
                           "forall(t, start, i, seq[t] == seq[start] + (t - start))"], decreases="length - i")
    c.ensures("start <= result", "result < len(seq)",
              "forall(t, start, result + 1, seq[t] == seq[start] + (t - start))",
              "result == len(seq) - 1 or seq[result + 1] != seq[result] + 1")
    return c


# ----------------------------------------------------------------------------------------------------------------
def concrete_roundtrips(repo, seed, n):
    """bounded: real writer -> real reader on generated data (the reader side and the string rendering are not under contract)"""
    import pandas as pd
    nas = alg.load_module(repo, "pyyeti/nastran/__init__.py") if False else None
    sys.path.insert(0, repo)
    from pyyeti import nastran
    assert os.path.abspath(nastran.__file__).startswith(os.path.abspath(repo))
    rng = np.random.RandomState(seed)
    ev = 0

    def idlist(maxn=30):
        out, cur = [], int(rng.randint(1, 50))
        for _ in range(rng.randint(1, maxn)):
            out.append(cur)
            cur += 1 if rng.rand() < 0.55 else int(rng.randint(2, 2000))
        return out

    for it in range(n):
        ids = idlist()
        f = io.StringIO(); nastran.wtset(f, 7, ids); f.seek(0); ev += 1
        got = nastran.rdsets(f)
        if list(got.get(7, [])) != ids:
            return ev, dict(pair="wtset/rdsets", ids=ids, got=list(got.get(7, [])), text=f.getvalue())
        f = io.StringIO(); nastran.wtspoints(f, ids); f.seek(0); ev += 1
        got = nastran.rdspoints(f)
        if list(got) != ids:
            return ev, dict(pair="wtspoints/rdspoints", ids=ids, got=list(got))
        f = io.StringIO(); nastran.wtcsuper(f, 100, ids); f.seek(0); ev += 1
        got = nastran.rdcsupers(f)
        if list(got[100]) != [100, 0] + ids:
            return ev, dict(pair="wtcsuper/rdcsupers", ids=ids, got=list(got[100]))
        dofs = [int(rng.choice([0, 123456, 123, 246, 1])) for _ in ids]
        f = io.StringIO(); nastran.wtextrn(f, ids, dofs); f.seek(0); ev += 1
        got = nastran.rdextrn(f, expand=False)
        if got.tolist() != [[a, b] for a, b in zip(ids, dofs)]:
            return ev, dict(pair="wtextrn/rdextrn", ids=ids, dofs=dofs, got=got.tolist())
        # tables of every length 1..12, both field widths
        npts = 1 + it % 12
        t = np.cumsum(rng.rand(npts)) * 10 ** rng.randint(-3, 4)
        d = rng.randn(npts) * 10 ** rng.randint(-5, 6)
        for form in ("{:16.9E}{:16.9E}", "{:8.2E}{:8.1E}"):
            f = io.StringIO(); ev += 1
            try:
                nastran.wttabled1(f, 10, t, d, form=form); f.seek(0)
                tab = nastran.rdtabled1(f)[10]
            except Exception as ex:
                return ev, dict(pair="wttabled1/rdtabled1", npts=npts, form=form, what="exception %r" % (ex,), t=t.tolist(), d=d.tolist())
            tol = 1e-8 if "16" in form else 0.06
            if tab.shape != (npts, 2) or not (np.allclose(tab[:, 0], t, rtol=tol, atol=0) and np.allclose(tab[:, 1], d, rtol=tol, atol=0)):
                return ev, dict(pair="wttabled1/rdtabled1", npts=npts, form=form, t=t.tolist(), d=d.tolist(), got=tab.tolist())
        # the same cards laid out with tabs (a tab moves to the next 8-column boundary - an equivalent physical layout of the same fixed-field card): the writer's
        # text is re-laid mechanically (runs of blanks ending on an 8-column boundary -> tabs) on first lines only / continuation lines only / all lines
        if it % 4 == 0:
            def retab(text, which):
                out = []
                for ln in text.split("\n"):
                    first = bool(ln[:1].strip()) and not ln.startswith(("+", "*"))
                    if (which == "first" and not first) or (which == "cont" and first):
                        out.append(ln); continue
                    new, i = "", 0
                    while i < len(ln):
                        if ln[i] == " ":
                            j = i
                            while j < len(ln) and ln[j] == " ":
                                j += 1
                            b8 = (j // 8) * 8
                            if j < len(ln) and b8 > i:          # blanks from i up to the boundary b8 become tabs, the rest stays
                                new += "\t" * (b8 // 8 - i // 8) + " " * (j - b8)
                            else:
                                new += ln[i:j]
                            i = j
                        else:
                            new += ln[i]; i += 1
                    out.append(new if new.expandtabs() == ln else ln)
                return "\n".join(out)

            def same_(a_, b_):
                if isinstance(a_, dict):
                    return isinstance(b_, dict) and list(a_) == list(b_) and all(same_(a_[k_], b_[k_]) for k_ in a_)
                if isinstance(a_, (list, tuple)) and not isinstance(b_, np.ndarray):
                    return len(a_) == len(b_) and all(same_(x_, y_) for x_, y_ in zip(a_, b_))
                if isinstance(a_, pd.DataFrame):
                    return isinstance(b_, pd.DataFrame) and a_.shape == b_.shape and list(a_.index) == list(b_.index) and list(a_.columns) == list(b_.columns) and np.array_equal(a_.values, b_.values)
                try:
                    return np.array_equal(np.asarray(a_), np.asarray(b_), equal_nan=True)
                except TypeError:
                    return np.array_equal(np.asarray(a_), np.asarray(b_))
            ng_ = 3
            xyz_ = np.round(rng.randn(ng_, 3) * 10, 3)
            Ms = rng.randn(3, 3); Ms = Ms + Ms.T
            ri_ = pd.MultiIndex.from_tuples([(11, 1), (11, 3), (12, 2)], names=["id", "dof"])
            pairs = [("wtcsuper/rdcsupers", lambda f_: nastran.wtcsuper(f_, 100, ids), nastran.rdcsupers),
                     ("wtextrn/rdextrn", lambda f_: nastran.wtextrn(f_, ids, dofs), lambda f_: nastran.rdextrn(f_, expand=False)),
                     ("wttabled1/rdtabled1 (16)", lambda f_: nastran.wttabled1(f_, 10, t, d, form="{:16.9E}{:16.9E}"), nastran.rdtabled1),
                     ("wttabled1/rdtabled1 (8)", lambda f_: nastran.wttabled1(f_, 10, t, d, form="{:8.2E}{:8.1E}"), nastran.rdtabled1),
                     ("wtgrids/rdgrids (8)", lambda f_: nastran.wtgrids(f_, [5, 6, 7], 3, xyz_, 4, 123, 2, "{:8.3f}"), nastran.rdgrids),
                     ("wtgrids/rdgrids (16)", lambda f_: nastran.wtgrids(f_, [5, 6, 7], 3, xyz_, 4, 123, 2, "{:16.8f}"), nastran.rdgrids),
                     ("wtspoints/rdspoints", lambda f_: nastran.wtspoints(f_, ids), nastran.rdspoints),
                     ("wtdmig/rddmig", lambda f_: nastran.wtdmig(f_, {"KAA": pd.DataFrame(Ms, index=ri_, columns=ri_)}), nastran.rddmig)]
            for pname, wr_, rd_ in pairs:
                f = io.StringIO(); wr_(f); text0 = f.getvalue()
                base_ = rd_(io.StringIO(text0))
                for which in ("first", "cont", "all"):
                    t2 = retab(text0, which)
                    if t2 == text0:
                        continue
                    ev += 1
                    try:
                        got_ = rd_(io.StringIO(t2))
                        ok_ = same_(base_, got_)
                    except Exception as ex:
                        ok_, got_ = False, "exception %r" % (ex,)
                    if not ok_:
                        return ev, dict(pair=pname, what="the same cards laid out with tabs on %s lines are read differently" % {"first": "the first", "cont": "the continuation", "all": "all"}[which],
                                        text=t2[:600])
        # grids
        ng = rng.randint(1, 5)
        gids = sorted(rng.choice(np.arange(1, 9999), ng, replace=False).tolist())
        xyz = rng.randn(ng, 3) * 10 ** rng.randint(-2, 4)
        f = io.StringIO(); nastran.wtgrids(f, gids, 0, xyz, 0); f.seek(0); ev += 1
        g = nastran.rdgrids(f)
        if g is None or g[:, 0].tolist() != [float(x) for x in gids] or not np.allclose(g[:, 2:5], xyz, rtol=1e-6, atol=1e-7):
            return ev, dict(pair="wtgrids/rdgrids", ids=gids, xyz=xyz.tolist(), got=None if g is None else g.tolist())
        # USET -> bulk (CORD2* + GRID) -> USET, through a chain of cylindrical / spherical / rectangular systems; CORD2x cards alone
        if it % 3 == 0:
            from pyyeti.nastran import n2p
            cyl = np.array([[10, 2, 0], [1.0, 2.0, 0.5], [1.3, 2.8, 1.9], [2.5, 2.2, 0.1]]) + np.vstack((np.zeros(3), rng.randn(3, 3) * 0.2))
            sph = np.array([[20, 3, 10], [2.0, 35.0, 1.0], [2.5, 80.0, 2.0], [3.0, 120.0, -0.5]])
            rec = np.array([[30, 1, 20], [1.5, 40.0, 60.0], [2.5, 70.0, 100.0], [2.0, 110.0, 200.0]])
            cref = {}
            uu = None
            gid0 = 1000
            pts = []
            for cs_, nloc in ((0, 2), (cyl, 2), (sph, 2), (rec, 1)):
                for q in range(nloc):
                    gid0 += 1
                    a = rng.randn(3) * 2 if np.size(cs_) == 1 or cs_[0, 1] == 1 else np.array([rng.uniform(0.5, 3), rng.uniform(10, 170), rng.uniform(-170, 170)])
                    uu = n2p.addgrid(uu, gid0, "b", cs_, a, cs_ if q == 0 else 0, cref)
            f = io.StringIO()
            try:
                nastran.uset2bulk(f, uu); f.seek(0); ev += 1
                uu2 = nastran.bulk2uset(f)[0]
            except Exception as ex:
                return ev, dict(pair="uset2bulk/bulk2uset", what="exception %r" % (ex,))
            ok = uu2.shape == uu.shape and list(uu2.index) == list(uu.index) and np.allclose(uu2.values[:, 1:].astype(float), uu.values[:, 1:].astype(float), rtol=1e-6, atol=1e-6)
            if not ok:
                return ev, dict(pair="uset2bulk/bulk2uset", what="USET table written to bulk and read back differs (ids, locations, coordinate systems)",
                                max_diff=float(abs(uu2.values[:, 1:].astype(float) - uu.values[:, 1:].astype(float)).max()) if uu2.shape == uu.shape else None)
            # the same table with scalar points before / between / after the grids: the grids are written and recovered exactly as without them
            spq = n2p.make_uset([[7, 0]], n2p.mkusetmask("q"))
            spq2 = n2p.make_uset([[990001, 0]], n2p.mkusetmask("q"))
            for where_, tab_ in (("before", pd.concat([spq, uu])), ("between", pd.concat([uu.iloc[:12], spq2, uu.iloc[12:]])), ("after", pd.concat([uu, spq2])),
                                 ("before and after", pd.concat([spq, uu, spq2]))):
                f = io.StringIO(); ev += 1
                try:
                    nastran.uset2bulk(f, tab_); f.seek(0)
                    uu3 = nastran.bulk2uset(f)[0]
                except Exception as ex:
                    return ev, dict(pair="uset2bulk/bulk2uset", what="exception %r with a scalar point %s the grids" % (ex, where_))
                g3 = uu3[uu3.index.get_level_values(1) > 0]
                ok = g3.shape == uu.shape and list(g3.index) == list(uu.index) and np.allclose(g3.values[:, 1:].astype(float), uu.values[:, 1:].astype(float), rtol=1e-6, atol=1e-6)
                if not ok:
                    return ev, dict(pair="uset2bulk/bulk2uset", what="with a scalar point %s the grids in the USET table, the grids written to bulk and read back differ" % where_)
            ci = n2p.mkcordcardinfo(uu)
            f = io.StringIO()
            nastran.wtcoordcards(f, ci); f.seek(0); ev += 1
            cr2 = nastran.rdcord2cards(f)          # returns the resolved systems {id: 5x3 coordinate info}
            for cid in (10, 20, 30):
                if cid not in cr2 or not np.allclose(np.asarray(cr2[cid], float), np.asarray(cref[cid], float), rtol=1e-6, atol=1e-6):
                    return ev, dict(pair="wtcoordcards/rdcord2cards", what="coordinate system %d written as CORD2 card and read back resolves to a different origin/orientation" % cid)
            # CORD2x cards DEFINED RELATIVE TO ONE ANOTHER (reference id != 0): every field of the cards is what the writer was given
            types_ = [int(x) for x in rng.permutation([1, 2, 3])]
            chain, prev = {}, 0
            for cid_, ty_ in zip((41, 7, 105), types_):
                A_ = rng.randn(3)
                zax = rng.randn(3); zax /= np.linalg.norm(zax)
                xz = rng.randn(3); xz -= zax * (xz @ zax); xz /= np.linalg.norm(xz)
                chain[cid_] = ["CORD2" + "RCS"[ty_ - 1], np.vstack(([cid_, ty_, prev], A_, A_ + 1.5 * zax, A_ + 0.7 * xz + 0.3 * zax))]
                prev = cid_ if rng.rand() < 0.8 else 0
            f = io.StringIO()
            nastran.wtcoordcards(f, chain); ev += 1
            lines_ = [ln for ln in f.getvalue().split("\n") if ln and not ln.startswith("$")]
            fld = lambda ln, k_: ln[8 + 16 * k_: 24 + 16 * k_]
            for q_, (cid_, (nm_, arr_)) in enumerate(chain.items()):
                l1, l2, l3 = lines_[3 * q_: 3 * q_ + 3]
                try:
                    got_ = [l1[:8].strip().rstrip("*"), int(fld(l1, 0)), int(fld(l1, 1))] + [float(fld(l1, 2)), float(fld(l1, 3))] + [float(fld(l2, k_)) for k_ in range(4)] + [float(fld(l3, k_)) for k_ in range(3)]
                except ValueError as ex:
                    return ev, dict(pair="wtcoordcards", what="card of system %d cannot be parsed field by field: %r" % (cid_, ex), text=[l1, l2, l3])
                want_ = [nm_, cid_, int(arr_[0, 2])] + [float(x) for x in arr_[1:].reshape(-1)]
                if got_[:3] != want_[:3] or not np.allclose(got_[3:], want_[3:], rtol=1e-7, atol=1e-12):
                    return ev, dict(pair="wtcoordcards", what="card of system %d: fields (name, CID, RID, A, B, C) differ from what the writer was given" % cid_, got=got_, want=want_)
        # GRID cards whose 8-wide real fields are in the E-less short form that format_float8 / wtcard8 emit ('1.+10', '-4.+12', '5.-11', '1.7-4', '1.25+8'):
        # rdgrids returns the numbers typed in the card (own short-form reader as oracle)
        import re as _re
        shortvals = [1e10, -4e12, 5e-11, 1.7e-4, 1.25e8, -3e-9, 2.5e15, -7e-20, 123456.0, -0.5, 9e9]
        rows_ = []
        lines_ = []
        for g_ in range(3):
            trip = [shortvals[(3 * g_ + j_ + it) % len(shortvals)] for j_ in range(3)]
            flds = [nastran.format_float8(v_) for v_ in trip]
            own = []
            for f_ in flds:
                t_ = f_.strip()
                m_ = _re.match(r"^([+-]?(?:\d+\.?\d*|\.\d+))([+-]\d+)$", t_)
                own.append(float(m_.group(1) + "e" + m_.group(2)) if m_ else float(t_))
            rows_.append(own)
            lines_.append("GRID    %8d%8s%s%s%s" % (70 + g_, "", flds[0], flds[1], flds[2]))
        f = io.StringIO("\n".join(lines_) + "\n")
        ev += 1
        try:
            gg = np.asarray(nastran.rdgrids(f), float)
        except Exception as ex:          # noqa: BLE001
            return ev, dict(pair="rdgrids", what="exception %r on GRID cards with short-form real fields" % (ex,), text=lines_)
        if gg.shape[0] != 3 or not np.allclose(gg[:, 2:5], np.array(rows_), rtol=1e-12, atol=0):
            return ev, dict(pair="rdgrids", what="GRID cards with E-less short-form reals (as written by format_float8) are not read as the numbers typed", text=lines_,
                            got=gg[:, 2:5].tolist() if gg.ndim == 2 else None, want=rows_)
        # GRID option combinations: cp / cd scalar or vector, ps and seid blank or given (all four combinations), small and large field forms
        for cpv in (0, [int(x) for x in rng.randint(0, 50, ng)]):
            for cdv in (0, [int(x) for x in rng.randint(0, 50, ng)]):
                for psv in ("", 123456, 13):
                    for seidv in ("", 7):
                        for form in ("{:16.8f}", "{:8.3f}"):
                            xyz2 = np.round(rng.randn(ng, 3) * 10, 3)
                            f = io.StringIO()
                            nastran.wtgrids(f, gids, cpv, xyz2, cdv, psv, seidv, form); f.seek(0); ev += 1
                            g = nastran.rdgrids(f)
                            want = np.zeros((ng, 8))
                            want[:, 0] = gids; want[:, 1] = cpv; want[:, 2:5] = xyz2; want[:, 5] = cdv
                            want[:, 6] = 0 if psv == "" else psv
                            want[:, 7] = 0 if seidv == "" else seidv
                            if g is None or g.shape != want.shape or not np.allclose(g, want, rtol=1e-6, atol=1e-7):
                                bad = [] if g is None or g.shape != want.shape else [["id", "cp", "x", "y", "z", "cd", "ps", "seid"][c_] for c_ in range(8) if not np.allclose(g[:, c_], want[:, c_], rtol=1e-6, atol=1e-7)]
                                return ev, dict(pair="wtgrids/rdgrids", what="GRID fields not recovered: %s" % bad, cp=str(cpv), cd=str(cdv), ps=str(psv), seid=str(seidv), form=form)
        # DMIG: forms 1 (square), 2 (rectangular), 6 (symmetric) x real / complex, with zeros (skipped terms), partial DOF, spoints
        nr = rng.randint(1, 5)
        rows = [(10 * (k + 1), int(dd)) for k in range(nr) for dd in sorted(rng.choice([1, 2, 3, 4, 5, 6], rng.randint(1, 3), replace=False))]
        rows += [(9000 + k, 0) for k in range(rng.randint(0, 2))]
        nrow = len(rows)
        for form in (6, 1, 2):
            cplx = bool(rng.rand() < 0.35)
            ncol = nrow if form != 2 else rng.randint(1, 4)
            M = rng.randn(nrow, ncol) * (rng.rand(nrow, ncol) < 0.6)
            if cplx:
                M = M + 1j * rng.randn(nrow, ncol) * (rng.rand(nrow, ncol) < 0.6)
            if form == 6:
                M = M + M.T
                if rng.rand() < 0.5:
                    M[0, 0] = 0.0          # zero leading diagonal term (Lagrange-multiplier style matrices)
                    if nrow > 1 and rng.rand() < 0.5:
                        M[0, :] = 0; M[:, 0] = 0; M[-1, 0] = M[0, -1] = 1.5
            ridx = pd.MultiIndex.from_tuples(rows, names=["id", "dof"])
            cidx = ridx if form != 2 else pd.MultiIndex.from_tuples([(k + 1, 0) for k in range(ncol)], names=["id", "dof"])
            df = pd.DataFrame(M, index=ridx, columns=cidx)
            f = io.StringIO(); ev += 1
            try:
                nastran.wtdmig(f, {"KT": df}); f.seek(0)
                back = nastran.rddmig(f)["kt"]
            except Exception as ex:
                return ev, dict(pair="wtdmig/rddmig", form=form, rows=rows, matrix=str(M.tolist()), what="exception %r" % (ex,))
            # zero rows/columns are not written at all (DMIG stores non-zero terms): compare on the written support
            # (symmetric form 6: the index is the union of row and column ids; forms 1/2: rows and columns as written)
            nzr = [r for r in range(nrow) if np.any(M[r] != 0) or (form == 6 and np.any(M[:, r] != 0))]
            nzc = [c for c in range(ncol) if np.any(M[:, c] != 0) or (form == 6 and np.any(M[c] != 0))]
            if not nzr or not nzc:
                continue
            want = df.iloc[nzr, nzc]
            try:
                sub = back.loc[want.index, want.columns]
                ok = sub.shape == want.shape and np.allclose(sub.values, want.values, rtol=1e-8, atol=0) and \
                    np.count_nonzero(back.values) == np.count_nonzero(want.values)
            except Exception as ex:
                ok = False
            if not ok:
                return ev, dict(pair="wtdmig/rddmig", form=form, complex=cplx, rows=rows, matrix=str(np.round(M, 4).tolist()),
                                got_index=[list(map(int, x)) for x in back.index], got=str(np.round(back.values, 4).tolist()))
        # form 9 (columns identified by their number, single-level column index): column numbers contiguous from 1 or with gaps; minimal and expanded reads
        colnums = [[1, 2, 3], [1, 3, 7], [2, 5], [4]][it % 4]
        cplx9 = bool(it % 3 == 0)
        M9 = rng.randn(nrow, len(colnums)) * (rng.rand(nrow, len(colnums)) < 0.7)
        M9[rng.randint(nrow), :] += 1.0                        # no empty column
        M9[M9 == 0] = 0.0
        if cplx9:
            M9 = M9 + 1j * rng.randn(*M9.shape) * (M9 != 0)
        for c_ in range(len(colnums)):
            if not np.any(M9[:, c_]):
                M9[0, c_] = 2.5
        df9 = pd.DataFrame(M9, index=pd.MultiIndex.from_tuples(rows, names=["id", "dof"]), columns=colnums)
        for expanded in (False, True):
            f = io.StringIO(); ev += 1
            try:
                nastran.wtdmig(f, {"K9": df9}); f.seek(0)
                b9 = nastran.rddmig(f, expanded=expanded)["k9"]
                ok9 = True
                for (ri_, di_), rowv in zip(rows, M9):
                    for cn_, val_ in zip(colnums, rowv):
                        got_ = b9.loc[(ri_, di_), cn_] if ((ri_, di_) in b9.index and cn_ in b9.columns) else 0.0
                        ok9 = ok9 and np.isclose(got_, val_, rtol=1e-8, atol=0)
                ok9 = ok9 and np.count_nonzero(b9.values) == np.count_nonzero(M9)
                if expanded:
                    ok9 = ok9 and list(b9.columns) == list(range(1, max(colnums) + 1))
            except Exception as ex:
                return ev, dict(pair="wtdmig/rddmig", form=9, expanded=expanded, columns=colnums, what="exception %r" % (ex,))
            if not ok9:
                return ev, dict(pair="wtdmig/rddmig", form=9, expanded=expanded, columns=colnums, complex=cplx9, what="form-9 matrix not recovered (values by row label and column number)",
                                got_columns=[int(x) for x in b9.columns])
    return ev, None


def run(tier, seed):
    run = report.Run(PID, tier, seed)
    run.trust("z3", "vc.dse (symbolic integers are formatted into fixed-width placeholder tokens; the card grammars in props/C13.py parse them back)",
              "vc.symex VC generator for _find_sequence")
    run.assume("an integer id prints, with '{:8d}' / f'{x:8d}', as exactly 8 characters (ids < 10^8) and with ':d' as its decimal digits; the THRU/wrapping logic "
               "does not depend on the digits (tokens stand for the digits)",
               "Nastran free-field SET and 8-column fixed-field card grammars as transcribed in props/C13.py",
               "list lengths are fixed per configuration; id VALUES are symbolic (every run structure = every path)")
    run.not_covered += ["reader side (rdsets, rdspoints, rdcards, rddmig, ...): regex/str.split/pandas based, only in the bounded write->read round trips",
                        "wtdmig/wtgrids/wtcoordcards/uset2bulk writers deductively (float formatting, pandas)", "SET line wrapping for ids of every digit count"]
    for nd in ast.parse(report.read_source(BULK)).body:
        if isinstance(nd, ast.FunctionDef) and nd.name in ("wtset", "wtspoints", "wtxset1", "wtseset", "wtcsuper", "wtnasints", "_wt_with_thru", "_find_sequence", "wtcard8", "_wrap_text_lines"):
            run.add_function(BULK, nd.name, hashlib.sha256(ast.unparse(nd).encode()).hexdigest()[:16], {"note": "real function object (DSE)" if nd.name != "_find_sequence" else "VC generator"})
    pipeline.verify_jobs(run, [dict(contract=find_sequence_contract(), source=report.read_source(BULK), lang="python")], cross=(tier == "thorough"))
    cases = [("wtset", n, None) for n in range(1, 7)] + [("wtspoints", n, None) for n in (1, 2, 3, 7, 8, 9, 10)] + \
            [("wtxset1", n, None) for n in (1, 4, 7, 8, 9)] + [("wtseset", n, None) for n in (1, 7, 8, 9)] + \
            [("wtcsuper", n, None) for n in (1, 6, 7, 14, 15)] + [("wtnasints", n, s) for s in (2, 4, 9) for n in (1, 10 - s - 1, 10 - s, 10 - s + 1, 10 - s + 8, 10 - s + 9, 25) if n >= 1]
    if tier == "thorough":
        cases += [("wtset", n, None) for n in (7, 8, 9)] + [("wtspoints", n, None) for n in (11, 12)]
    vs = []
    paths = {}
    for args, npth, res in report.pool().map(writer_case, cases, chunksize=1):
        paths[str(args)] = npth
        for name, st, det in res:
            vs.append(V(name, st, det))
        vs.append(V("%s::explored" % (args,), "proved" if npth else "failed", {"paths": npth}))
    run.add_verdicts(vs)
    run.notes.append({"paths per configuration": paths})
    ev, cf = report.guarded(run, concrete_roundtrips, report.REPO, seed, 60 if tier == "quick" else 1500)
    run.bounded.append(dict(name="real write -> real read: SET, SPOINT, CSUPER, EXTRN, TABLED1 (lengths 1..12, both widths), GRID, DMIG (forms 1/2/6, real/complex, "
                                 "zero terms incl. zero leading diagonal, partial DOF, scalar points)", evaluations=ev, failures=0 if cf is None else 1,
                            label="bounded (never counted as proved)"))
    failed = [v for v in run.verdicts if v.status == "failed"]
    if failed:
        run.violation(failed[0].name, "obligation(s) failed: " + ", ".join(v.name for v in failed[:5]),
                      dict(failed=[v.as_dict() for v in failed[:10]], concrete=cf), concrete=cf is not None)
    elif cf is not None:
        run.violation("bounded:" + cf["pair"], "write -> read is not the identity for %s" % cf["pair"], dict(concrete=cf), concrete=True)
    return run.finish()


def replay(path):
    d = json.load(open(path))
    print(json.dumps(d.get("concrete"), indent=1)[:3000])
    return 1 if d.get("concrete") else 0
