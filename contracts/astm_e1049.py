"""ASTM E1049-85 (2005) section 5.4.4 "Rainflow counting", the text the specification blocks in
contracts/rainflow.py are written from (stack pts[0..j] of not-yet-discarded reversals, cycle_index[i] = input
position of pts[i], S = pts[0] the starting point):

 (1) Read next peak or valley. If out of data, go to Step 6.
 (2) If there are less than three points, go to Step 1. Form ranges X and Y using the three
     most recent peaks and valleys that have not been discarded.
 (3) Compare the absolute values of ranges X and Y. (a) If X < Y, go to Step 1. (b) If X >= Y, go to Step 4.
 (4) If range Y contains the starting point S, go to Step 5; otherwise, count range Y as one cycle;
     discard the peak and valley of Y; and go to Step 2.
 (5) Count range Y as one-half cycle; discard the first point (peak or valley) in range Y; move the
     starting point to the second point in range Y; and go to Step 2.
 (6) Count each range that has not been previously counted as one-half cycle.

The blocks read the reversal VALUES from the input (`peaks[offset]`), not from the implementation's work
buffer, and state the discards as what remains on the stack; the row layout [amplitude, mean, count] /
[start, stop] is the documented return format.  X = |pts[j-1]-pts[j]| is the most recent range,
Y = |pts[j-2]-pts[j-1]| the previous one; "Y contains S" <=> Y's first point is stack position 0.
"""
TEXT = __doc__
