"""ASTM E1049-85 (2005) section 5.4.4 "Rainflow counting", rules 1-6, written once as
specification blocks over an explicit stack  pts[0..j]  of not-yet-discarded reversals
(cycle_index[i] = position of pts[i] in the input), S = pts[0] the starting point.

 (1) Read next peak or valley. If out of data, go to Step 6.
 (2) If there are less than three points, go to Step 1. Form ranges X and Y using the three
     most recent peaks and valleys that have not been discarded.
 (3) Compare the absolute values of ranges X and Y. (a) If X < Y, go to Step 1. (b) If X >= Y, go to Step 4.
 (4) If range Y contains the starting point S, go to Step 5; otherwise, count range Y as one cycle;
     discard the peak and valley of Y; and go to Step 2.
 (5) Count range Y as one-half cycle; discard the first point (peak or valley) in range Y; move the
     starting point to the second point in range Y; and go to Step 2.
 (6) Count each range that has not been previously counted as one-half cycle.

The blocks are independent of the code under proof: they read the reversal values from the INPUT
(`peaks[...]` through the offsets), not from the implementation's work buffer, and they state the
discards as what remains on the stack. The table row layout [amplitude, mean, count] and the
offset row [start, stop] are the documented return format.
"""

# Step 1: the next reversal (input position k) is put on the stack of undiscarded points.
STEP1 = """
j = j + 1
pts[j] = peaks[k]
cycle_index[j] = k
"""
STEP1_COUPLING = ["j == j_s",
                  "forall(i, 0, j + 1, pts[i] == pts_s[i] and cycle_index[i] == cycle_index_s[i])"]

# Steps 2-5: one pass of the decision on the three most recent undiscarded points.
#   X = |pts[j-1] - pts[j]|  (most recent range),  Y = |pts[j-2] - pts[j-1]|  (previous range).
STEPS_2_TO_5 = """
a = cycle_index[j - 2]
b = cycle_index[j - 1]
c = cycle_index[j]
Y = abs(peaks[a] - peaks[b])
X = abs(peaks[b] - peaks[c])
if X < Y:
    break                              # 3(a): go to step 1
n = n + 1
rf[n, 0] = abs(peaks[a] - peaks[b]) / 2
rf[n, 1] = (peaks[a] + peaks[b]) / 2
os[n, 0] = a
os[n, 1] = b
if j - 2 == 0:                         # Y contains the starting point S = pts[0]
    rf[n, 2] = 0.5                     # step 5: one-half cycle; discard first point of Y;
    pts[0] = peaks[b]                  #         S moves to the second point of Y
    cycle_index[0] = b
    pts[1] = peaks[c]
    cycle_index[1] = c
    j = 1
else:
    rf[n, 2] = 1.0                     # step 4: one cycle; discard both points of Y
    fullcyclesp1 = fullcyclesp1 + 1
    pts[j - 2] = peaks[c]
    cycle_index[j - 2] = c
    j = j - 2
"""
STEPS_2_TO_5_COUPLING = [
    "j == j_s", "n == n_s", "fullcyclesp1 == fullcyclesp1_s",
    "forall(i, 0, j + 1, pts[i] == pts_s[i] and cycle_index[i] == cycle_index_s[i])",
    "forall(i, 0, n + 1, rf[i, 0] == rf_s[i, 0] and rf[i, 1] == rf_s[i, 1] and rf[i, 2] == rf_s[i, 2]"
    " and os[i, 0] == os_s[i, 0] and os[i, 1] == os_s[i, 1])",
]

# Step 6: every remaining range on the stack is one-half cycle (range k = points k, k+1).
STEP6 = """
a = cycle_index[k]
b = cycle_index[k + 1]
n = n + 1
rf[n, 0] = abs(peaks[a] - peaks[b]) / 2
rf[n, 1] = (peaks[a] + peaks[b]) / 2
rf[n, 2] = 0.5
os[n, 0] = a
os[n, 1] = b
"""
STEP6_COUPLING = [
    "n == n_s",
    "forall(i, 0, n + 1, rf[i, 0] == rf_s[i, 0] and rf[i, 1] == rf_s[i, 1] and rf[i, 2] == rf_s[i, 2]"
    " and os[i, 0] == os_s[i, 0] and os[i, 1] == os_s[i, 1])",
]
