"""Loop contracts of the OUTPUT2 matrix decoder and skipper in pyyeti/nastran/op2.py (property C11), over a ghost file as in contracts/op4_readers.py.

Record grammar of a matrix data block after its name/trailer header (what rdop2nt has consumed), T = 8 + ib bytes per key triplet [4][key:ib][4]:
    column  :=  key-triplet(k > 0) string-record  ...  key-triplet(k <= 0)  key-triplet  key-triplet(dtype)
    string-record := [reclen:4] [irow:ib] (reclen - ib)/bytes_per reals [reclen:4]
    dtype > 0: another column follows; dtype <= 0: the block ends with one more key triplet (read by rdop2eot).
For complex types the matrix is filled as pairs of reals: real row 2*(irow - 1).
The obligations: every read has the size of what is unpacked from it; every string is stored at (row of the record, current column, offset of its values, number of
reals = (reclen - ib) / bytes_per); decoder and skipper consume exactly the same bytes (both end at the offset the grammar defines as the end of the block)."""
import ast
import z3
from vc.symex import Contract, PyObj, Unsupported
from contracts.op4_readers import Tok, Vals, _int

FILE = "pyyeti/nastran/op2.py"
FI = z3.Function("file_int", z3.IntSort(), z3.IntSort())
F4 = z3.Function("file_i4", z3.IntSort(), z3.IntSort())
CEND = z3.Function("column_end", z3.IntSort(), z3.IntSort())          # offset of the key triplet (k <= 0) that ends the strings starting with the triplet at p
WFC = z3.Function("wf_column", z3.IntSort(), z3.BoolSort())           # well-formed strings from the key triplet at p
WFB = z3.Function("wf_block", z3.IntSort(), z3.BoolSort())            # well-formed columns from the first key triplet of a column at p
BEND = z3.Function("block_end", z3.IntSort(), z3.IntSort())           # offset just after the last (dtype) triplet of the block whose column starts at p


def make_env(decode):
    ib = z3.Int("ib")
    T = 8 + ib
    fbytes = z3.Int("fbytes")

    def fmt(kind, size):
        def binop(eng, op, other, left):
            if isinstance(op, ast.Mod) and left:
                return ("fmt%", kind, size, eng.to_int(other))
            raise Unsupported("operation on a format string")
        return PyObj(kind, attrs={"itemsize": size}, binop=binop)

    frm_r, frmu_r = fmt("rfrm", fbytes), fmt("rfrmu", fbytes)
    frm_d, frmu_d = fmt("f8", z3.IntVal(8)), fmt("%dd", z3.IntVal(8))

    def endian_binop(eng, op, other, left):
        if isinstance(op, ast.Add) and left and other == "f8":
            return frm_d
        if isinstance(op, ast.Add) and left and other == "%dd":
            return frmu_d
        raise Unsupported("string built from the byte-order character: %r" % (other,))
    endian = PyObj("endian", binop=endian_binop)

    def unpacker(marker4):
        def call(eng, e, st, spec):
            tok = eng.ev(e.args[0], st)
            if not isinstance(tok, Tok):
                raise Unsupported("unpack of something that is not the result of read")
            eng.oblige(st, tok.n == (z3.IntVal(4) if marker4 else ib), "read-size-matches-struct@L%s" % e.lineno, "assert", e)
            return (F4(tok.p),) if marker4 else (FI(tok.p),)
        return PyObj("unpack", call=call)

    def read(eng, e, st, spec):
        n = _int(eng, e.args[0], st)
        p = st.env["pos__"]
        eng.oblige(st, n >= 0, "read-nonneg@L%s" % e.lineno, "assert", e)
        st.env["pos__"] = p + n
        return Tok(p, n)

    def seek(eng, e, st, spec):
        off = _int(eng, e.args[0], st)
        if len(e.args) < 2 or eng.ev(e.args[1], st) != 1:
            raise Unsupported("seek whence")
        st.env["pos__"] = st.env["pos__"] + off
        return None
    fileobj = PyObj("file", methods={"read": read, "seek": seek})

    def inline(fname):
        """the real accessor `fname` of the class, executed statement by statement on the current state (straight-line methods only)"""
        def call(eng, e, st, spec):
            fn = None
            for nd in ast.walk(eng.tree):
                if isinstance(nd, ast.FunctionDef) and nd.name == fname:
                    fn = nd
            if fn is None:
                raise Unsupported("method %s not found" % fname)
            saved = dict(st.env)
            ret = None
            for s_ in fn.body:
                if isinstance(s_, ast.Expr) and isinstance(s_.value, ast.Constant):
                    continue
                if isinstance(s_, ast.Return):
                    ret = eng.ev(s_.value, st) if s_.value is not None else None
                    break
                outs = eng.exec_stmt(s_, st)
                if len(outs) != 1 or outs[0][0] != "normal":
                    raise Unsupported("method %s is not straight-line" % fname)
                st.env = outs[0][1].env
                st.pc = outs[0][1].pc
            keep = {k: v for k, v in st.env.items() if k.endswith("__")}
            st.env = dict(saved, **keep)
            return ret
        return call

    def rdop2eot(eng, e, st, spec):
        # contract of rdop2eot on a well-formed file: consumes one key triplet
        p = st.env["pos__"]
        st.env["pos__"] = p + T
        return (z3.If(FI(p + 4) == 0, 1, 0), FI(p + 4))

    cutoff = z3.Int("rowsCutoff")
    selfobj = PyObj("OP2", attrs={"_fileh": fileobj, "_Str": PyObj("Struct", attrs={"unpack": unpacker(False)}), "_Str4": PyObj("Struct", attrs={"unpack": unpacker(True)}),
                                  "_ibytes": ib, "_rfrm": frm_r, "_rfrmu": frmu_r, "_fbytes": fbytes, "_endian": endian, "_rowsCutoff": cutoff},
                    methods={"_getkey": inline("_getkey"), "rdop2eot": rdop2eot})

    def struct_unpack(eng, e, st, spec):
        f_ = eng.ev(e.args[0], st)
        tok = eng.ev(e.args[1], st)
        if not (isinstance(f_, tuple) and f_[0] == "fmt%") or not isinstance(tok, Tok):
            raise Unsupported("struct.unpack arguments")
        _, kind, size, cnt = f_
        eng.oblige(st, z3.BoolVal(kind in ("rfrmu", "%dd")), "struct.unpack-uses-a-struct-format@L%s" % e.lineno, "assert", e)
        eng.oblige(st, tok.n == size * cnt, "read-size-matches-format@L%s" % e.lineno, "assert", e)
        eng.oblige(st, size == st.env["bytes_per"], "format-width-is-bytes_per@L%s" % e.lineno, "assert", e)
        eng.oblige(st, cnt >= 0, "count-nonneg@L%s" % e.lineno, "assert", e)
        return Vals(tok.p, cnt)

    def np_fromfile(eng, e, st, spec):
        f = eng.ev(e.args[0], st)
        d = eng.ev(e.args[1], st)
        if f is not fileobj or not isinstance(d, PyObj) or "itemsize" not in d.attrs:
            raise Unsupported("np.fromfile arguments")
        cnt = _int(eng, e.args[2], st)
        eng.oblige(st, z3.BoolVal(d.kind in ("rfrm", "f8")), "np.fromfile-uses-a-dtype-string@L%s" % e.lineno, "assert", e)
        eng.oblige(st, d.attrs["itemsize"] == st.env["bytes_per"], "dtype-width-is-bytes_per@L%s" % e.lineno, "assert", e)
        eng.oblige(st, cnt >= 0, "count-nonneg@L%s" % e.lineno, "assert", e)
        p = st.env["pos__"]
        st.env["pos__"] = p + d.attrs["itemsize"] * cnt
        return Vals(p, cnt)

    def setitem(eng, t, val, st):
        sl = t.slice
        if not (isinstance(sl, ast.Tuple) and len(sl.elts) == 2 and isinstance(sl.elts[0], ast.Slice) and isinstance(val, Vals)):
            raise Unsupported("store into the matrix that is not matrix[r:r+n, col] = values read from the file")
        lo, hi = _int(eng, sl.elts[0].lower, st), _int(eng, sl.elts[0].upper, st)
        col = _int(eng, sl.elts[1], st)
        eng.oblige(st, hi - lo == val.n, "slice-length-equals-values-read@L%s" % t.lineno, "assert", t)
        st.env["put_r__"], st.env["put_c__"], st.env["put_p__"], st.env["put_n__"] = lo, col, val.p, val.n
        st.env["nput__"] = st.env["nput__"] + 1
    matrix = PyObj("matrix", setitem=setitem)
    matrix.attrs["T"] = matrix
    matrix.methods["view"] = lambda eng, e, st, spec: matrix

    def np_zeros(eng, e, st, spec):
        return matrix

    def uf(f):
        return lambda eng, e, st, spec: f(*[eng.to_int(eng.ev(a, st, spec)) for a in e.args])

    def unfold_column(eng, e, st, spec):
        """strings of a column from the key triplet at p"""
        p = eng.to_int(eng.ev(e.args[0], st, True))
        bp = st.env["BP__"]
        q = p + T
        nxt = q + 4 + F4(q) + 4
        more = z3.And(F4(q) >= ib, (F4(q) - ib) % bp == 0, FI(q + 4) >= 1, WFC(nxt), CEND(p) == CEND(nxt))
        return z3.And(z3.Implies(z3.And(WFC(p), FI(p + 4) > 0), more), z3.Implies(z3.And(WFC(p), FI(p + 4) <= 0), CEND(p) == p))

    def unfold_block(eng, e, st, spec):
        """columns of a block from the first key triplet of a column at p"""
        p = eng.to_int(eng.ev(e.args[0], st, True))
        e_ = CEND(p)
        nxt = e_ + 3 * T
        return z3.Implies(WFB(p), z3.And(WFC(p), z3.Implies(FI(e_ + 2 * T + 4) > 0, z3.And(WFB(nxt), BEND(p) == BEND(nxt))),
                                         z3.Implies(FI(e_ + 2 * T + 4) <= 0, BEND(p) == nxt)))

    builtins = {"struct.unpack": struct_unpack, "np.fromfile": np_fromfile, "np.zeros": np_zeros, "FI": uf(FI), "F4": uf(F4), "CEND": uf(CEND), "WFC": uf(WFC), "WFB": uf(WFB),
                "BEND": uf(BEND), "UNFOLD_COLUMN": unfold_column, "UNFOLD_BLOCK": unfold_block}
    return dict(ib=ib, T=T, fbytes=fbytes, selfobj=selfobj, builtins=builtins, cutoff=cutoff)


def matrix_contract(decode):
    env = make_env(decode)
    c = Contract(FILE, "OP2.rdop2matrix" if decode else "OP2.skipop2matrix", floats="real")
    c.objects = True
    c.extra_mods = ("pos__", "put_r__", "put_c__", "put_p__", "put_n__", "nput__")
    c.variant = "decode" if decode else "skip"
    tr = tuple(z3.Int("trailer%d" % i) for i in range(7))
    c.param_types.update({"self": ("const", env["selfobj"])})
    c.types(**{"trailer%d" % i: ("const", tr[i]) for i in range(7)})
    c.types(trailer=("const", tr), ib=("const", env["ib"]), fbytes=("const", env["fbytes"]), P0__="int", BP__="int", rowsCutoff=("const", env["cutoff"]))
    c.ghost("pos__", "int", "P0__")
    c.ghost("CS__", "int", "P0__")           # first key triplet of the current column
    c.ghost("K__", "int", "P0__")            # key triplet the inner loop stands behind
    c.ghost("COLN__", "int", "0")
    for g in ("put_r__", "put_c__", "put_p__", "put_n__", "nput__"):
        c.ghost(g, "int", "0")
    # BP__ = bytes per real of the block: single precision types use the file's real width, double precision 8 (the grammar's value width)
    c.requires("ib == 4 or ib == 8", "fbytes == ib", "rowsCutoff >= 0", "trailer4 >= 1", "trailer4 <= 4", "trailer2 >= 0", "trailer1 >= 0",
               "BP__ == ite(trailer4 == 1 or trailer4 == 3, fbytes, 8)", "WFB(P0__)")
    T = "(8 + ib)"
    outer = ["pos__ == CS__", "implies(dtype > 0, WFB(CS__) and BEND(CS__) == BEND(P0__))", "implies(dtype <= 0, pos__ == BEND(P0__))"]
    inner = ["pos__ == K__ + %s" % T, "key == FI(K__ + 4)", "WFC(K__)", "CEND(K__) == CEND(CS__)", "WFB(CS__)", "BEND(CS__) == BEND(P0__)"]
    if decode:
        outer += ["col == COLN__", "bytes_per == BP__", "intsize == ib", "mtype == trailer4"]
        inner += ["col == COLN__", "bytes_per == BP__", "intsize == ib", "mtype == trailer4"]
    c.loop("0", invariant=outer, unfold=["UNFOLD_BLOCK(CS__)", "UNFOLD_COLUMN(CS__)"])
    c.loop("0.0", invariant=inner, unfold=["UNFOLD_COLUMN(K__)", "UNFOLD_BLOCK(CS__)"])
    c.after_stmt("key = self._getkey()", ["K__ = pos__ - %s" % T], occurrence=0)
    if decode:
        # every string record is stored where the grammar says
        c.after_stmt("self._fileh.read(4)", ["assert put_r__ == (FI(K__ + %s + 4) - 1) * ite(trailer4 > 2, 2, 1)" % T, "assert put_c__ == COLN__",
                                             "assert put_p__ == K__ + %s + 4 + ib" % T, "assert put_n__ == (F4(K__ + %s) - ib) // BP__" % T,
                                             "assert pos__ == K__ + %s + 4 + F4(K__ + %s) + 4" % (T, T)], occurrence=0)
    else:
        c.after_stmt("self._fileh.read(4)", ["assert pos__ == K__ + %s + 4 + F4(K__ + %s) + 4" % (T, T)], occurrence=0)
    c.after_stmt("key = self._getkey()", ["K__ = pos__ - %s" % T], occurrence=1)
    c.after_stmt("dtype = self._getkey()", ["assert pos__ == CEND(CS__) + 3 * %s" % T, "assert dtype == FI(CEND(CS__) + 2 * %s + 4)" % T,
                                            "BENDOLD__ = BEND(CS__)", "CS__ = pos__", "COLN__ = COLN__ + 1"])
    c.ghost("BENDOLD__", "int", "0")
    # on return: one key triplet (rdop2eot) past the end of the block as the grammar defines it - the same offset for the decoder and the skipper
    c.ensures("pos__ == BEND(P0__) + %s" % T)
    return c, env["builtins"]


def jobs(src):
    out = []
    for dec in (True, False):
        c, b = matrix_contract(dec)
        out.append(dict(contract=c, source=src, builtins=b, lang="python", tag="op2.%s[ghost file]" % c.qualname.split(".")[1]))
    return out


# ------------------------------------------------------------------------------------------------------------------
RECEND = z3.Function("record_end", z3.IntSort(), z3.IntSort())     # offset of the key triplet (k <= 0) that ends the parts starting with the triplet at p
WFR = z3.Function("wf_record", z3.IntSort(), z3.BoolSort())


def record_contract(which, form=None, with_n=False):
    """OP2.rdop2record(form, N) / OP2.skipop2record on a (possibly multi-part) logical record:
        record := key-triplet(k > 0) [reclen:4] payload [reclen:4]  ...  key-triplet(k <= 0) key-triplet key-triplet
    every part is appended in order as reclen // bytes_per items (bytes: the raw payload) taken from the part's payload offset; on return the reader stands
    behind the two closing key triplets (the same offset for every form and for the skipper); a first key of 0 returns None right behind that triplet."""
    env = make_env(True)
    ib, T = env["ib"], env["T"]
    so = env["selfobj"]
    b = dict(env["builtins"])

    def fmt(kind, size):
        def binop(eng, op, other, left):
            if isinstance(op, ast.Mod) and left:
                return ("fmt%", kind, size, eng.to_int(other))
            raise Unsupported("operation on a format string")
        o = PyObj(kind, attrs={"itemsize": size}, binop=binop)
        o.methods["replace"] = lambda eng, e, st, spec, o=o: o           # 'i' -> 'u' / 'I' ('q' -> 'Q'): same item size
        return o
    intstr, intstru = fmt("rfrm", ib), fmt("rfrmu", ib)
    f4, f4u, f8, f8u = fmt("rfrm", z3.IntVal(4)), fmt("rfrmu", z3.IntVal(4)), fmt("f8", z3.IntVal(8)), fmt("%dd", z3.IntVal(8))

    def endian_binop(eng, op, other, left):
        table = {"f8": f8, "%dd": f8u, "f4": f4, "%df": f4u}
        if isinstance(op, ast.Add) and left and other in table:
            return table[other]
        raise Unsupported("string built from the byte-order character: %r" % (other,))
    so.attrs.update({"_intstr": intstr, "_intstru": intstru, "_endian": PyObj("endian", binop=endian_binop)})

    def skipkey(eng, e, st, spec):
        n = _int(eng, e.args[0], st)
        st.env["pos__"] = st.env["pos__"] + n * T
        return None
    so.methods["_skipkey"] = skipkey

    def log_part(eng, st, p, n, node):
        st.env["put_p__"], st.env["put_n__"] = p, n
        st.env["nput__"] = st.env["nput__"] + 1

    def lst_factory():
        def append(eng, e, st, spec):
            tok = eng.ev(e.args[0], st)
            if not isinstance(tok, Tok):
                raise Unsupported("append of something not read from the file")
            log_part(eng, st, tok.p, tok.n, e)
        def extend(eng, e, st, spec):
            v = eng.ev(e.args[0], st)
            if not isinstance(v, Vals):
                raise Unsupported("extend with something not read from the file")
            log_part(eng, st, v.p, v.n, e)
        return PyObj("accumulator", methods={"append": append, "extend": extend})

    def setitem(eng, t, val, st):
        sl = t.slice
        if not (isinstance(sl, ast.Slice) and isinstance(val, Vals)):
            raise Unsupported("store into the record array that is not data[i:i+n] = values read from the file")
        lo, hi = _int(eng, sl.lower, st), _int(eng, sl.upper, st)
        eng.oblige(st, hi - lo == val.n, "slice-length-equals-values-read@L%s" % t.lineno, "assert", t)
        eng.oblige(st, lo == st.env["SUM__"], "part-stored-right-after-the-previous-one@L%s" % t.lineno, "assert", t)
        log_part(eng, st, val.p, val.n, t)
    b["np.empty"] = lambda eng, e, st, spec: PyObj("record array", setitem=setitem)
    b["np.array"] = lambda eng, e, st, spec: PyObj("record array")
    b["b''.join"] = lambda eng, e, st, spec: PyObj("bytes")

    def unfold_record(eng, e, st, spec):
        p = eng.to_int(eng.ev(e.args[0], st, True))
        q = p + T
        nxt = q + 4 + F4(q) + 4
        bpf = st.env["BPF__"]            # the caller reads the record in a form whose item size divides every part (precondition on the file / the chosen form)
        return z3.And(z3.Implies(z3.And(WFR(p), FI(p + 4) > 0), z3.And(F4(q) >= 0, F4(q) % bpf == 0, WFR(nxt), RECEND(p) == RECEND(nxt))),
                      z3.Implies(z3.And(WFR(p), FI(p + 4) <= 0), RECEND(p) == p))
    b.update({"WFR": lambda eng, e, st, spec: WFR(*[eng.to_int(eng.ev(a, st, spec)) for a in e.args]),
              "RECEND": lambda eng, e, st, spec: RECEND(*[eng.to_int(eng.ev(a, st, spec)) for a in e.args]), "UNFOLD_RECORD": unfold_record})

    c = Contract(FILE, "OP2.rdop2record" if which == "read" else "OP2.skipop2record", floats="real")
    c.objects = True
    c.list_factory = lst_factory
    c.extra_mods = ("pos__", "put_p__", "put_n__", "nput__")
    c.variant = "%s%s" % (form if which == "read" else "skip", ", N given" if with_n else "")
    c.param_types.update({"self": ("const", so)})
    c.types(ib=("const", ib), P0__="int", rowsCutoff=("const", env["cutoff"]))
    if which == "read":
        c.types(form=("const", form), N=("int" if with_n else ("const", 0)))
        if with_n:
            c.requires("N > 0")
    c.ghost("pos__", "int", "P0__")
    c.ghost("K__", "int", "P0__")
    c.ghost("SUM__", "int", "0")
    c.ghost("BPF__", "int", {None: "ib", "int": "ib", "uint": "ib", "double": "8", "single": "4", "bytes": "1"}[form] if which == "read" else "1")
    for g in ("put_p__", "put_n__", "nput__"):
        c.ghost(g, "int", "0")
    c.requires("ib == 4 or ib == 8", "rowsCutoff >= 0", "WFR(P0__)")
    Ts = "(8 + ib)"
    inv = ["pos__ == K__ + %s" % Ts, "key == FI(K__ + 4)", "WFR(K__)", "RECEND(K__) == RECEND(P0__)"]
    bytes_per = {None: "ib", "int": "ib", "uint": "ib", "double": "8", "single": "4", "bytes": "1"}[form] if which == "read" else None
    if which == "read" and form != "bytes":
        inv += ["bytes_per == %s" % bytes_per]
        if with_n:
            inv += ["i == SUM__"]
    lid = "0" if (which == "skip" or form == "bytes") else ("1" if with_n else "2")      # rdop2record: loop 0 = bytes, 1 = N given, 2 = N unknown
    c.loop(lid, invariant=inv, unfold=["UNFOLD_RECORD(K__)"])
    c.after_stmt("key = self._getkey()", ["K__ = pos__ - %s" % Ts])
    part_ok = ["assert put_p__ == K__ + %s + 4" % Ts]
    if which == "read":
        part_ok.append("assert put_n__ == F4(K__ + %s)%s" % (Ts, "" if form == "bytes" else " // (%s)" % bytes_per))
        part_ok.append("SUM__ = SUM__ + put_n__")
    # the statement that stores / appends a part differs per form; the position check is attached to the read of the closing length marker
    c.closing_marker_hook = part_ok
    return c, b, env


def record_jobs(src):
    """one job per form of rdop2record (the loop taken differs) and one for the skipper; the hook that checks each part is attached to the statement following the store"""
    out = []
    for form, with_n in ((None, False), ("int", True), ("uint", False), ("double", False), ("single", True), ("bytes", False)):
        c, b, env = record_contract("read", form, with_n)
        Ts = "(8 + ib)"
        # the part just stored is checked at the read of the closing length marker (the statement `f.read(4)` present in every loop)
        if form == "bytes":
            c.after_stmt("f.read(4)", c.closing_marker_hook + ["assert pos__ == K__ + %s + 4 + F4(K__ + %s) + 4" % (Ts, Ts)])
        else:
            c.after_stmt("f.read(4)", c.closing_marker_hook + ["assert pos__ == K__ + %s + 4 + (F4(K__ + %s) // (%s)) * (%s) + 4" % (Ts, Ts, "BPF__", "BPF__")])
        # on return behind the two closing triplets; well-formed payloads are whole numbers of items
        c.requires("True")
        c.ensures("pos__ == RECEND(P0__) + 3 * %s or FI(P0__ + 4) == 0 and pos__ == P0__ + %s" % (Ts, Ts))
        out.append(dict(contract=c, source=src, builtins=b, lang="python", tag="op2.rdop2record[form=%s%s, ghost file]" % (form, ", N" if with_n else "")))
    c, b, env = record_contract("skip")
    c.ensures("pos__ == RECEND(P0__) + 3 * (8 + ib)")
    out.append(dict(contract=c, source=src, builtins=b, lang="python", tag="op2.skipop2record[ghost file]"))
    return out


def nt_contract():
    """OP2.rdop2nt (straight-line): consumes exactly the name/trailer header of a data block
         key(2) [len][name][len] key(-1) key(7) [len][trailer: key ints][len] key(-2) key(1) key(0) key(2) [len][name][len] key(-3) key(1) key(rectype)
    returns the trailer words read at their offset and the record type; a first key of 0 (end of file) returns Nones behind that triplet"""
    c, b, env = record_contract("skip")
    c.qualname = "OP2.rdop2nt"
    c.loops.clear(); c.hooks[:] = []; c.ensures_[:] = []; c.requires_[:] = []
    ib, T = env["ib"], env["T"]
    so = env["selfobj"]
    def validname(eng, e, st, spec):
        eng.ev(e.args[0], st)            # the read of the name bytes happens in the argument
        return PyObj("name")
    so.methods["_validname"] = validname
    Ts = "(8 + ib)"
    n1 = "P0__ + %s" % Ts                                   # first name record
    k7 = "%s + 4 + F4(%s) + 4 + %s" % (n1, n1, Ts)          # key triplet holding the trailer length
    tr = "%s + %s" % (k7, Ts)                               # trailer record
    n2 = "%s + 4 + ib * FI(%s + 4) + 4 + 4 * %s" % (tr, k7, Ts)     # second name record
    end = "%s + 4 + F4(%s) + 4 + 3 * %s" % (n2, n2, Ts)
    # well-formed header: non-negative record lengths and trailer word count
    c.requires("ib == 4 or ib == 8", "F4(%s) >= 0" % n1, "FI(%s + 4) >= 0" % k7, "F4(%s) >= 0" % n2)
    c.ensures("FI(P0__ + 4) == 0 and pos__ == P0__ + %s or FI(P0__ + 4) != 0 and pos__ == %s" % (Ts, end))
    c.after_stmt("rec_type = self._getkey()", ["assert rec_type == FI(%s - %s + 4)" % (end, Ts)])
    # the trailer words are read where the grammar puts them
    c.after_stmt("trailer = struct.unpack(frm, self._fileh.read(bytes))", ["assert TR_P__ == %s + 4" % tr, "assert TR_N__ == FI(%s + 4)" % k7])
    c.ghost("TR_P__", "int", "0")
    c.ghost("TR_N__", "int", "0")
    c.extra_mods = ("pos__",)

    def struct_unpack(eng, e, st, spec):
        f_ = eng.ev(e.args[0], st)
        tok = eng.ev(e.args[1], st)
        if not (isinstance(f_, tuple) and f_[0] == "fmt%") or not isinstance(tok, Tok):
            raise Unsupported("struct.unpack arguments")
        _, kind, size, cnt = f_
        eng.oblige(st, tok.n == size * cnt, "read-size-matches-format@L%s" % e.lineno, "assert", e)
        st.env["TR_P__"], st.env["TR_N__"] = tok.p, cnt
        return PyObj("trailer")
    b = dict(b)
    b["struct.unpack"] = struct_unpack
    return c, b


def nt_jobs(src):
    c, b = nt_contract()
    return [dict(contract=c, source=src, builtins=b, lang="python", tag="op2.rdop2nt[ghost file]")]
