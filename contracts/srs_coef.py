"""Contracts for the six ramp-invariant filter-coefficient functions of pyyeti/srs.py (property C03).

Specification (independent of the code): the single-DOF oscillator with base acceleration u(t),
      z'' + 2 zeta wn z' + wn^2 z = -u(t),      zeta = 1/(2Q),      z = relative displacement,
and the response quantity y(t) of each type.  The digital filter (b, a) must reproduce, at the sample
times, the exact response to every input that is linear between samples and starts from rest.  By
linearity and time invariance this holds iff it holds for the triangular "hat" input centred on sample 0,
whose exact response at sample n is   h[n] = ( Y((n+1)T) - 2 Y(nT) + Y((n-1)T) ) / T ,  Y = response to the
unit ramp (zero for negative argument).  Y is obtained here from the ODE itself (particular + homogeneous
solution, constants from the initial conditions by a linear solve) and *checked* by differentiation
(lemma obligations), no integration.  Obligations per function:
      conv(a, h)[k] == b[k]  for k < len(b);   == 0  for the next samples and for a symbolic later time.
"""
import sympy as sp

Q, T, w = sp.symbols("Q dT wn", positive=True)
t = sp.Symbol("t", positive=True)
tau = sp.Symbol("tau", positive=True)
zeta = 1 / (2 * Q)

FUNCS = ["absacce", "relacce", "reldisp", "relvelo", "pvelo", "pacce"]


def ramp_response(wn_zero):
    """z(t) for u(t) = t, z(0) = z'(0) = 0, and the lemma expressions that must vanish"""
    if wn_zero:
        z = -t ** 3 / 6
        lem = [("ode", sp.diff(z, t, 2) + t), ("z(0)", z.subs(t, 0)), ("z'(0)", sp.diff(z, t).subs(t, 0))]
        return z, lem
    wd = w * sp.sqrt(1 - zeta ** 2)
    c1, c2 = sp.symbols("c1 c2")
    zp = -t / w ** 2 + 2 * zeta / w ** 3
    z = zp + sp.exp(-zeta * w * t) * (c1 * sp.cos(wd * t) + c2 * sp.sin(wd * t))
    sol = sp.solve([z.subs(t, 0), sp.diff(z, t).subs(t, 0)], [c1, c2], dict=True)[0]
    z = z.subs(sol)
    lem = [("ode", sp.diff(z, t, 2) + 2 * zeta * w * sp.diff(z, t) + w ** 2 * z + t),
           ("z(0)", z.subs(t, 0)), ("z'(0)", sp.diff(z, t).subs(t, 0))]
    return z, lem


def output(name, z, wn_zero):
    ww = 0 if wn_zero else w
    return {"reldisp": z, "relvelo": sp.diff(z, t), "relacce": sp.diff(z, t, 2),
            "absacce": -(2 * zeta * ww * sp.diff(z, t) + ww ** 2 * z),      # = z'' + u
            "pvelo": ww * z, "pacce": ww ** 2 * z}[name]


def obligations(name, b, a, wn_zero):
    """b, a: lists of sympy expressions returned by the real function.  -> list of (label, expr == 0)"""
    z, lem = ramp_response(wn_zero)
    Y = output(name, z, wn_zero)
    Yat = lambda x: Y.subs(t, x)
    nb, na = len(b), len(a)

    def h(n):
        if n < 0:
            return 0
        r = Yat((n + 1) * T)
        if n >= 1:
            r = r - 2 * Yat(n * T)
        if n >= 2:
            r = r + Yat((n - 1) * T)
        return r / T

    out = [("lemma." + k, e) for k, e in lem]
    out.append(("a[0] == 1", a[0] - 1))
    for k in range(nb + 2):
        conv = sum(a[i] * h(k - i) for i in range(na) if k - i >= 0)
        out.append(("sample%d" % k, conv - (b[k] if k < nb else 0)))
    g = lambda x: (Yat(x + T) - 2 * Yat(x) + Yat(x - T)) / T
    out.append(("tail(symbolic time)", sum(a[i] * g(tau + (na - 1 - i) * T) for i in range(na))))
    return out
