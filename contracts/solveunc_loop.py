"""Contract of pyyeti/ode/solveunc.py::_solve_real_unc_inner_loop (property C01/C08/C17): the documented recurrence at
every sample, for every number of steps (loop invariant, induction).  Row-wise abstraction: the function is elementwise
over the first axis, so it is verified for one generic row `row__` (F, G, ... are that row's coefficients)."""
from vc.symex import Contract

FILE = "pyyeti/ode/solveunc.py"


def inner_loop(order):
    c = Contract(FILE, "_solve_real_unc_inner_loop", floats="real")
    c.rowwise = True
    c.variant = "order == %d" % order
    c.types(order=("const", order), D="farray2", V="farray2", F="float", G="float", A="float", B="float",
            Fp="float", Gp="float", Ap="float", Bp="float", fk="farray2", nt="int")
    c.requires("nt >= 1", "0 <= row__", "row__ < len(D)", "len(V) == len(D)", "len(fk) == len(D)",
               "D.shape[1] == nt", "V.shape[1] == nt", "fk.shape[1] == nt")
    if order == 1:
        step_d = "F * D[row__, s - 1] + G * V[row__, s - 1] + (A * fk[row__, s - 1] + B * fk[row__, s])"
        step_v = "Fp * D[row__, s - 1] + Gp * V[row__, s - 1] + (Ap * fk[row__, s - 1] + Bp * fk[row__, s])"
    else:   # force held constant over the step: A + B multiplies the old force
        step_d = "F * D[row__, s - 1] + G * V[row__, s - 1] + (A + B) * fk[row__, s - 1]"
        step_v = "Fp * D[row__, s - 1] + Gp * V[row__, s - 1] + (Ap + Bp) * fk[row__, s - 1]"
    rec = "forall(s, 1, %%s, D[row__, s] == %s and V[row__, s] == %s)" % (step_d, step_v)
    inv = ["1 <= nx_i", "nx_i <= nt or nt == 1 and nx_i == 1", rec % "nx_i",
           "di == D[row__, nx_i - 1]", "vi == V[row__, nx_i - 1]", "fki == fk[row__, nx_i - 1]",
           "D[row__, 0] == old(D[row__, 0])", "V[row__, 0] == old(V[row__, 0])"]
    c.loop("0", invariant=inv)
    c.loop("1", invariant=inv)
    c.ensures(rec % "nt", "D[row__, 0] == old(D[row__, 0])", "V[row__, 0] == old(V[row__, 0])")
    return c
