"""Contract of pyyeti/ode/_utilities.py::get_su_coef (property C01), per element and per damping regime.

Specification (independent of the code): for  m x'' + b x' + k x = f(t)  over one step of length h with the force
linear in time, f(t) = P0 + (P1 - P0) t/h, the documented update is
      d(h) = F d0 + G v0 + A P0 + B P1 ,      v(h) = Fp d0 + Gp v0 + Ap P0 + Bp P1 .
Characterisation used (ODE lemmas in the variable h, differentiation only, section 3.3 of DESIGN.md):
   F, G   homogeneous solutions with F(0)=1, F'(0)=0, G(0)=0, G'(0)=1 ;  Fp = F', Gp = G'
   J0 := A + B     is the response to the constant unit force : L[J0] = 1,  J0(0)=J0'(0)=0
   J1 := h * B     is the response to the force f(t) = t      : L[J1] = h,  J1(0)=J1'(0)=0
   Ap + Bp = J0' ,   h * Bp = J1'
with L[x] = m x'' + b x' + k x.  By uniqueness of the initial-value problem these pin all eight coefficients.
"""
import sympy as sp

m, b, k, h = sp.symbols("m b k h", positive=True)


def lemmas(co, mm, bb, kk, velocity_only=False):
    """co: dict of sympy expressions F,G,A,B,Fp,Gp,Ap,Bp in the symbol h.  -> list of (label, expr == 0)"""
    L = lambda x: mm * sp.diff(x, h, 2) + bb * sp.diff(x, h) + kk * x
    at0 = lambda x: sp.Limit(x, h, 0, "+")      # evaluated (doit) by the worker that decides the obligation
    d1 = lambda x: sp.diff(x, h)
    F, G, A, B, Fp, Gp, Ap, Bp = [co[n] for n in ("F", "G", "A", "B", "Fp", "Gp", "Ap", "Bp")]
    J0, J1 = A + B, h * B
    out = []
    if not velocity_only:
        out += [("L[F] == 0", L(F)), ("F(0) == 1", at0(F) - 1), ("F'(0) == 0", at0(d1(F))), ("Fp == F'", Fp - d1(F)),
                ("L[G] == 0", L(G)), ("G(0) == 0", at0(G)), ("G'(0) == 1", at0(d1(G)) - 1), ("Gp == G'", Gp - d1(G)),
                ("L[A+B] == 1", L(J0) - 1), ("(A+B)(0) == 0", at0(J0)), ("(A+B)'(0) == 0", at0(d1(J0))),
                ("L[h*B] == h", L(J1) - h), ("(h*B)(0) == 0", at0(J1)), ("(h*B)'(0) == 0", at0(d1(J1))),
                ("Ap + Bp == (A+B)'", Ap + Bp - d1(J0)), ("h*Bp == (h*B)'", h * Bp - d1(J1))]
    else:
        # lightly damped rigid-body mode: only the velocity update uses the damped formulas (documented cut-off);
        # velocity v' = -(b/m) v + f/m :  Gp = exp(-b h/m), (Ap+Bp) and h*Bp are the constant / ramp responses
        Lv = lambda x: mm * sp.diff(x, h) + bb * x
        K0, K1 = Ap + Bp, h * Bp
        out += [("documented cut-off: F == 1 (rigid-body displacement formulas below 10*(1e-10/h)^(1/3))", F - 1),
                ("documented cut-off: G == h", G - h), ("documented cut-off: A == h^2/(3m)", A - h ** 2 / (3 * mm)),
                ("documented cut-off: B == h^2/(6m)", B - h ** 2 / (6 * mm)),
                ("Lv[Gp] == 0", Lv(Gp)), ("Gp(0) == 1", at0(Gp) - 1), ("Fp == 0", Fp),
                ("Lv[Ap+Bp] == 1", Lv(K0) - 1), ("(Ap+Bp)(0) == 0", at0(K0)),
                ("Lv[h*Bp] == h", Lv(K1) - h), ("(h*Bp)(0) == 0", at0(K1))]
    return out


lam = sp.Symbol("lam")


def complex_lemmas(Fe, Ae, Be, lamv):
    """scalar first-order equation  y' = lam y + w(t), w linear over the step:  y(h) = Fe y0 + Ae w0 + Be w1"""
    d1 = lambda x: sp.diff(x, h)
    at0 = lambda x: sp.Limit(x, h, 0, "+")
    J0, J1 = Ae + Be, h * Be
    return [("Fe' == lam Fe", d1(Fe) - lamv * Fe), ("Fe(0) == 1", at0(Fe) - 1),
            ("(Ae+Be)' == lam (Ae+Be) + 1", d1(J0) - lamv * J0 - 1), ("(Ae+Be)(0) == 0", at0(J0)),
            ("(h Be)' == lam (h Be) + h", d1(J1) - lamv * J1 - h), ("(h Be)(0) == 0", at0(J1))]
