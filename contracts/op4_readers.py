"""Loop contracts of the binary OUTPUT4 column readers and of the skipper in pyyeti/nastran/op4.py (properties C11, C04).

The file is GHOST STATE: a byte offset `pos__` and two uninterpreted functions over byte offsets,
    FI(p)  - the integer field (width bi = 4 or 8 bytes) stored at offset p,
    F4(p)  - the 4-byte record-length marker stored at offset p.
Values are not read: a block of `n` reals starting at offset p is the token Vals(p, n).  `fp.read`, `fp.seek`, the struct
unpackers, `struct.unpack` and `np.fromfile` advance / consult this ghost state; every unpack carries the obligation that
exactly the bytes of the struct were read.  `put(X, r, c, Y)` records (r, c, Y.p, Y.n) in ghost variables; a hook after it
compares them with what the FORMAT DEFINITION says the current string is.

Format definition (MSC/NX Nastran OUTPUT4, binary; P = offset of the first byte after the three integers of a column record):
    record:   [len:4] [icol:bi] [irow:bi] [nw:bi] body [len:4]      nw = words of the body, one word = bi bytes
    dense:    body = nw//wper reals for rows irow, irow+1, ...
    bigmat:   body = strings  [L+1:bi] [irow:bi] (L//wper reals)    each using L+2 words of nw
    nonbigmat:body = strings  [irow + 65536*(L+1):bi] (L//wper reals)   each using L+1 words of nw, 1 <= irow <= 65535
    the matrix ends with a record whose icol is ncol+1.
Well-formedness of a file is a recursive predicate (WFS over strings, WFM over records) that is unfolded one step where needed
(ghost ASSUME of the definition - a precondition on the file, not an assumption about the code).  SEND(S, R) is the offset at
which the strings starting at S with R words left end.

What the obligations decide, for every file, every number of columns and strings (induction over both loops):
  * every read has the size of the struct it is unpacked with;
  * the k-th `put` of a column is (row, column, file offset of the values, number of values) of the k-th string of the definition;
  * on return the reader stands right after the header of the record that ended the matrix and returns that record's length
    marker, so that the caller's final read lands on the first byte after the matrix (checked on `_loadop4_binary`'s arithmetic);
  * `_skipop4_binary` stands on the same byte for every cols >= 0.
"""
import ast
import z3
from vc.symex import Contract, PyObj, Unsupported

FILE = "pyyeti/nastran/op4.py"

FI = z3.Function("file_int", z3.IntSort(), z3.IntSort())
F4 = z3.Function("file_i4", z3.IntSort(), z3.IntSort())
SEND = z3.Function("strings_end", z3.IntSort(), z3.IntSort(), z3.IntSort())
WFS = z3.Function("wf_strings", z3.IntSort(), z3.IntSort(), z3.BoolSort())
WFM = z3.Function("wf_matrix", z3.IntSort(), z3.BoolSort())
SROW = z3.Function("string_row", z3.IntSort(), z3.IntSort())        # format definition: first row (1-based) of the string whose header is at S
SLEN = z3.Function("string_words", z3.IntSort(), z3.IntSort())      # format definition: number of value WORDS of that string


def dense_record_def(FI_, F4_, P, bi, wper, br):
    """one-step FORMAT DEFINITION of a dense record whose body starts at byte offset P: (constraints on its integers, the equation for its length marker,
    offset E of the first byte after the body).  Used by the reader contract (on the abstract file FI/F4) and by the writer contract (on the words it wrote)."""
    nw = FI_(P - bi)
    E = P + br * (nw / wper)
    return z3.And(nw >= 0, nw % wper == 0, FI_(P - 2 * bi) >= 1), F4_(P - 3 * bi - 4) == E - (P - 3 * bi), E


def string_header_def(FI_, S, bi, L, row, layout):
    """FORMAT DEFINITION of the header of a string that starts at byte offset S and carries L value words for rows row, row+1, ... (1-based): (constraints, header bytes).
    Shared by the reader contract (abstract file) and the writer contract (words written)."""
    if layout == "bigmat":
        return z3.And(FI_(S) == L + 1, FI_(S + bi) == row), 2 * bi
    return z3.And(FI_(S) == row + 65536 * (L + 1), row <= 65535), bi


class Tok:
    """bytes returned by fp.read: n bytes starting at offset p"""

    def __init__(self, p, n):
        self.p, self.n = p, n


class Vals:
    """n reals starting at byte offset p"""

    def __init__(self, p, n):
        self.p, self.n = p, n


def _int(eng, e, st):
    return eng.to_int(eng.ev(e, st))


def make_env(layout):
    """objects and builtins shared by the reader contracts; `layout` in dense | bigmat | nonbigmat"""
    bi = z3.Int("bi")

    def unpacker(k, marker4=False):
        def call(eng, e, st, spec):
            tok = eng.ev(e.args[0], st)
            if not isinstance(tok, Tok):
                raise Unsupported("unpack of something that is not the result of fp.read")
            size = z3.IntVal(4) if marker4 else k * bi
            eng.oblige(st, tok.n == size, "read-size-matches-struct@L%s" % e.lineno, "assert", e)
            if marker4:
                return (F4(tok.p),)
            return tuple(FI(tok.p + j * bi) for j in range(k))
        return PyObj("unpack%s" % ("4" if marker4 else k), call=call)

    def struct_obj(k, marker4=False):
        return PyObj("Struct", attrs={"unpack": unpacker(k, marker4)})

    def read(eng, e, st, spec):
        n = _int(eng, e.args[0], st)
        p = st.env["pos__"]
        eng.oblige(st, n >= 0, "read-nonneg@L%s" % e.lineno, "assert", e)
        st.env["pos__"] = p + n
        return Tok(p, n)

    def seek(eng, e, st, spec):
        off = _int(eng, e.args[0], st)
        wh = eng.ev(e.args[1], st) if len(e.args) > 1 else 0
        if wh != 1:
            raise Unsupported("seek whence %r" % (wh,))
        st.env["pos__"] = st.env["pos__"] + off
        return None

    fileobj = PyObj("file", methods={"read": read, "seek": seek})

    def getter(fname):
        def call(eng, e, st, spec):
            # the real accessor method: its return expression is evaluated on the contract object `self`
            tree = eng.tree if eng.tree is not None else None
            fn = None
            for nd in ast.walk(tree):
                if isinstance(nd, ast.FunctionDef) and nd.name == fname:
                    fn = nd
            if fn is None or not isinstance(fn.body[-1], ast.Return):
                raise Unsupported("accessor %s not found / not a single return" % fname)
            st2 = st.copy()
            return eng.ev(fn.body[-1].value, st2)
        return call

    cutoff = z3.Int("rowsCutoff")
    selfobj = PyObj("OP4", attrs={"_rowsCutoff": cutoff, "_Str_i4": struct_obj(1, True), "_Str_i": struct_obj(1), "_Str_ii": struct_obj(2), "_Str_iii": struct_obj(3),
                                  "_bytes_i": bi, "_bytes_ii": 2 * bi, "_bytes_iii": 3 * bi, "_fileh": fileobj},
                    methods={"_get_cutoff_etc": getter("_get_cutoff_etc"), "_get_s2": getter("_get_s2"), "_get_s1": getter("_get_s1")})

    def init_call(eng, e, st, spec):
        return PyObj("X")

    def retrn_call(eng, e, st, spec):
        return PyObj("matrix")

    def put_call(eng, e, st, spec):
        x, r, c, y = [eng.ev(a, st) for a in e.args]
        if not isinstance(y, Vals) or not isinstance(x, PyObj):
            raise Unsupported("put() of something that was not read from the file")
        st.env["put_r__"], st.env["put_c__"], st.env["put_p__"], st.env["put_n__"] = eng.to_int(r), eng.to_int(c), y.p, y.n
        st.env["nput__"] = st.env["nput__"] + 1
        return None

    funcs = (PyObj("init", call=init_call), PyObj("put", call=put_call), PyObj("retrn", call=retrn_call))
    fmt = PyObj("format string")
    fmt2 = PyObj("dtype string")

    def struct_unpack(eng, e, st, spec):
        a0 = e.args[0]
        if not (isinstance(a0, ast.BinOp) and isinstance(a0.op, ast.Mod) and eng.ev(a0.left, st) is fmt):
            raise Unsupported("struct.unpack format is not `numform % count`")
        cnt = _int(eng, a0.right, st)
        tok = eng.ev(e.args[1], st)
        if not isinstance(tok, Tok):
            raise Unsupported("struct.unpack of something that is not the result of fp.read")
        eng.oblige(st, tok.n == st.env["bytesreal"] * cnt, "read-size-matches-format@L%s" % e.lineno, "assert", e)
        eng.oblige(st, cnt >= 0, "count-nonneg@L%s" % e.lineno, "assert", e)
        return Vals(tok.p, cnt)

    def np_fromfile(eng, e, st, spec):
        f = eng.ev(e.args[0], st)
        if f is not fileobj or eng.ev(e.args[1], st) is not fmt2:
            raise Unsupported("np.fromfile arguments")
        cnt = _int(eng, e.args[2], st)
        p = st.env["pos__"]
        eng.oblige(st, cnt >= 0, "count-nonneg@L%s" % e.lineno, "assert", e)
        st.env["pos__"] = p + st.env["bytesreal"] * cnt
        return Vals(p, cnt)

    def assume(eng, e, st, spec):
        st.assume(eng.to_bool(eng.ev(e.args[0], st, True)))
        return None

    def uf(f):
        def call(eng, e, st, spec):
            return f(*[eng.to_int(eng.ev(a, st, spec)) for a in e.args])
        return call

    # one-step unfoldings of the recursive format definition
    def unfold_strings(eng, e, st, spec):
        S, R = [eng.to_int(eng.ev(a, st, True)) for a in e.args]
        wper, br = st.env["wper"], st.env["bytesreal"]
        L, row = SLEN(S), SROW(S)
        hdr, hb = string_header_def(FI, S, bi, L, row, layout)
        S2, R2 = S + hb + br * (L / wper), R - (L + (2 if layout == "bigmat" else 1))
        step = z3.Implies(z3.And(WFS(S, R), R > 0), z3.And(hdr, L >= 0, L % wper == 0, row >= 1, WFS(S2, R2), SEND(S, R) == SEND(S2, R2)))
        base = z3.And(z3.Implies(WFS(S, R), R >= 0), z3.Implies(z3.And(WFS(S, R), R == 0), SEND(S, R) == S))
        return z3.And(step, base)

    def unfold_matrix(eng, e, st, spec):
        P = eng.to_int(eng.ev(e.args[0], st, True))
        wper, br, cols = st.env["wper"], st.env["bytesreal"], st.env["cols"]
        nw = FI(P - bi)
        if layout == "dense":
            body, lenmark, E = dense_record_def(FI, F4, P, bi, wper, br)
        else:
            E = SEND(P, nw)
            body = WFS(P, nw)
            lenmark = F4(P - 3 * bi - 4) == E - (P - 3 * bi)
        return z3.Implies(z3.And(WFM(P), FI(P - 3 * bi) - 1 < cols), z3.And(body, lenmark, WFM(E + 8 + 3 * bi)))

    def next_body(eng, e, st, spec):
        """offset of the body of the record that follows the one whose body starts at P"""
        P = eng.to_int(eng.ev(e.args[0], st, True))
        wper, br = st.env["wper"], st.env["bytesreal"]
        nw = FI(P - bi)
        E = P + br * (nw / wper) if layout == "dense" else SEND(P, nw)
        return E + 8 + 3 * bi

    builtins = {"struct.unpack": struct_unpack, "np.fromfile": np_fromfile, "ASSUME": assume, "FI": uf(FI), "F4": uf(F4), "SEND": uf(SEND), "WFS": uf(WFS), "WFM": uf(WFM),
                "SROW": uf(SROW), "SLEN": uf(SLEN), "UNFOLD_STRINGS": unfold_strings, "UNFOLD_MATRIX": unfold_matrix, "NEXT_BODY": next_body}
    return dict(bi=bi, selfobj=selfobj, fileobj=fileobj, funcs=funcs, fmt=fmt, fmt2=fmt2, builtins=builtins, cutoff=cutoff)


def reader(layout):
    env = make_env(layout)
    name = {"dense": "_rd_dense_binary", "bigmat": "_rd_bigmat_binary", "nonbigmat": "_rd_nonbigmat_binary"}[layout]
    c = Contract(FILE, "OP4." + name, floats="real")
    c.objects = True
    c.extra_mods = ("pos__", "put_r__", "put_c__", "put_p__", "put_n__", "nput__")
    c.variant = layout
    c.param_types.update({"self": ("const", env["selfobj"])})
    c.types(fp=("const", env["fileobj"]), wper="int", r="int", c="int", rows="int", cols="int", nwords="int", reclen="int", bytesreal="int",
            numform=("const", env["fmt"]), numform2=("const", env["fmt2"]), funcs=("const", env["funcs"]), bi=("const", env["bi"]), rowsCutoff=("const", env["cutoff"]))
    c.ghost("pos__", "int", "P0__")
    c.types(P0__="int")
    c.ghost("Rb__", "int", "P0__")
    for g in ("put_r__", "put_c__", "put_p__", "put_n__", "nput__"):
        c.ghost(g, "int", "0")
    # what _loadop4_binary has established when it calls the reader
    c.requires("bi == 4 or bi == 8", "wper == 1 or wper == 2", "bytesreal == wper * bi", "cols >= 0", "rowsCutoff >= 0",
               "c == FI(P0__ - 3*bi) - 1", "r == FI(P0__ - 2*bi)", "nwords == FI(P0__ - bi)", "reclen == F4(P0__ - 3*bi - 4)", "WFM(P0__)")
    head = ["pos__ == Rb__", "c == FI(Rb__ - 3*bi) - 1", "r == FI(Rb__ - 2*bi)", "nwords == FI(Rb__ - bi)", "reclen == F4(Rb__ - 3*bi - 4)", "WFM(Rb__)"]
    if layout == "dense":
        c.loop("0", invariant=head, unfold=["UNFOLD_MATRIX(Rb__)"])
        c.after_stmt("put(X, r, c, Y)", ["assert put_r__ == FI(Rb__ - 2*bi) - 1", "assert put_c__ == FI(Rb__ - 3*bi) - 1",
                                         "assert put_p__ == Rb__", "assert put_n__ == FI(Rb__ - bi) // wper"])
        c.after_stmt("c -= 1", ["Rb__ = NEXT_BODY(Rb__)"])
    else:
        c.ghost("S__", "int", "P0__")
        c.ghost("REM__", "int", "nwords")
        c.loop("0", invariant=head + ["S__ == Rb__", "REM__ == FI(Rb__ - bi)"], unfold=["UNFOLD_MATRIX(Rb__)"])
        c.loop("0.0", invariant=["pos__ == S__", "nwords == REM__", "WFS(S__, REM__)", "SEND(S__, REM__) == SEND(Rb__, FI(Rb__ - bi))",
                                 "c == FI(Rb__ - 3*bi) - 1", "WFM(Rb__)", "c < cols", "wper == 1 or wper == 2", "bytesreal == wper * bi"],
               unfold=["UNFOLD_STRINGS(S__, REM__)", "UNFOLD_MATRIX(Rb__)"])
        words = "SLEN(S__) + 2" if layout == "bigmat" else "SLEN(S__) + 1"
        hdrb = "2*bi" if layout == "bigmat" else "bi"
        c.after_stmt("put(X, r, c, Y)", ["assert put_r__ == SROW(S__) - 1", "assert put_c__ == FI(Rb__ - 3*bi) - 1",
                                         "assert put_p__ == S__ + %s" % hdrb, "assert put_n__ == SLEN(S__) // wper",
                                         "REM__ = REM__ - (%s)" % words,
                                         "S__ = S__ + %s + bytesreal * (SLEN(S__) // wper)" % hdrb])
        # after the inner loop the strings are exhausted exactly (nwords <= 0, WFS => REM__ == 0, SEND(S__, 0) == S__): no hook needed, the outer invariant
        # pos__ == Rb__ after the trailer / length marker / header reads is the check
        c.after_stmt("c -= 1", ["Rb__ = NEXT_BODY(Rb__)", "S__ = Rb__", "REM__ = FI(Rb__ - bi)"])
        c.inner_entry_assume = True
    # on return: right after the header of the record that ends the matrix; its length marker is returned
    c.ensures("pos__ == Rb__", "result[1] == F4(Rb__ - 3*bi - 4)", "FI(Rb__ - 3*bi) - 1 >= cols")
    return c, env["builtins"]


def skipper():
    env = make_env("dense")
    bi = env["bi"]
    NEXT = z3.Function("next_record", z3.IntSort(), z3.IntSort())
    c = Contract(FILE, "OP4._skipop4_binary", floats="real")
    c.objects = True
    c.extra_mods = ("pos__",)
    c.param_types.update({"self": ("const", env["selfobj"])})
    c.types(cols="int", R0__="int", bi_=("const", bi))
    c.ghost("pos__", "int", "R0__")
    c.ghost("R__", "int", "R0__")
    c.requires("bi_ == 4 or bi_ == 8", "cols >= 0")
    # records are chained by their length markers: NEXT(R) = R + 4 + F4(R) + 4 ; the matrix ends with the first record whose icol exceeds cols
    c.loop("0", invariant=["pos__ == R__", "bi == bi_", "delta == 4 - bi_", "icol == 0 and R__ == R0__ or icol == FI(LAST__ + 4) and R__ == LAST__ + 4 + F4(LAST__) + 4",
                           ])
    c.ghost("LAST__", "int", "R0__")
    c.after_stmt("self._fileh.seek(reclen + delta, 1)", ["LAST__ = R__", "R__ = R__ + 4 + F4(R__) + 4"])
    # on exit at least one record has been skipped, the last one skipped carries icol > cols, and the reader stands on the first byte after it
    c.ensures("FI(LAST__ + 4) > cols", "pos__ == LAST__ + 4 + F4(LAST__) + 4")
    b = dict(env["builtins"])
    return c, b


# ------------------------------------------------------------------------------------------------------------------
def load_tail():
    """`_loadop4_binary` from the first statement after its header loop to the end, extracted mechanically (ast): the statements that select the
    output container (`_get_sparsefunc`, `_get_funcs`, the sparsefunc conversion) are dropped, the column reader is called under ITS contract
    (requires checked here, ensures assumed), and the final read must land on the first byte after the record that ends the matrix."""
    env = make_env("dense")
    bi = env["bi"]
    so = env["selfobj"]
    bsr, wpd = z3.Int("bytes_sr"), z3.Int("wordsperdouble")
    fsr, fsr2, fdr, fdr2 = PyObj("str_sr"), PyObj("str_sr_fromfile"), PyObj("str_dr"), PyObj("str_dr_fromfile")
    so.attrs.update({"_str_sr": fsr, "_str_sr_fromfile": fsr2, "_bytes_sr": bsr, "_str_dr": fdr, "_str_dr_fromfile": fdr2, "_wordsperdouble": wpd})
    funcs = PyObj("funcs")

    def rdfunc(eng, e, st, spec):
        if len(e.args) != 12:
            raise Unsupported("reader called with %d arguments" % len(e.args))
        a = [eng.ev(x, st) for x in e.args]
        fp, wper, r, c, rows, cols, nwords, reclen, bytesreal, numform, numform2, fn = a
        P = st.env["pos__"]
        I = eng.to_int
        pre = [("file handle", z3.BoolVal(fp is env["fileobj"])), ("funcs", z3.BoolVal(fn is funcs)),
               ("wper in {1,2}", z3.Or(I(wper) == 1, I(wper) == 2)), ("bytesreal == wper*bi", I(bytesreal) == I(wper) * bi),
               ("c == icol - 1 of the record just entered", I(c) == FI(P - 3 * bi) - 1), ("r == irow of that record", I(r) == FI(P - 2 * bi)),
               ("nwords == nw of that record", I(nwords) == FI(P - bi)), ("reclen == its length marker", I(reclen) == F4(P - 3 * bi - 4)),
               ("cols == number of columns of the header", I(cols) == st.env["cols"]), ("rows == |rows of the header|", I(rows) == z3.If(st.env["rows"] >= 0, st.env["rows"], -st.env["rows"])),
               ("format string matches the value width", z3.BoolVal((numform is fsr and numform2 is fsr2) or (numform is fdr and numform2 is fdr2))),
               ("value width", I(bytesreal) == (bsr if numform is fsr else 8))]
        for nm, g in pre:
            eng.oblige(st, g, "reader-requires[%s]@L%s" % (nm, e.lineno), "assert", e)
        Rb = eng.fresh("Rb_end", z3.IntSort())
        st.env["pos__"] = Rb
        st.env["Rend__"] = Rb - 3 * bi - 4
        st.assume(FI(Rb - 3 * bi) - 1 >= st.env["cols"])
        st.assume(F4(Rb - 3 * bi - 4) >= 3 * bi)          # well-formed file: a record holds at least its three integers
        return (PyObj("matrix"), F4(Rb - 3 * bi - 4))

    def mylen(eng, e, st, spec):
        v = eng.ev(e.args[0], st, spec)
        if isinstance(v, Tok):
            return v.n              # well-formed file: the bytes are there
        if isinstance(v, (tuple, str)):
            return len(v)
        raise Unsupported("len of %r" % type(v).__name__)

    c = Contract(FILE, "OP4._loadop4_binary", floats="real")
    c.objects = True
    c.extra_mods = ("pos__",)
    c.param_types.update({"self": ("const", so)})
    c.types(fp=("const", env["fileobj"]), cols="int", rows="int", form="int", mtype="int", name=("const", PyObj("name")), rdfunc=("const", PyObj("reader", call=rdfunc)),
            funcs=("const", funcs), sparse=("const", None), sparsefunc=("const", None), patternlist=("const", None), listonly=("const", False),
            R1__="int", bi=("const", bi), bytes_sr=("const", bsr), wordsperdouble=("const", wpd))
    c.ghost("pos__", "int", "R1__")
    c.ghost("Rend__", "int", "0")
    # class invariant established by _op4open_read (checked concretely for both integer widths and byte orders, see props/C11.open_read_invariant)
    c.requires("bi == 4 or bi == 8", "bytes_sr == bi", "wordsperdouble * bi == 8", "cols >= 0", "mtype >= 1", "mtype <= 4")
    c.ensures("pos__ == Rend__ + 4 + F4(Rend__) + 4")
    b = dict(env["builtins"])
    b["len"] = mylen
    drop = ("sparse, sparsefunc = OP4._get_sparsefunc(sparse)", "rdfunc, funcs = self._get_funcs('binary', rows, r, mtype, sparse, c >= cols)",
            "if sparsefunc and sp.issparse(X):\n    X = sparsefunc(X)")
    return c, b, drop


def slice_after_first_loop(src, qualname, drop):
    """mechanical extraction: FunctionDef whose body is the statements of `qualname` that follow its first top-level loop, minus the statements whose unparsed
    text is listed in `drop`; returns (node, [dropped statements found])"""
    from vc.symex import find_function, _norm_src
    fn = find_function(ast.parse(src), qualname)
    k = [i for i, s_ in enumerate(fn.body) if isinstance(s_, (ast.While, ast.For))][0]
    pre = [s_ for s_ in fn.body[:k] if isinstance(s_, ast.Assign)]          # plain assignments before the loop (fp = self._fileh) are kept
    dn = {_norm_src(d) for d in drop}
    body, dropped = [], []
    for s_ in fn.body[k + 1:]:
        if ast.unparse(s_) in dn:
            dropped.append(ast.unparse(s_).split("\n")[0])
        else:
            body.append(s_)
    new = ast.FunctionDef(name=fn.name, args=fn.args, body=pre + body, decorator_list=[], returns=None, lineno=fn.lineno, col_offset=0)
    ast.fix_missing_locations(new)
    return new, dropped


def jobs(src):
    """verification jobs for vc.pipeline.verify_jobs"""
    out = []
    for lay in ("dense", "bigmat", "nonbigmat"):
        c, b = reader(lay)
        out.append(dict(contract=c, source=src, builtins=b, lang="python", tag="op4.%s[ghost file]" % c.qualname.split(".")[1]))
    c, b = skipper()
    out.append(dict(contract=c, source=src, builtins=b, lang="python", tag="op4._skipop4_binary[ghost file]"))
    c, b, drop = load_tail()
    node, dropped = slice_after_first_loop(src, "OP4._loadop4_binary", drop)
    out.append(dict(contract=c, source=src, builtins=b, fn_node=node, lang="python", tag="op4._loadop4_binary[tail, reader under contract]",
                    dropped_extra={"statements dropped by the extraction": dropped, "part not covered": "the header loop (name decoding, namelist matching, call of the skipper)"}))
    return out


def open_read_invariant(src):
    """class invariant of OP4 objects that the reader contracts rely on, decided by running the REAL binary branch of _op4open_read (extracted by ast: the
    `else` block of `if self._ascii`) for both integer widths and both byte orders on a stand-in object: every precompiled Struct has the size stored next
    to it, ii/iii/iiii are 2/3/4 integers, the single-real format and dtype have _bytes_sr bytes = one word, the double-real ones 8 bytes = _wordsperdouble words."""
    import struct, types
    import numpy as np
    from vc.symex import find_function
    fn = find_function(ast.parse(src), "OP4._op4open_read")
    blk = None
    for nd in ast.walk(fn):
        if isinstance(nd, ast.If) and ast.unparse(nd.test) == "self._ascii" and nd.orelse:
            blk = nd.orelse
    if blk is None:
        return None, "binary branch of _op4open_read not found"
    code = compile(ast.Module(body=blk, type_ignores=[]), "<op4open_read binary branch>", "exec")
    bad, n = [], 0
    for bit64 in (False, True):
        for endian in "<>":
            o = types.SimpleNamespace(_endian=endian, _bit64=bit64, _fileh=types.SimpleNamespace(seek=lambda *a: None))
            exec(code, {"self": o, "struct": struct, "np": np})
            bi = o._bytes_i
            checks = {"bytes_i in {4,8}": bi == (8 if bit64 else 4), "Str_i4 is 4 bytes": o._Str_i4.size == 4, "Str_i": o._Str_i.size == bi, "Str_ii": o._Str_ii.size == o._bytes_ii == 2 * bi,
                      "Str_iii": o._Str_iii.size == o._bytes_iii == 3 * bi, "Str_iiii": o._Str_iiii.size == o._bytes_iiii == 4 * bi,
                      "str_sr one word": struct.calcsize(o._str_sr % 3) == 3 * o._bytes_sr and o._bytes_sr == bi, "str_sr_fromfile": np.dtype(o._str_sr_fromfile).itemsize == o._bytes_sr,
                      "str_dr": struct.calcsize(o._str_dr % 3) == 24 and np.dtype(o._str_dr_fromfile).itemsize == 8, "wordsperdouble": o._wordsperdouble * bi == 8,
                      "byte order": all(x.format[0] == endian for x in (o._Str_i4, o._Str_i, o._Str_ii, o._Str_iii, o._Str_iiii)) and o._str_sr[0] == endian and o._str_dr[0] == endian
                      and np.dtype(o._str_sr_fromfile).byteorder in (endian, "=", "|") and (np.dtype(o._str_dr_fromfile).newbyteorder("=") != np.dtype(o._str_dr_fromfile) or np.dtype(endian + "f8") == np.dtype("f8"))}
            for k_, v_ in checks.items():
                n += 1
                if not v_:
                    bad.append("%s (bit64=%s, endian %s)" % (k_, bit64, endian))
    return n, bad
