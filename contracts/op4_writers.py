"""Contracts of the binary OUTPUT4 WRITERS in pyyeti/nastran/op4.py (property C04; the reader side is contracts/op4_readers.py).

The output file is GHOST STATE: a byte offset `pos__` and what has been written so far,
    W4[p]               - the 4-byte integer written at offset p,
    VCOL/VLO/VN[p]      - a block of reals written at offset p: VN doubles taken from matrix column VCOL starting at row VLO,
    rec0__              - the offset of the last 4-integer record header written, nrec__ the number of such headers.
`f.write` appends at `pos__` (the writers never seek: the file object of the contract has no other method, so a seek is reported as unsupported);
`struct.Struct(endian + "4i").pack(a, b, c, d)` and `struct.pack(endian + "%dd" % n, *v)` build tokens and carry the obligation that the number of
values equals the count of the format (struct.error otherwise).

The matrix is abstract: `ANY(c)` - column c has a non-zero, `FIRST(c)`/`LAST(c)` - its first / last non-zero row (0 <= FIRST <= LAST < rows when
ANY), `MULT` - 1 for a real, 2 for a complex matrix.  `matrix[:, c]`, `v[s:e+1]`, `np.asarray(v).ravel()` are views (column, first row, one past the
last row); `v.dtype = float` turns a view of (hi-lo) entries into (hi-lo)*MULT doubles.

What the obligations decide, for every matrix and every number of columns (loop invariant over the column loop, the nested `_write_col_data` inlined):
  * every column WITH a non-zero produces exactly one record, every column without one produces none (nrec__ == NDATA(c), NDATA defined by unfolding);
  * that record is   [len:4] [icol = c+1] [irow = FIRST(c)+1] [nw = 2*(LAST-FIRST+1)*MULT]  (LAST-FIRST+1)*MULT doubles = matrix[FIRST..LAST, c]  [len:4]
    with len = 4*(3+nw), and it satisfies the one-step record definition of the READER contract (`op4_readers.dense_record_def`, the same Python function,
    instantiated on the written words) - so the file the writer produces meets the precondition WFM under which the reader's obligations were discharged,
    and the reader's `put(X, irow-1, icol-1, values)` restores matrix[FIRST..LAST, c]; all other entries of the column are zero by definition of FIRST/LAST;
  * the matrix ends with the record [20] [cols+1] [1] [2] one double [20], i.e. a record whose icol exceeds cols (what ends the reader's loop).
Assumed (callee contract, listed in the evidence): `_write_binary_header` returns (cols, multiplier) with cols >= 0 and multiplier == MULT and appends the
32-byte header record; numpy's nonzero/any/slicing semantics as stated above.
"""
import ast
import z3
from vc.symex import Contract, PyObj, Unsupported
from contracts import op4_readers as OR

FILE = "pyyeti/nastran/op4.py"

ANY = z3.Function("col_has_nonzero", z3.IntSort(), z3.BoolSort())
FIRST = z3.Function("col_first_nonzero", z3.IntSort(), z3.IntSort())
LAST = z3.Function("col_last_nonzero", z3.IntSort(), z3.IntSort())
NDATA = z3.Function("cols_with_data_before", z3.IntSort(), z3.IntSort())
MULT = z3.Int("MULT")
ROWS = z3.Int("ROWS")
AI = z3.ArraySort(z3.IntSort(), z3.IntSort())


class Fmt:
    def __init__(self, kind, count):
        self.kind, self.count = kind, count          # kind 'i' / 'd'; count: python int or z3 int


class Packed:
    def __init__(self, kind, ints=None, view=None, n=None):
        self.kind, self.ints, self.view, self.n = kind, ints, view, n


def _view(col, lo, hi, as_float):
    o = PyObj("column view")
    o.transient = True
    o.col, o.lo, o.hi, o.as_float = col, lo, hi, as_float

    def getitem(eng, e, st, spec):
        sl = e.slice
        if not isinstance(sl, ast.Slice) or sl.step is not None:
            raise Unsupported("index into a column view: %s" % ast.unparse(e))
        a = eng.to_int(eng.ev(sl.lower, st, spec)) if sl.lower is not None else z3.IntVal(0)
        b = eng.to_int(eng.ev(sl.upper, st, spec)) if sl.upper is not None else (o.hi - o.lo)
        if not spec:
            eng.oblige(st, z3.And(a >= 0, b <= o.hi - o.lo, a <= b), "slice-within-column@L%s" % e.lineno, "bounds", e)
        return _view(o.col, o.lo + a, o.lo + b, o.as_float)

    def setattr_(eng, t, val, st):
        if t.attr != "dtype" or val is not FLOAT or not isinstance(t.value, ast.Name):
            raise Unsupported("attribute store %s" % ast.unparse(t))
        st.env[t.value.id] = _view(o.col, o.lo, o.hi, True)

    def ravel(eng, e, st, spec):
        return o

    o.getitem, o.setattr = getitem, setattr_
    o.methods = {"ravel": ravel}
    return o


FLOAT = PyObj("float")


def make_env():
    endian = PyObj("endian")

    def endian_binop(eng, op, other, self_left):
        if not (self_left and isinstance(op, ast.Add)):
            raise Unsupported("operation on the byte-order character")
        if isinstance(other, Fmt):
            return other
        if isinstance(other, str):
            k = other[-1]
            n = other[:-1]
            if k in "id" and (n == "" or n.isdigit()):
                return Fmt(k, int(n) if n else 1)
        raise Unsupported("struct format %r" % (other,))
    endian.binop = endian_binop

    def write(eng, e, st, spec):
        tok = eng.ev(e.args[0], st)
        if not isinstance(tok, Packed):
            raise Unsupported("f.write of something that is not packed by struct")
        p = st.env["pos__"]
        if tok.kind == "i":
            if len(tok.ints) == 4:
                st.env["rec0__"] = p
                st.env["nrec__"] = st.env["nrec__"] + 1
            W = st.env["W4__"]
            for j, v in enumerate(tok.ints):
                W = z3.Store(W, p + 4 * j, v)
            st.env["W4__"] = W
            st.env["pos__"] = p + 4 * len(tok.ints)
        elif tok.kind == "view":
            st.env["VCOL__"] = z3.Store(st.env["VCOL__"], p, tok.view.col)
            st.env["VLO__"] = z3.Store(st.env["VLO__"], p, tok.view.lo)
            st.env["VN__"] = z3.Store(st.env["VN__"], p, tok.n)
            st.env["pos__"] = p + 8 * tok.n
        else:       # one scalar double
            st.env["VN__"] = z3.Store(st.env["VN__"], p, z3.IntVal(1))
            st.env["VCOL__"] = z3.Store(st.env["VCOL__"], p, z3.IntVal(-1))
            st.env["pos__"] = p + 8
        return None

    fileobj = PyObj("file", methods={"write": write})

    def struct_Struct(eng, e, st, spec):
        fmt = eng.ev(e.args[0], st)
        if not isinstance(fmt, Fmt) or fmt.kind != "i" or not isinstance(fmt.count, int):
            raise Unsupported("struct.Struct format")

        def pack(eng_, e2, st2, spec2):
            if len(e2.args) != fmt.count or any(isinstance(a, ast.Starred) for a in e2.args):
                eng.oblige(st2, z3.BoolVal(False), "pack-count-matches-format@L%s" % e2.lineno, "assert", e2)
            vals = [eng.to_int(eng.ev(a, st2)) for a in e2.args]
            for v in vals:
                eng.oblige(st2, z3.And(v >= -2 ** 31, v < 2 ** 31), "pack-fits-int32@L%s" % e2.lineno, "assert", e2)
            return Packed("i", ints=vals)
        return PyObj("Struct(%d i)" % fmt.count, methods={"pack": pack})

    def struct_pack(eng, e, st, spec):
        fmt = eng.ev(e.args[0], st)
        if not isinstance(fmt, Fmt) or fmt.kind != "d":
            raise Unsupported("struct.pack format")
        rest = e.args[1:]
        if len(rest) == 1 and isinstance(rest[0], ast.Starred):
            v = eng.ev(rest[0].value, st)
            if not (isinstance(v, PyObj) and v.kind == "column view"):
                raise Unsupported("struct.pack(*x) of something that is not a view of the matrix")
            n = (v.hi - v.lo) * (MULT if v.as_float else 1)
            eng.oblige(st, z3.Or(z3.BoolVal(v.as_float), MULT == 1), "pack-values-are-real@L%s" % e.lineno, "assert", e)
            eng.oblige(st, n == eng.to_int(fmt.count), "pack-count-matches-format@L%s" % e.lineno, "assert", e)
            return Packed("view", view=v, n=n)
        if len(rest) == 1:
            eng.ev(rest[0], st)
            eng.oblige(st, eng.to_int(fmt.count) == 1, "pack-count-matches-format@L%s" % e.lineno, "assert", e)
            return Packed("scalar")
        raise Unsupported("struct.pack arguments")

    def str_mod(eng, e, st, spec):
        raise Unsupported("unused")

    def isinstance_(eng, e, st, spec):
        a = eng.ev(e.args[0], st)
        if a is matrix and ast.unparse(e.args[1]) == "np.ndarray":
            return True
        raise Unsupported("isinstance(%s)" % ast.unparse(e)[:40])

    def m_getitem(eng, e, st, spec):
        sl = e.slice
        if isinstance(sl, ast.Tuple) and len(sl.elts) == 2 and isinstance(sl.elts[0], ast.Slice) and sl.elts[0].lower is None and sl.elts[0].upper is None \
                and sl.elts[0].step is None:
            c = eng.to_int(eng.ev(sl.elts[1], st, spec))
            if not spec:
                eng.oblige(st, z3.And(c >= 0, c < st.env["COLS__"]), "column-index-in-range@L%s" % e.lineno, "bounds", e)
            return _view(c, z3.IntVal(0), ROWS, False)
        raise Unsupported("matrix index %s" % ast.unparse(e))
    matrix = PyObj("ndarray", getitem=m_getitem)

    def np_any(eng, e, st, spec):
        v = eng.ev(e.args[0], st)
        if not (isinstance(v, PyObj) and v.kind == "column view") or len(e.args) != 1:
            raise Unsupported("np.any argument")
        # a full column: the abstract predicate; (sub-views are not asked for by the code under contract)
        return z3.And(ANY(v.col), z3.BoolVal(True)) if (z3.is_expr(v.lo) and z3.simplify(v.lo == 0).eq(z3.BoolVal(True))) else _unsup("np.any of a sub-view")

    def _unsup(m):
        raise Unsupported(m)

    def np_nonzero(eng, e, st, spec):
        v = eng.ev(e.args[0], st)
        if not (isinstance(v, PyObj) and v.kind == "column view"):
            raise Unsupported("np.nonzero argument")
        col = v.col
        # definition of the first / last non-zero of a column that has one (numpy semantics, assumed)
        st.assume(z3.Implies(ANY(col), z3.And(FIRST(col) >= 0, FIRST(col) <= LAST(col), LAST(col) < ROWS)))

        def pv_get(eng_, e2, st2, spec2):
            i = eng.ev(e2.slice, st2, spec2)
            if i == 0:
                if not spec2:
                    eng.oblige(st2, ANY(col), "nonzero-index-exists@L%s" % e2.lineno, "bounds", e2)
                return FIRST(col) - v.lo
            if i == -1:
                if not spec2:
                    eng.oblige(st2, ANY(col), "nonzero-index-exists@L%s" % e2.lineno, "bounds", e2)
                return LAST(col) - v.lo
            raise Unsupported("index %r into np.nonzero(...)[0]" % (i,))
        pv = PyObj("nonzero indices", getitem=pv_get)
        pv.transient = True
        return (pv,)

    def np_asarray(eng, e, st, spec):
        return eng.ev(e.args[0], st)

    def header(eng, e, st, spec):
        # assumed callee contract of _write_binary_header (its own arithmetic is exercised by the bounded round trips)
        f = eng.ev(e.args[0], st)
        if f is not fileobj or eng.ev(e.args[2], st) is not matrix:
            raise Unsupported("_write_binary_header arguments")
        st.env["pos__"] = st.env["pos__"] + 32
        return (st.env["COLS__"], MULT)

    selfobj = PyObj("OP4", methods={"_write_binary_header": header})

    def uf(f):
        def call(eng, e, st, spec):
            return f(*[eng.to_int(eng.ev(a, st, spec)) for a in e.args])
        return call

    def sel(name):
        def call(eng, e, st, spec):
            return z3.Select(st.env[name], eng.to_int(eng.ev(e.args[0], st, spec)))
        return call

    def unfold_ndata(eng, e, st, spec):
        k = eng.to_int(eng.ev(e.args[0], st, True))
        return z3.And(NDATA(0) == 0, NDATA(k + 1) == NDATA(k) + z3.If(ANY(k), 1, 0))

    def reader_record_def(eng, e, st, spec):
        """the READER's one-step definition of a dense record (op4_readers.dense_record_def) on the words just written: body offset P = R + 4 + 3*bi, bi = 4,
        words per value = 2*MULT (double precision), bytes per value = 8*MULT"""
        R = eng.to_int(eng.ev(e.args[0], st, True))
        W = st.env["W4__"]
        FIw = lambda p: z3.Select(W, p)
        body, lenmark, E = OR.dense_record_def(FIw, FIw, R + 16, z3.IntVal(4), 2 * MULT, 8 * MULT)
        return z3.And(body, lenmark, st.env["pos__"] == E + 4)

    builtins = {"struct.Struct": struct_Struct, "struct.pack": struct_pack, "isinstance": isinstance_, "np.any": np_any, "np.nonzero": np_nonzero,
                "np.asarray": np_asarray, "ANY": uf(ANY), "FIRST": uf(FIRST), "LAST": uf(LAST), "NDATA": uf(NDATA), "W4": sel("W4__"), "VCOL": sel("VCOL__"),
                "VLO": sel("VLO__"), "VN": sel("VN__"), "UNFOLD_NDATA": unfold_ndata, "READER_RECORD_DEF": reader_record_def}
    return dict(selfobj=selfobj, fileobj=fileobj, matrix=matrix, endian=endian, builtins=builtins)


def dense_writer():
    env = make_env()
    c = Contract(FILE, "OP4._write_binary", floats="real")
    c.objects = True
    c.variant = "ndarray"
    c.names = {"float": FLOAT}

    def str_format(eng, a, b):
        if a == "%dd":
            return Fmt("d", eng.to_int(b))
        raise Unsupported("string format %r" % (a,))
    c.str_format = str_format
    c.extra_mods = ("pos__", "W4__", "VCOL__", "VLO__", "VN__", "rec0__", "nrec__")
    c.param_types.update({"self": ("const", env["selfobj"])})
    c.types(f=("const", env["fileobj"]), name=("const", PyObj("name")), matrix=("const", env["matrix"]), endian=("const", env["endian"]), form=("const", None),
            COLS__="int", P0__="int", MULT=("const", MULT), ROWS=("const", ROWS))
    c.ghost("pos__", "int", "P0__")
    c.ghost("rec0__", "int", "0")
    c.ghost("nrec__", "int", "0")
    for g in ("W4__", "VCOL__", "VLO__", "VN__"):
        c.ghost(g, "intmap", None)
    # capacity of the format (4-byte integers): beyond it struct.pack raises - an error, not a wrong file; NDATA(0) == 0 is the base case of its definition
    c.requires("COLS__ >= 0", "MULT == 1 or MULT == 2", "ROWS >= 0", "P0__ >= 0", "COLS__ < 2147483647", "16 * ROWS + 12 <= 2147483647", "NDATA(0) == 0")
    c.loop("0", invariant=["0 <= nx_c", "nx_c <= cols", "cols == COLS__", "multiplier == MULT", "nrec__ == NDATA(nx_c)", "pos__ >= P0__ + 32"], unfold=["UNFOLD_NDATA(nx_c)"])
    call = "_write_col_data(f, v, c, s, elems, endian, colHeader, colTrailer)"
    c.after_stmt(call, ["assert W4(rec0__ + 4) == c + 1",
                        "assert W4(rec0__ + 8) == FIRST(c) + 1",
                        "assert W4(rec0__ + 12) == 2 * (LAST(c) - FIRST(c) + 1) * MULT",
                        "assert VCOL(rec0__ + 16) == c and VLO(rec0__ + 16) == FIRST(c) and VN(rec0__ + 16) == (LAST(c) - FIRST(c) + 1) * MULT",
                        "assert W4(rec0__) == 4 * (3 + W4(rec0__ + 12))",
                        "assert W4(rec0__ + 16 + 4 * W4(rec0__ + 12)) == W4(rec0__)",
                        "assert pos__ == rec0__ + 4 + W4(rec0__) + 4",
                        "assert READER_RECORD_DEF(rec0__)",
                        "assert ANY(c) and nrec__ == NDATA(c) + 1"])
    # the record that ends the matrix
    c.ensures("nrec__ == NDATA(COLS__) + 1", "W4(rec0__) == 20", "W4(rec0__ + 4) == COLS__ + 1", "W4(rec0__ + 8) == 1", "W4(rec0__ + 12) == 2",
              "VN(rec0__ + 16) == 1", "W4(rec0__ + 24) == 20", "pos__ == rec0__ + 28", "W4(rec0__ + 4) - 1 >= COLS__")
    return c, env["builtins"]


def jobs(src):
    c, b = dense_writer()
    return [dict(contract=c, source=src, builtins=b, lang="python", tag="op4._write_binary[ndarray; ghost output file]",
                 dropped_extra={"branch not covered": "the scipy.sparse branch (`else` of isinstance(matrix, np.ndarray)) - bounded round trips only",
                                "assumed callee contract": "_write_binary_header returns (number of columns, 2 if complex else 1) and appends 32 bytes"})]


def concrete_search(limit=4000):
    """after a failed writer obligation: look for a concrete matrix whose dense binary write -> load round trip on the REAL code is wrong (small shapes,
    leading / trailing zero rows, all-zero columns, real and complex, both byte orders).  Returns a counterexample dict or None."""
    import itertools, os, tempfile
    import numpy as np
    from pyyeti.nastran import op4
    n = 0
    tmp = tempfile.mkdtemp(prefix="c04w_")
    fn = os.path.join(tmp, "w.op4")
    try:
        for rows, cols in ((1, 1), (2, 1), (3, 2), (5, 3), (4, 4)):
            pats = list(itertools.product((0, 1), repeat=rows))
            for cplx in (False, True):
                for combo in itertools.islice(itertools.product(pats, repeat=cols), 0, 300):
                    M = np.array(combo, dtype=float).T * (np.arange(1, rows * cols + 1).reshape(cols, rows).T + 0.25)
                    if cplx:
                        M = M * (1 + 0.5j)
                    for endian in "<>":
                        n += 1
                        if n > limit:
                            return None
                        try:
                            op4.write(fn, {"A": M, "Z": np.ones((2, 2))}, binary=True, endian=endian, sparse="dense")
                            d = {k.upper(): v for k, v in op4.load(fn, into="dct").items()}
                            ok = d["A"][0].shape == M.shape and np.array_equal(d["A"][0], M) and np.array_equal(d["Z"][0], np.ones((2, 2)))
                            got = d["A"][0].tolist() if not ok else None
                        except Exception as ex:          # noqa: BLE001 - the real code failing on a valid matrix is the counterexample
                            ok, got = False, "%s: %s" % (type(ex).__name__, ex)
                        if not ok:
                            return dict(what="dense binary op4.write -> op4.load does not return the matrix written", matrix=repr(M.tolist()), endian=endian, read_back=repr(got)[:600], fails=True)
    finally:
        import shutil
        shutil.rmtree(tmp, ignore_errors=True)
    return None
